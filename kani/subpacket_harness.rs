// Kani harnesses for src/packet/signature/subpacket.rs (child module: sees private items). See /verif/DESIGN.md 8.1 Engine K.
#![allow(dead_code, unused_imports)]
use super::*;
use crate::verif_kani::Sink;

/// RFC 9580 5.2.3.7 (signature subpacket length), written from the RFC text:
///   1st octet < 192: one octet, length = 1st octet
///   192 <= 1st octet < 255: two octets, length = ((1st - 192) << 8) + 2nd + 192
///   1st octet == 255: five octets, length = big-endian u32 of octets 2..5
/// Result: (length, octets consumed).
fn rfc9580_5_2_3_7(inp: &[u8; 5]) -> (u32, usize) {
    let o1 = inp[0] as u32;
    if o1 < 192 {
        (o1, 1)
    } else if o1 < 255 {
        (((o1 - 192) << 8) + (inp[1] as u32) + 192, 2)
    } else {
        (((inp[1] as u32) << 24) | ((inp[2] as u32) << 16) | ((inp[3] as u32) << 8) | (inp[4] as u32), 5)
    }
}

/// K06 (C05/C19/C04): `SubpacketLength::try_from_reader` on EVERY 5-octet input (it never looks
/// past the 5th octet): value, stored form and number of octets consumed are those of
/// RFC 9580 5.2.3.7; never Err, never panics (the u16 arithmetic of the two-octet form cannot
/// overflow: max is (62 << 8) + 192 + 255 = 16319).  Then the parsed value is written back:
/// `write_len()` == octets written == octets consumed, and the octets are the input octets.
/// Complete: loops fully unwound over all 2^40 inputs.
#[kani::proof]
#[kani::unwind(6)]
fn k06_subpacket_length_decode_all_5_octet_inputs() {
    let bytes: [u8; 5] = kani::any();
    let mut rd: &[u8] = &bytes[..];
    let r = SubpacketLength::try_from_reader(&mut rd);
    let consumed = 5 - rd.len();
    let (want, used) = rfc9580_5_2_3_7(&bytes);
    let l = match r {
        Ok(l) => l,
        Err(_) => {
            assert!(false, "complete subpacket length rejected");
            return;
        }
    };
    assert!(consumed == used, "octets consumed differ from RFC 9580 5.2.3.7");
    assert!(l.len() == want as usize, "subpacket length value differs from RFC 9580 5.2.3.7");
    match l {
        SubpacketLength::One(_) => assert!(used == 1),
        SubpacketLength::Two(_) => assert!(used == 2),
        SubpacketLength::Five(_) => assert!(used == 5),
    }
    // write back: same octets, write_len() agrees
    let mut w = Sink::new();
    let wr = l.to_writer(&mut w);
    assert!(wr.is_ok());
    assert!(l.write_len() == w.len, "SubpacketLength::write_len() != octets written");
    assert!(w.len == used, "re-encoded length uses a different number of octets");
    let j: usize = kani::any();
    if j < used {
        assert!(w.buf[j] == bytes[j], "re-encoded subpacket length differs from the parsed octets");
    }
    kani::cover!(bytes[0] == 254 && bytes[1] == 255 && l.len() == 16319);
    kani::cover!(bytes[0] == 255 && l.len() == 0x01020304);
    kani::cover!(bytes[0] == 191);
}

/// K06 (C05/C19): the three stored forms over their whole documented ranges (One < 192,
/// Two in 192..=16319, Five any u32): `write_len()` == octets `to_writer` emits, the octets are the
/// RFC 9580 5.2.3.7 encoding of that form, and `encode(len)` picks the minimal form.
/// Complete over the documented ranges (the ranges are the type's invariant: input shaping).
#[kani::proof]
#[kani::unwind(6)]
fn k06_subpacket_length_write_all_forms() {
    let v: u32 = kani::any();
    let form: u8 = kani::any();
    let l = if form == 0 {
        kani::assume(v < 192);
        SubpacketLength::One(v as u8)
    } else if form == 1 {
        kani::assume(v >= 192 && v <= 16319);
        SubpacketLength::Two(v as u16)
    } else {
        SubpacketLength::Five(v)
    };
    let mut w = Sink::new();
    let wr = l.to_writer(&mut w);
    assert!(wr.is_ok());
    assert!(l.write_len() == w.len, "SubpacketLength::write_len() != octets written");
    // decode what was written with the RFC rule: must give the same value and use all octets
    let mut first5 = [0u8; 5];
    first5.copy_from_slice(&w.buf[..5]);
    let (back, used) = rfc9580_5_2_3_7(&first5);
    assert!(used == w.len, "encoding is not self-delimiting as RFC 9580 5.2.3.7");
    assert!(back == v, "encoded subpacket length decodes to a different value");
    // encode() = minimal form
    let e = SubpacketLength::encode(v);
    match e {
        SubpacketLength::One(x) => assert!(v < 192 && x as u32 == v),
        SubpacketLength::Two(x) => assert!(v >= 192 && v <= 16319 && x as u32 == v),
        SubpacketLength::Five(x) => assert!(v > 16319 && x == v),
    }
    kani::cover!(form == 1 && v == 16319 && w.buf[0] == 254 && w.buf[1] == 255);
    kani::cover!(form == 2 && v == 5 && w.len == 5);
    kani::cover!(form == 0 && v == 191);
}
