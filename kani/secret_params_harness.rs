// Kani harnesses for src/types/params/secret.rs (child module: sees private items). See /verif/DESIGN.md 8.1 Engine K.
#![allow(dead_code, unused_imports)]
use super::*;
