// Kani harnesses compiled into the real crate under cfg(kani); see /verif/DESIGN.md 2.2
// Crate-level harnesses: reach pub / pub(crate) items only.
#![allow(dead_code, unused_imports)]

use digest::DynDigest;

/// A digest that records what it absorbs (fixed capacity, no allocation on the hot path).
#[derive(Clone)]
pub(crate) struct Rec {
    pub buf: [u8; 16],
    pub len: usize,
    pub overflow: bool,
}
impl Rec {
    pub fn new() -> Self {
        Rec { buf: [0; 16], len: 0, overflow: false }
    }
}
impl DynDigest for Rec {
    fn update(&mut self, data: &[u8]) {
        // one block copy instead of a per-octet loop: keeps the unwinding of the caller's loops cheap
        let room = 16 - self.len;
        let n = if data.len() > room {
            self.overflow = true;
            room
        } else {
            data.len()
        };
        self.buf[self.len..self.len + n].copy_from_slice(&data[..n]);
        self.len += n;
    }
    fn finalize_into(self, _buf: &mut [u8]) -> Result<(), digest::InvalidBufferSize> {
        Ok(())
    }
    fn finalize_into_reset(&mut self, _out: &mut [u8]) -> Result<(), digest::InvalidBufferSize> {
        Ok(())
    }
    fn reset(&mut self) {
        self.len = 0;
    }
    fn output_size(&self) -> usize {
        0
    }
    fn box_clone(&self) -> Box<dyn DynDigest> {
        Box::new(self.clone())
    }
    fn finalize_reset(&mut self) -> Box<[u8]> {
        // expose the recorded bytes as the "digest"
        let mut v = Vec::with_capacity(self.len + 1);
        v.push(self.len as u8);
        v.extend_from_slice(&self.buf[..self.len]);
        v.into_boxed_slice()
    }
}


/// Infallible fixed-capacity `io::Write` sink: records what was written and how many octets.
/// Writing more than 16 octets is a harness error and shows up as a failed bounds check.
pub(crate) struct Sink {
    pub buf: [u8; 16],
    pub len: usize,
}
impl Sink {
    pub fn new() -> Self {
        Sink { buf: [0; 16], len: 0 }
    }
}
impl std::io::Write for Sink {
    fn write(&mut self, data: &[u8]) -> std::io::Result<usize> {
        let mut i = 0;
        while i < data.len() {
            self.buf[self.len] = data[i];
            self.len += 1;
            i += 1;
        }
        Ok(data.len())
    }
    fn write_all(&mut self, data: &[u8]) -> std::io::Result<()> {
        self.write(data).map(|_| ())
    }
    fn flush(&mut self) -> std::io::Result<()> {
        Ok(())
    }
}

mod u09_tags {
    use crate::types::{KeyVersion, Tag};

    /// U09 (C05/C17): packet type id <-> Tag is a bijection on all 256 octets, the classes are
    /// the RFC 9580 section 5 ranges, and `encode` sets bits 7,6 over the 6-bit id.
    /// Complete: loop-free over every u8.
    #[kani::proof]
    fn u09_tag_roundtrip_all_octets() {
        let v: u8 = kani::any();
        let t = Tag::from(v);
        assert!(u8::from(t) == v, "u8::from(Tag::from(v)) != v");
        match t {
            Tag::Invalid(_) => assert!(v == 0 || v == 15 || v == 16 || v >= 64),
            Tag::UnassignedCritical(_) => assert!(v >= 22 && v <= 39),
            Tag::UnassignedNonCritical(_) => assert!(v >= 40 && v <= 59),
            Tag::Experimental(_) => assert!(v >= 60 && v <= 63),
            Tag::PublicKeyEncryptedSessionKey => assert!(v == 1),
            Tag::Signature => assert!(v == 2),
            Tag::SymKeyEncryptedSessionKey => assert!(v == 3),
            Tag::OnePassSignature => assert!(v == 4),
            Tag::SecretKey => assert!(v == 5),
            Tag::PublicKey => assert!(v == 6),
            Tag::SecretSubkey => assert!(v == 7),
            Tag::CompressedData => assert!(v == 8),
            Tag::SymEncryptedData => assert!(v == 9),
            Tag::Marker => assert!(v == 10),
            Tag::LiteralData => assert!(v == 11),
            Tag::Trust => assert!(v == 12),
            Tag::UserId => assert!(v == 13),
            Tag::PublicSubkey => assert!(v == 14),
            Tag::UserAttribute => assert!(v == 17),
            Tag::SymEncryptedProtectedData => assert!(v == 18),
            Tag::ModDetectionCode => assert!(v == 19),
            Tag::GnupgAeadData => assert!(v == 20),
            Tag::Padding => assert!(v == 21),
            #[allow(unreachable_patterns)]
            _ => {}
        }
        if v < 64 {
            assert!(t.encode() == (0xC0 | v), "encode() is not 0b11 || id");
        }
        kani::cover!(v == 63);
    }

    /// the range newtypes accept exactly their documented ranges
    #[kani::proof]
    fn u09_tag_newtype_ranges() {
        use crate::types::{ExperimentalTag, InvalidTag, UnassignedCriticalTag, UnassignedNonCriticalTag};
        let v: u8 = kani::any();
        assert!(UnassignedCriticalTag::new(v).is_some() == (v >= 22 && v <= 39));
        assert!(UnassignedNonCriticalTag::new(v).is_some() == (v >= 40 && v <= 59));
        assert!(ExperimentalTag::new(v).is_some() == (v >= 60 && v <= 63));
        assert!(InvalidTag::new(v).is_some() == (v == 0 || v == 15 || v == 16 || v >= 64));
        if let Some(t) = UnassignedCriticalTag::new(v) {
            assert!(u8::from(t) == v);
        }
        kani::cover!(v == 22);
    }

    /// key version octet round trip (num_enum derive with catch-all)
    #[kani::proof]
    fn u09_key_version_roundtrip() {
        let v: u8 = kani::any();
        let k = KeyVersion::from(v);
        assert!(u8::from(k) == v);
        match k {
            KeyVersion::V2 => assert!(v == 2),
            KeyVersion::V3 => assert!(v == 3),
            KeyVersion::V4 => assert!(v == 4),
            KeyVersion::V5 => assert!(v == 5),
            KeyVersion::V6 => assert!(v == 6),
            KeyVersion::Other(_) => assert!(v < 2 || v > 6),
        }
        kani::cover!(v == 6);
    }
}
