// Kani harnesses compiled into the real crate under cfg(kani); see /verif/DESIGN.md 2.2
// Crate-level harnesses: reach pub / pub(crate) items only.
#![allow(dead_code, unused_imports)]

use digest::DynDigest;

/// A digest that records what it absorbs (fixed capacity, no allocation on the hot path).
#[derive(Clone)]
pub(crate) struct Rec {
    pub buf: [u8; 16],
    pub len: usize,
    pub overflow: bool,
}
impl Rec {
    pub fn new() -> Self {
        Rec { buf: [0; 16], len: 0, overflow: false }
    }
}
impl DynDigest for Rec {
    fn update(&mut self, data: &[u8]) {
        for b in data {
            if self.len < 16 {
                self.buf[self.len] = *b;
                self.len += 1;
            } else {
                self.overflow = true;
            }
        }
    }
    fn finalize_into(self, _buf: &mut [u8]) -> Result<(), digest::InvalidBufferSize> {
        Ok(())
    }
    fn finalize_into_reset(&mut self, _out: &mut [u8]) -> Result<(), digest::InvalidBufferSize> {
        Ok(())
    }
    fn reset(&mut self) {
        self.len = 0;
    }
    fn output_size(&self) -> usize {
        0
    }
    fn box_clone(&self) -> Box<dyn DynDigest> {
        Box::new(self.clone())
    }
    fn finalize_reset(&mut self) -> Box<[u8]> {
        // expose the recorded bytes as the "digest"
        let mut v = Vec::with_capacity(self.len + 1);
        v.push(self.len as u8);
        v.extend_from_slice(&self.buf[..self.len]);
        v.into_boxed_slice()
    }
}

