// Kani harnesses compiled into the real crate under cfg(kani); see /verif/DESIGN.md 2.2
