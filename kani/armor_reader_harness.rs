// Kani harnesses compiled into the real crate under cfg(kani); see /verif/DESIGN.md 2.2
#![allow(dead_code, unused_imports)]
use super::*;

/// U42 (C10/C04): `read_checksum` on every 4-octet footer token (its only caller passes exactly
/// `take(4)`): never panics (buf[i] stays in range because 4 base64 characters decode to at most
/// 3 octets) and a 3-octet checksum is the big-endian 24-bit value.
#[kani::proof]
#[kani::unwind(10)]
fn u42_read_checksum_all_4_octet_tokens() {
    let inp: [u8; 4] = kani::any();
    let r = read_checksum(&inp);
    if let Ok(v) = r {
        assert!(v <= 0x00FF_FFFF, "checksum wider than 24 bits");
    }
    kani::cover!(r.is_ok());
}
