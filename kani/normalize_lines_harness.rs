// Kani harnesses compiled into the real crate under cfg(kani); see /verif/DESIGN.md 2.2
// K04 (replace_newlines) dropped: `memchr::memchr_iter` reaches `__cpuid_count` (inline asm), which
// Kani 0.68 does not support ("TerminatorKind::InlineAsm is not currently supported").
