// Kani harnesses for src/types/packet.rs (child module: sees private items). See /verif/DESIGN.md 8.1 Engine K.
#![allow(dead_code, unused_imports)]
use super::*;

/// RFC 9580 4.2.1 (OpenPGP format packet length), written from the RFC text, independent of the
/// code under test.  `inp` is the octet string that follows the type octet.
/// Result: None = the encoding is truncated; Some((is_partial, length, octets_consumed)).
fn rfc9580_4_2_1(inp: &[u8]) -> Option<(bool, u32, usize)> {
    if inp.len() < 1 {
        return None;
    }
    let o1 = inp[0] as u32;
    if o1 < 192 {
        // 4.2.1.1 one-octet lengths: bodyLen = 1st_octet
        Some((false, o1, 1))
    } else if o1 <= 223 {
        // 4.2.1.2 two-octet lengths: bodyLen = ((1st_octet - 192) << 8) + (2nd_octet) + 192
        if inp.len() < 2 {
            return None;
        }
        Some((false, ((o1 - 192) << 8) + (inp[1] as u32) + 192, 2))
    } else if o1 < 255 {
        // 4.2.1.4 partial body lengths: partialBodyLen = 1 << (1st_octet & 0x1F)
        Some((true, 1u32 << (o1 & 0x1F), 1))
    } else {
        // 4.2.1.3 five-octet lengths: 0xFF, then a four-octet big-endian scalar
        if inp.len() < 5 {
            return None;
        }
        let l = ((inp[1] as u32) << 24) | ((inp[2] as u32) << 16) | ((inp[3] as u32) << 8) | (inp[4] as u32);
        Some((false, l, 5))
    }
}

/// K01 (C17/C05/C04): `PacketLength::try_from_reader` agrees with RFC 9580 4.2.1 on EVERY octet
/// string of length 0..=5 (the function never looks past the 5th octet, so this is every input):
/// kind (fixed / partial), value, number of octets consumed, and Err exactly on truncation.
/// Never yields `Indeterminate`.  Complete: loops of `read_arr` fully unwound.
#[kani::proof]
#[kani::unwind(6)]
fn k01_packet_length_decode_all_5_octet_inputs() {
    let bytes: [u8; 5] = kani::any();
    let n: usize = kani::any();
    kani::assume(n <= 5); // input shaping: truncated inputs are part of the domain
    let mut rd: &[u8] = &bytes[..n];
    let r = PacketLength::try_from_reader(&mut rd);
    let consumed = n - rd.len();
    match rfc9580_4_2_1(&bytes[..n]) {
        None => assert!(r.is_err(), "truncated length accepted"),
        Some((partial, len, used)) => {
            match r {
                Ok(PacketLength::Fixed(l)) => {
                    assert!(!partial, "partial length octet decoded as fixed");
                    assert!(l == len, "fixed length value differs from RFC 9580 4.2.1");
                }
                Ok(PacketLength::Partial(l)) => {
                    assert!(partial, "fixed length octet decoded as partial");
                    assert!(l == len, "partial length differs from 1 << (o & 0x1F)");
                }
                Ok(PacketLength::Indeterminate) => assert!(false, "new format has no indeterminate length"),
                Err(_) => assert!(false, "well-formed length rejected"),
            }
            assert!(consumed == used, "number of octets consumed differs from RFC 9580 4.2.1");
        }
    }
    kani::cover!(n == 5 && bytes[0] == 255 && r.is_ok());
    kani::cover!(n == 2 && bytes[0] == 223 && bytes[1] == 255 && r.is_ok());
    kani::cover!(n >= 1 && bytes[0] == 254 && r.is_ok());
    kani::cover!(n == 4 && bytes[0] == 255 && r.is_err());
}

/// K01: `fixed_encoding_len` over all u32: 1 octet below 192, 2 octets up to 8383, else 5; and the
/// thresholds are the ones of the decode: the largest two-octet value is
/// ((223 - 192) << 8) + 255 + 192 == 8383.
#[kani::proof]
fn k01_fixed_encoding_len_all_u32() {
    let len: u32 = kani::any();
    let n = PacketLength::fixed_encoding_len(len);
    let max_two: u32 = ((223 - 192) << 8) + 255 + 192;
    let expect = if len <= 191 {
        1
    } else if len <= max_two {
        2
    } else {
        5
    };
    assert!(n == expect, "fixed_encoding_len differs from RFC 9580 4.2.1 thresholds");
    kani::cover!(len == 8383 && n == 2);
    kani::cover!(len == 8384 && n == 5);
}
