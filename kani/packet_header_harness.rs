// Kani harnesses for src/packet/header.rs (child module: sees private items). See /verif/DESIGN.md 8.1 Engine K.
#![allow(dead_code, unused_imports)]
use super::*;
use crate::verif_kani::Sink;

/// the error message of the "bit 7 clear" arm is formatted: not part of the property
fn k02_no_format(_args: std::fmt::Arguments<'_>) -> String {
    String::new()
}

/// Decoded header per RFC 9580 4.2, written from the RFC text, independent of the code:
///   octet 0: bit 7 always one; bit 6 = 1 OpenPGP format (type id = bits 5..0, length 4.2.1),
///            bit 6 = 0 legacy format (type id = bits 5..2, length type = bits 1..0:
///            0 one octet, 1 two octets BE, 2 four octets BE, 3 indeterminate).
#[derive(PartialEq, Eq, Clone, Copy)]
enum K02Len {
    Fixed(u32),
    Partial(u32),
    Indeterminate,
}
#[derive(Clone, Copy)]
enum K02Dec {
    /// bit 7 of the first octet is clear: not a packet header
    Invalid,
    /// the header is cut short
    Truncated,
    Ok { new_format: bool, type_id: u8, len: K02Len, used: usize },
}
fn k02_be(inp: &[u8]) -> u32 {
    match inp.len() {
        1 => inp[0] as u32,
        2 => ((inp[0] as u32) << 8) | inp[1] as u32,
        _ => ((inp[0] as u32) << 24) | ((inp[1] as u32) << 16) | ((inp[2] as u32) << 8) | inp[3] as u32,
    }
}
fn rfc9580_4_2(inp: &[u8]) -> K02Dec {
    if inp.len() < 1 {
        return K02Dec::Truncated;
    }
    let h = inp[0];
    if h & 0x80 == 0 {
        return K02Dec::Invalid;
    }
    let rest = &inp[1..];
    if h & 0x40 != 0 {
        let type_id = h & 0x3F;
        if rest.len() < 1 {
            return K02Dec::Truncated;
        }
        let o1 = rest[0] as u32;
        if o1 < 192 {
            K02Dec::Ok { new_format: true, type_id, len: K02Len::Fixed(o1), used: 2 }
        } else if o1 <= 223 {
            if rest.len() < 2 {
                return K02Dec::Truncated;
            }
            K02Dec::Ok { new_format: true, type_id, len: K02Len::Fixed(((o1 - 192) << 8) + rest[1] as u32 + 192), used: 3 }
        } else if o1 < 255 {
            K02Dec::Ok { new_format: true, type_id, len: K02Len::Partial(1u32 << (o1 & 0x1F)), used: 2 }
        } else {
            if rest.len() < 5 {
                return K02Dec::Truncated;
            }
            K02Dec::Ok { new_format: true, type_id, len: K02Len::Fixed(k02_be(&rest[1..5])), used: 6 }
        }
    } else {
        let type_id = (h >> 2) & 0x0F;
        let nlen: usize = match h & 0x03 {
            0 => 1,
            1 => 2,
            2 => 4,
            _ => 0,
        };
        if rest.len() < nlen {
            return K02Dec::Truncated;
        }
        let len = if nlen == 0 { K02Len::Indeterminate } else { K02Len::Fixed(k02_be(&rest[..nlen])) };
        K02Dec::Ok { new_format: false, type_id, len, used: 1 + nlen }
    }
}

/// K02 (C17/C05/C04): `PacketHeader::try_from_reader` agrees with RFC 9580 4.2 on the first `n`
/// octets of `bytes`: format bit, packet type id, length kind and value, octets consumed; Err
/// exactly when bit 7 is clear or the header is truncated; no panic (the `unreachable!` arm of the
/// legacy length type is unreachable).
fn k02_check(bytes: &[u8; 6], n: usize) {
    let mut rd: &[u8] = &bytes[..n];
    let r = PacketHeader::try_from_reader(&mut rd);
    let consumed = n - rd.len();
    match rfc9580_4_2(&bytes[..n]) {
        K02Dec::Invalid => assert!(r.is_err(), "first octet without bit 7 accepted"),
        K02Dec::Truncated => assert!(r.is_err(), "truncated header accepted"),
        K02Dec::Ok { new_format, type_id, len, used } => {
            let h = match r {
                Ok(h) => h,
                Err(_) => {
                    assert!(false, "well-formed header rejected");
                    return;
                }
            };
            assert!(consumed == used, "octets consumed differ from RFC 9580 4.2");
            assert!((h.version() == PacketHeaderVersion::New) == new_format, "format bit misread");
            assert!(u8::from(h.tag()) == type_id, "packet type id differs from RFC 9580 4.2");
            let got = match h.packet_length() {
                PacketLength::Fixed(l) => K02Len::Fixed(l),
                PacketLength::Partial(l) => K02Len::Partial(l),
                PacketLength::Indeterminate => K02Len::Indeterminate,
            };
            assert!(got == len, "packet length differs from RFC 9580 4.2 / 4.2.1");
        }
    }
}

/// K02: every 6-octet prefix (a header is at most 6 octets; the function never looks further).
/// Complete: `read_arr` loops fully unwound over all 2^48 prefixes.
#[kani::proof]
#[kani::unwind(7)]
#[kani::stub(alloc::fmt::format, k02_no_format)]
fn k02_packet_header_decode_all_6_octet_prefixes() {
    let bytes: [u8; 6] = kani::any();
    k02_check(&bytes, 6);
    kani::cover!(bytes[0] == 0xC2 && bytes[1] == 0xFF); // OpenPGP format, 5-octet length
    kani::cover!(bytes[0] == 0xC2 && bytes[1] == 0xDF); // OpenPGP format, 2-octet length
    kani::cover!(bytes[0] == 0xCB && bytes[1] == 0xE9); // OpenPGP format, partial length
    kani::cover!(bytes[0] == 0x8A); // legacy, 4-octet length
    kani::cover!(bytes[0] == 0x8B); // legacy, indeterminate
    kani::cover!(bytes[0] == 0x3F); // bit 7 clear
}

/// K02: every input of exactly N < 6 octets (truncation => Err, never a shorter header; complete
/// headers shorter than 6 octets decode as above).  Together: all octet strings of length 0..=5.
fn k02_short<const N: usize>() {
    let mut bytes = [0u8; 6];
    let head: [u8; N] = kani::any();
    bytes[..N].copy_from_slice(&head);
    k02_check(&bytes, N);
    kani::cover!(N == 0 || bytes[0] == 0xC2); // OpenPGP format
    kani::cover!(N == 0 || bytes[0] == 0x8A); // legacy, 4-octet length: truncated for every N < 5
    kani::cover!(N == 0 || bytes[0] == 0x8B); // legacy, indeterminate: complete for every N >= 1
}
#[kani::proof]
#[kani::unwind(7)]
#[kani::stub(alloc::fmt::format, k02_no_format)]
fn k02_packet_header_decode_len0() {
    k02_short::<0>();
}
#[kani::proof]
#[kani::unwind(7)]
#[kani::stub(alloc::fmt::format, k02_no_format)]
fn k02_packet_header_decode_len1() {
    k02_short::<1>();
}
#[kani::proof]
#[kani::unwind(7)]
#[kani::stub(alloc::fmt::format, k02_no_format)]
fn k02_packet_header_decode_len2() {
    k02_short::<2>();
}
#[kani::proof]
#[kani::unwind(7)]
#[kani::stub(alloc::fmt::format, k02_no_format)]
fn k02_packet_header_decode_len3() {
    k02_short::<3>();
}
#[kani::proof]
#[kani::unwind(7)]
#[kani::stub(alloc::fmt::format, k02_no_format)]
fn k02_packet_header_decode_len4() {
    k02_short::<4>();
}
#[kani::proof]
#[kani::unwind(7)]
#[kani::stub(alloc::fmt::format, k02_no_format)]
fn k02_packet_header_decode_len5() {
    k02_short::<5>();
}

// Dropped: a write-back harness (`to_writer` + `write_len` on every parsed header, crate Result +
// `debug!` formatting of the header) did not finish in 15 minutes.
