// Kani harnesses for src/packet/header.rs (child module: sees private items). See /verif/DESIGN.md 8.1 Engine K.
#![allow(dead_code, unused_imports)]
use super::*;
use crate::verif_kani::Sink;

/// the error message of the "bit 7 clear" arm is formatted: not part of the property
fn k02_no_format(_args: std::fmt::Arguments<'_>) -> String {
    String::new()
}

/// Decoded header per RFC 9580 4.2, written from the RFC text, independent of the code:
///   octet 0: bit 7 always one; bit 6 = 1 OpenPGP format (type id = bits 5..0, length 4.2.1),
///            bit 6 = 0 legacy format (type id = bits 5..2, length type = bits 1..0:
///            0 one octet, 1 two octets BE, 2 four octets BE, 3 indeterminate).
#[derive(PartialEq, Eq, Clone, Copy)]
enum K02Len {
    Fixed(u32),
    Partial(u32),
    Indeterminate,
}
#[derive(Clone, Copy)]
enum K02Dec {
    /// bit 7 of the first octet is clear: not a packet header
    Invalid,
    /// the header is cut short
    Truncated,
    Ok { new_format: bool, type_id: u8, len: K02Len, used: usize },
}
fn k02_be(inp: &[u8]) -> u32 {
    let mut v: u32 = 0;
    let mut i = 0;
    while i < inp.len() {
        v = (v << 8) | inp[i] as u32;
        i += 1;
    }
    v
}
fn rfc9580_4_2(inp: &[u8]) -> K02Dec {
    if inp.len() < 1 {
        return K02Dec::Truncated;
    }
    let h = inp[0];
    if h & 0x80 == 0 {
        return K02Dec::Invalid;
    }
    let rest = &inp[1..];
    if h & 0x40 != 0 {
        let type_id = h & 0x3F;
        if rest.len() < 1 {
            return K02Dec::Truncated;
        }
        let o1 = rest[0] as u32;
        if o1 < 192 {
            K02Dec::Ok { new_format: true, type_id, len: K02Len::Fixed(o1), used: 2 }
        } else if o1 <= 223 {
            if rest.len() < 2 {
                return K02Dec::Truncated;
            }
            K02Dec::Ok { new_format: true, type_id, len: K02Len::Fixed(((o1 - 192) << 8) + rest[1] as u32 + 192), used: 3 }
        } else if o1 < 255 {
            K02Dec::Ok { new_format: true, type_id, len: K02Len::Partial(1u32 << (o1 & 0x1F)), used: 2 }
        } else {
            if rest.len() < 5 {
                return K02Dec::Truncated;
            }
            K02Dec::Ok { new_format: true, type_id, len: K02Len::Fixed(k02_be(&rest[1..5])), used: 6 }
        }
    } else {
        let type_id = (h >> 2) & 0x0F;
        let nlen: usize = match h & 0x03 {
            0 => 1,
            1 => 2,
            2 => 4,
            _ => 0,
        };
        if rest.len() < nlen {
            return K02Dec::Truncated;
        }
        let len = if nlen == 0 { K02Len::Indeterminate } else { K02Len::Fixed(k02_be(&rest[..nlen])) };
        K02Dec::Ok { new_format: false, type_id, len, used: 1 + nlen }
    }
}

/// K02 (C17/C05/C04): `PacketHeader::try_from_reader` agrees with RFC 9580 4.2 on EVERY octet
/// string of length 0..=6 (a header is at most 6 octets, the function never looks further):
/// format bit, packet type id, length kind and value, octets consumed; Err exactly when bit 7 is
/// clear or the header is truncated; no panic (the `unreachable!` arm is unreachable).
/// Complete: `read_arr` loops fully unwound.
#[kani::proof]
#[kani::unwind(7)]
#[kani::stub(alloc::fmt::format, k02_no_format)]
fn k02_packet_header_decode_all_6_octet_prefixes() {
    let bytes: [u8; 6] = kani::any();
    let n: usize = kani::any();
    kani::assume(n <= 6); // input shaping: truncated headers are part of the domain
    let mut rd: &[u8] = &bytes[..n];
    let r = PacketHeader::try_from_reader(&mut rd);
    let consumed = n - rd.len();
    match rfc9580_4_2(&bytes[..n]) {
        K02Dec::Invalid => assert!(r.is_err(), "first octet without bit 7 accepted"),
        K02Dec::Truncated => assert!(r.is_err(), "truncated header accepted"),
        K02Dec::Ok { new_format, type_id, len, used } => {
            let h = match r {
                Ok(h) => h,
                Err(_) => {
                    assert!(false, "well-formed header rejected");
                    return;
                }
            };
            assert!(consumed == used, "octets consumed differ from RFC 9580 4.2");
            assert!((h.version() == PacketHeaderVersion::New) == new_format, "format bit misread");
            assert!(u8::from(h.tag()) == type_id, "packet type id differs from RFC 9580 4.2");
            let got = match h.packet_length() {
                PacketLength::Fixed(l) => K02Len::Fixed(l),
                PacketLength::Partial(l) => K02Len::Partial(l),
                PacketLength::Indeterminate => K02Len::Indeterminate,
            };
            assert!(got == len, "packet length differs from RFC 9580 4.2 / 4.2.1");
        }
    }
    kani::cover!(n == 6 && bytes[0] == 0xC2 && bytes[1] == 0xFF && r.is_ok());
    kani::cover!(n == 5 && bytes[0] == 0x8A && r.is_ok()); // legacy, 4-octet length
    kani::cover!(n == 1 && bytes[0] == 0x8B && r.is_ok()); // legacy, indeterminate
    kani::cover!(n == 2 && bytes[0] == 0xCB && bytes[1] == 0xE9 && r.is_ok()); // partial
    kani::cover!(n == 3 && bytes[0] == 0x3F && r.is_err());
}
