// Kani harnesses for src/packet/signature/types.rs (child module: sees private items). See /verif/DESIGN.md 8.1 Engine K.
#![allow(dead_code, unused_imports)]
use super::*;

use crate::verif_kani::Sink;

/// K07 (C05): every `KeyFlags` value reachable from `KeyFlags::default()` through the public
/// setters (each setter applied with a symbolic boolean; 2^9 combinations, resp. 2^10 with the
/// forwarding draft feature): `write_len()` equals the number of octets `to_writer` emits, and the
/// octets are the RFC 9580 5.2.3.29 flag octets: first octet 0x01 certify, 0x02 sign, 0x04 encrypt
/// communications, 0x08 encrypt storage, 0x10 split key, 0x20 authentication, 0x80 group key;
/// second octet 0x04 ADSK, 0x08 timestamping; the second octet is present iff it is non-zero.
/// Complete: loop-free apart from the sink copy loop (fully unwound).
#[kani::proof]
#[kani::unwind(4)]
fn k07_keyflags_setters_write_len_matches_written() {
    let certify: bool = kani::any();
    let sign: bool = kani::any();
    let enc_comms: bool = kani::any();
    let enc_storage: bool = kani::any();
    let shared: bool = kani::any();
    let auth: bool = kani::any();
    let group: bool = kani::any();
    let adsk: bool = kani::any();
    let timestamping: bool = kani::any();

    let mut f = KeyFlags::default();
    f.set_certify(certify);
    f.set_sign(sign);
    f.set_encrypt_comms(enc_comms);
    f.set_encrypt_storage(enc_storage);
    f.set_shared(shared);
    f.set_authentication(auth);
    f.set_group(group);
    f.set_adsk(adsk);
    f.set_timestamping(timestamping);
    #[allow(unused_mut)]
    let mut fwd = false;
    #[cfg(feature = "draft-wussler-openpgp-forwarding")]
    {
        fwd = kani::any();
        f.set_draft_decrypt_forwarded(fwd);
    }

    // oracle: RFC 9580 5.2.3.29
    let o1: u8 = (certify as u8)
        | ((sign as u8) << 1)
        | ((enc_comms as u8) << 2)
        | ((enc_storage as u8) << 3)
        | ((shared as u8) << 4)
        | ((auth as u8) << 5)
        | ((fwd as u8) << 6)
        | ((group as u8) << 7);
    let o2: u8 = ((adsk as u8) << 2) | ((timestamping as u8) << 3);
    let expect_len: usize = if o2 != 0 { 2 } else { 1 };

    let mut w = Sink::new();
    let r = f.to_writer(&mut w);
    assert!(r.is_ok(), "to_writer failed on an infallible sink");
    assert!(f.write_len() == w.len, "KeyFlags::write_len() != number of octets written");
    assert!(w.len == expect_len, "second flag octet must be present iff non-zero");
    assert!(w.buf[0] == o1, "first key flags octet differs from RFC 9580 5.2.3.29");
    if w.len == 2 {
        assert!(w.buf[1] == o2, "second key flags octet differs from RFC 9580 5.2.3.29");
    }
    kani::cover!(timestamping && !adsk && w.len == 2);
    kani::cover!(!timestamping && !adsk && certify && w.len == 1);
}

/// K07 (C05): every parsed key flags body of exactly N octets (`try_from_reader`, the real
/// parser): `write_len()` equals the number of octets `to_writer` emits, and the emitted octets
/// are the parsed body on every bit RFC 9580 5.2.3.29 defines (first octet: all 8 bits, second
/// octet: 0x04 | 0x08) and on every octet after the second.
/// History: this harness found that the reserved bits 0x03 and 0xF0 of the SECOND octet did not survive
/// parse -> serialize (body `00 80` was written back as `00 00`: `bitfields` padding fields are always
/// zero); repaired in /repo by "fix: KeyFlags keeps the reserved bits ..", the round trip is now exact.
fn keyflags_parsed<const N: usize>() {
    let bytes: [u8; N] = kani::any();
    let parsed = KeyFlags::try_from_reader(&bytes[..]);
    let f = match parsed {
        Ok(f) => f,
        Err(_) => {
            assert!(false, "key flags body rejected");
            return;
        }
    };
    let mut w = Sink::new();
    let r = f.to_writer(&mut w);
    assert!(r.is_ok());
    assert!(f.write_len() == w.len, "KeyFlags::write_len() != number of octets written");
    assert!(w.len == N, "serialized key flags length differs from the parsed body length");
    let mut i = 0;
    while i < N {
        assert!(w.buf[i] == bytes[i], "serialized key flags differ from the parsed body");
        i += 1;
    }
    kani::cover!(N == 0 || bytes[N - 1] != 0);
    kani::cover!(N == 0 || bytes[N - 1] == 0);
}

// (the 0-octet body is not run through the parser here: `Bytes` over an empty Vec did not finish in
// 10 minutes; the resulting state original_len == 0 is covered by k07_keyflags_fields_*)
#[kani::proof]
#[kani::unwind(8)]
fn k07_keyflags_parsed_1_octet() {
    keyflags_parsed::<1>();
}
#[kani::proof]
#[kani::unwind(8)]
fn k07_keyflags_parsed_2_octets() {
    keyflags_parsed::<2>();
}
#[kani::proof]
#[kani::unwind(8)]
fn k07_keyflags_parsed_3_octets() {
    keyflags_parsed::<3>();
}

/// K07 (C05): the same statement for every *state* of the three fields that the parser can
/// produce for bodies of 0..=2 octets and that the setters can then modify (fields built directly:
/// the harness is a child module).  This covers "parsed 1 octet, then a second-octet flag set",
/// which neither of the harnesses above reaches.  Complete: all u16 x original_len in 0..=2.
#[kani::proof]
#[kani::unwind(4)]
fn k07_keyflags_fields_write_len_matches_written() {
    let bits: u16 = kani::any();
    let original_len: usize = kani::any();
    kani::assume(original_len <= 2);
    let f = KeyFlags {
        known: KnownKeyFlags::from_bits(bits),
        rest: None,
        original_len,
    };
    let mut w = Sink::new();
    let r = f.to_writer(&mut w);
    assert!(r.is_ok());
    assert!(f.write_len() == w.len, "KeyFlags::write_len() != number of octets written");
    kani::cover!(original_len == 1 && bits == 0x0800 && w.len == 2);
    kani::cover!(original_len == 0 && w.len == 0);
}

/// K07c (C05, C02, C11): the macro-generated `KnownKeyFlags::from_bits` / `into_bits` are the identity on all
/// 16 bits.  This is the T7 assumption of the Verus shims
/// (shims/subpkt_fidelity.rs, shims/serlen_b_sig.rs) checked against the compiled macro expansion.
/// Complete: loop-free, every u16 / u8.
#[kani::proof]
fn k07c_known_key_flags_bits_identity() {
    let bits: u16 = kani::any();
    assert!(KnownKeyFlags::from_bits(bits).into_bits() == bits, "KnownKeyFlags from_bits/into_bits is not the identity");
    // (KnownFeatures is NOT asserted: its `_libre_*` / `_padding` fields are bitfields padding, which from_bits zeroes -
    // Kani: from_bits(128).into_bits() == 0 - but Features never calls from_bits: it stores the octet with the tuple
    // constructor `KnownFeatures(value[0])` and writes `k.0`, so Features round trips; findings/FT_demo_test.rs)
}
