// Kani harnesses for src/composed/cleartext.rs (child module: sees the private functions).
// BOUNDED stand-ins (DESIGN.md C16): `&str` algorithms (split_inclusive, strip_prefix,
// trim_end_matches, rfind) are outside Verus; Kani runs the REAL functions on every text of
// at most N bytes over the alphabet below.  Never counted as proved.
#![allow(dead_code, unused_imports)]
use super::*;

const ALPHABET: [u8; 6] = [b'a', b'-', b' ', b'\t', b'\r', b'\n'];

fn any_text<const N: usize>() -> (Vec<u8>, usize) {
    let len: usize = kani::any();
    kani::assume(len <= N);
    let mut v = Vec::with_capacity(N);
    let mut i = 0;
    while i < N {
        let k: usize = kani::any();
        kani::assume(k < ALPHABET.len());
        if i < len {
            v.push(ALPHABET[k]);
        }
        i += 1;
    }
    (v, len)
}

/// RFC 9580 section 7.2 oracle, written on bytes, independent of the code under test:
/// trailing spaces/tabs of every line removed (a line ends at LF, or CR LF), then every line
/// ending becomes CR LF.
fn rfc_signed_form(t: &[u8]) -> Vec<u8> {
    let mut out = Vec::new();
    let mut line_start = 0usize;
    let mut i = 0usize;
    while i <= t.len() {
        if i == t.len() || t[i] == b'\n' {
            // content = t[line_start..i], possibly ending in CR when terminated by LF
            let mut end = i;
            let has_lf = i < t.len();
            let mut had_cr = false;
            if has_lf && end > line_start && t[end - 1] == b'\r' {
                end -= 1;
                had_cr = true;
            }
            while end > line_start && (t[end - 1] == b' ' || t[end - 1] == b'\t') {
                end -= 1;
            }
            let mut j = line_start;
            while j < end {
                out.push(t[j]);
                j += 1;
            }
            if has_lf {
                // a CR that trimming exposed directly before the LF forms a CRLF with it
                if !had_cr && end > line_start && t[end - 1] == b'\r' {
                    out.push(b'\n');
                } else {
                    out.push(b'\r');
                    out.push(b'\n');
                }
            }
            line_start = i + 1;
        }
        i += 1;
    }
    out
}

fn check_text(bytes: &[u8]) {
    let text = match std::str::from_utf8(bytes) {
        Ok(t) => t,
        Err(_) => return,
    };
    let esc = dash_escape(text);
    // (b) no line of the escaped text starts with '-' other than as "- "
    let eb = esc.as_bytes();
    let mut i = 0;
    while i < eb.len() {
        if (i == 0 || eb[i - 1] == b'\n') && eb[i] == b'-' {
            assert!(i + 1 < eb.len() && eb[i + 1] == b' ', "unescaped dash at line start");
        }
        i += 1;
    }
    // (a) what is hashed is the RFC signed form of the ORIGINAL text
    let signed = signed_text_of(&esc);
    let want = rfc_signed_form(bytes);
    assert!(signed.as_bytes() == &want[..], "signed form differs from RFC 9580 7.2");
}

/// U60 bounded(3): all texts of <= 3 bytes over {a,-,space,tab,CR,LF}
#[kani::proof]
#[kani::unwind(12)]
fn u60_cleartext_signed_form_n3() {
    let (v, len) = any_text::<3>();
    check_text(&v[..len]);
    kani::cover!(len == 3 && v[0] == b'-' && v[2] == b'\n');
}
