// Kani harnesses for src/crypto/checksum.rs (child module: sees private items). See /verif/DESIGN.md 8.1 Engine K.
#![allow(dead_code, unused_imports)]
use super::*;

/// K13 (C08/C04): the two-octet checksum of RFC 9580 5.5.3 / 5.1 ("sum of all octets mod 65536")
/// for every data of <= 4 octets: `calculate_simple` == the sum computed here in u32; feeding the
/// data in two chunks through the incremental `SimpleChecksum` gives the same value; `finalize` and
/// `to_writer` give it big-endian; `simple()` accepts exactly that checksum.  Additionally the
/// accumulator wraps instead of panicking from ANY starting value (all u16), which is what makes
/// the result independent of the data length.  Bounded(4 octets, 2 chunks).
#[kani::proof]
#[kani::unwind(6)]
fn k13_simple_checksum_le4() {
    let data: [u8; 4] = kani::any();
    let n: usize = kani::any();
    let k: usize = kani::any();
    kani::assume(n <= 4 && k <= n); // input shaping: length and split position
    let mut want: u32 = 0;
    let mut i = 0;
    while i < n {
        want += data[i] as u32;
        i += 1;
    }
    let want = (want % 65536) as u16;
    let one_shot = calculate_simple(&data[..n]);
    assert!(one_shot == want, "calculate_simple != sum of octets mod 65536");

    let mut inc = SimpleChecksum::default();
    Hasher::write(&mut inc, &data[..k]);
    Hasher::write(&mut inc, &data[k..n]);
    assert!(inc.finish() == want as u64, "incremental checksum != one-shot checksum");
    assert!(inc.finalize() == [(want >> 8) as u8, want as u8], "checksum is not written big-endian");
    let mut out = [0u8; 2];
    let mut sl: &mut [u8] = &mut out[..];
    assert!(inc.to_writer(&mut sl).is_ok());
    assert!(out == [(want >> 8) as u8, want as u8], "to_writer is not the big-endian checksum");
    assert!(simple([(want >> 8) as u8, want as u8], &data[..n]).is_ok(), "correct checksum rejected");

    // wrap-around from any accumulator value
    let start: u16 = kani::any();
    let mut acc = SimpleChecksum(start);
    Hasher::write(&mut acc, &data[..n]);
    assert!(acc.finish() == (start.wrapping_add(want)) as u64, "accumulator does not wrap mod 65536");
    kani::cover!(n == 4 && k == 2 && want == 1020);
    kani::cover!(start == 0xFFFF && n == 1 && data[0] == 2 && acc.finish() == 1);
}
