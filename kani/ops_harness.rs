// Kani harnesses for src/packet/one_pass_signature.rs (child module: sees private items). See /verif/DESIGN.md 8.1 Engine K.
#![allow(dead_code, unused_imports)]
use super::*;
