// Kani harnesses compiled into the real crate under cfg(kani); see /verif/DESIGN.md 2.2
#![allow(dead_code, unused_imports)]
use super::*;

/// K09 (C08/C05): the S2K usage octet (RFC 9580 3.7.2.1 / 5.5.3: 0 unprotected, 253 AEAD, 254 CFB,
/// 255 MalleableCFB, any other value a symmetric cipher id = LegacyCFB) is mapped by
/// `S2kUsage::from(u8)` to exactly that class for every octet, and `u8::from(&S2kParams)` of the
/// parameters of that class gives the octet back: the map is a bijection on the usage octet.
/// Complete: loop-free over all 256 octets (variant contents are cheap dummies: the octet does
/// not depend on them).
#[kani::proof]
fn k09_s2k_usage_octet_bijection() {
    let v: u8 = kani::any();
    let usage = S2kUsage::from(v);
    let s2k = StringToKey::Simple { hash_alg: HashAlgorithm::Sha256 };
    let params = match usage {
        S2kUsage::Unprotected => {
            assert!(v == 0, "usage octet != 0 classified as unprotected");
            S2kParams::Unprotected
        }
        S2kUsage::LegacyCfb(sym_alg) => {
            assert!(v >= 1 && v <= 252, "usage octet outside 1..=252 classified as LegacyCfb");
            assert!(u8::from(sym_alg) == v, "LegacyCfb cipher id differs from the usage octet");
            S2kParams::LegacyCfb { sym_alg, iv: Bytes::new() }
        }
        S2kUsage::Aead => {
            assert!(v == 253, "usage octet != 253 classified as AEAD");
            S2kParams::Aead { sym_alg: SymmetricKeyAlgorithm::AES256, aead_mode: AeadAlgorithm::Ocb, s2k, nonce: Bytes::new() }
        }
        S2kUsage::Cfb => {
            assert!(v == 254, "usage octet != 254 classified as CFB");
            S2kParams::Cfb { sym_alg: SymmetricKeyAlgorithm::AES256, s2k, iv: Bytes::new() }
        }
        S2kUsage::MalleableCfb => {
            assert!(v == 255, "usage octet != 255 classified as MalleableCFB");
            S2kParams::MalleableCfb { sym_alg: SymmetricKeyAlgorithm::AES256, s2k, iv: Bytes::new() }
        }
    };
    let back = u8::from(&params);
    kani::cover!(v == 252 && back == 252);
    kani::cover!(v == 253 && back == 253);
    assert!(back == v, "u8::from(&S2kParams) differs from the usage octet it was parsed from");
    std::mem::forget(params); // dropping `Bytes` (vtable call) is not part of the property
}

/// K09: the octet of the protected classes does not depend on the cipher stored inside
/// (a cipher id never leaks into the usage octet of AEAD / CFB / MalleableCFB).
#[kani::proof]
fn k09_s2k_params_octet_independent_of_cipher() {
    let c: u8 = kani::any();
    let which: u8 = kani::any();
    let sym_alg = SymmetricKeyAlgorithm::from(c);
    let s2k = StringToKey::Simple { hash_alg: HashAlgorithm::Sha256 };
    let (params, want) = if which == 0 {
        (S2kParams::Aead { sym_alg, aead_mode: AeadAlgorithm::Gcm, s2k, nonce: Bytes::new() }, 253u8)
    } else if which == 1 {
        (S2kParams::Cfb { sym_alg, s2k, iv: Bytes::new() }, 254u8)
    } else {
        (S2kParams::MalleableCfb { sym_alg, s2k, iv: Bytes::new() }, 255u8)
    };
    let got = u8::from(&params);
    kani::cover!(which == 1 && c == 9);
    assert!(got == want, "usage octet of a protected class depends on its content");
    std::mem::forget(params);
}
