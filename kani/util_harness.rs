// Kani harnesses for src/util.rs (child module: sees private fields of NormalizingHasher)
#![allow(dead_code, unused_imports)]
use super::*;
use crate::verif_kani::Rec;

/// U51 (C14/C06): `done()` must add nothing to the digest input: the canonical form is "every LF
/// not preceded by CR becomes CRLF, everything else unchanged", so a trailing lone CR stays a
/// lone CR.  Complete proof: `done` is loop-free and its behaviour depends only on
/// (text_mode, last_was_cr); both are symbolic here.
#[kani::proof]
#[kani::unwind(20)]
fn u51_done_adds_nothing() {
    let text_mode: bool = kani::any();
    let last_was_cr: bool = kani::any();
    let h = NormalizingHasher {
        hasher: Box::new(Rec::new()),
        text_mode,
        last_was_cr,
    };
    let mut after = h.done();
    let rec = after.finalize_reset();
    kani::cover!(text_mode && last_was_cr);
    // Rec::finalize_reset returns [len, bytes...]
    assert!(rec[0] == 0, "done() appended bytes to the digest input");
}
