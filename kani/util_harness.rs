// Kani harnesses for src/util.rs (child module: sees private fields of NormalizingHasher)
#![allow(dead_code, unused_imports)]
use super::*;
use crate::verif_kani::Rec;

/// U51 (C14/C06): `done()` must add nothing to the digest input: the canonical form is "every LF
/// not preceded by CR becomes CRLF, everything else unchanged", so a trailing lone CR stays a
/// lone CR.  Complete proof: `done` is loop-free and its behaviour depends only on
/// (text_mode, last_was_cr); both are symbolic here.
#[kani::proof]
#[kani::unwind(20)]
fn u51_done_adds_nothing() {
    let text_mode: bool = kani::any();
    let last_was_cr: bool = kani::any();
    let h = NormalizingHasher {
        hasher: Box::new(Rec::new()),
        text_mode,
        last_was_cr,
    };
    let mut after = h.done();
    let rec = after.finalize_reset();
    kani::cover!(text_mode && last_was_cr);
    // Rec::finalize_reset returns [len, bytes...]
    assert!(rec[0] == 0, "done() appended bytes to the digest input");
}

/// Canonical text form, written from RFC 9580 5.2.1.2 / 5.2.4 ("<CR><LF> line endings") as the
/// property states it: every LF that is not preceded by CR becomes CR LF, every other octet
/// (including a lone CR) is unchanged.  Returns (bytes, len); 4 input octets give at most 8.
fn k03_canon(text: &[u8]) -> ([u8; 8], usize) {
    let mut out = [0u8; 8];
    let mut n = 0;
    let mut i = 0;
    while i < text.len() {
        if text[i] == b'\n' && (i == 0 || text[i - 1] != b'\r') {
            out[n] = b'\r';
            n += 1;
        }
        out[n] = text[i];
        n += 1;
        i += 1;
    }
    (out, n)
}

/// K03 (C14/C06/C09): text mode.  For every text of <= 4 octets (all 256 values per octet) and
/// every split position k, `hash_buf(text[..k]); hash_buf(text[k..]); done()` feeds the digest
/// exactly canon(text): chunking does not change what is hashed.  Bounded(4 octets, 2 chunks).
#[kani::proof]
#[kani::unwind(7)]
fn k03_normalizing_hasher_text_two_chunks() {
    let text: [u8; 4] = kani::any();
    let n: usize = kani::any();
    let k: usize = kani::any();
    kani::assume(n <= 4 && k <= n); // input shaping: length and split position
    let mut h = NormalizingHasher::new(Box::new(Rec::new()), true);
    h.hash_buf(&text[..k]);
    h.hash_buf(&text[k..n]);
    let mut d = h.done();
    let rec = d.finalize_reset(); // [len, bytes...]
    let (want, wn) = k03_canon(&text[..n]);
    assert!(rec[0] as usize == wn, "number of octets hashed differs from canon(text)");
    let mut i = 0;
    while i < wn {
        assert!(rec[1 + i] == want[i], "octets hashed differ from canon(text)");
        i += 1;
    }
    // CR | LF split across the two chunks, a lone LF and a lone CR
    kani::cover!(n == 4 && k == 2 && text[1] == b'\r' && text[2] == b'\n' && text[3] == b'\n');
    kani::cover!(n == 3 && k == 1 && text[0] == b'\r' && text[1] == b'a' && text[2] == b'\r');
    kani::cover!(wn == 8);
}

/// K03: binary mode is the identity for every data of <= 4 octets and every split.
#[kani::proof]
#[kani::unwind(7)]
fn k03_normalizing_hasher_binary_identity() {
    let data: [u8; 4] = kani::any();
    let n: usize = kani::any();
    let k: usize = kani::any();
    kani::assume(n <= 4 && k <= n);
    let mut h = NormalizingHasher::new(Box::new(Rec::new()), false);
    h.hash_buf(&data[..k]);
    h.hash_buf(&data[k..n]);
    let mut d = h.done();
    let rec = d.finalize_reset();
    assert!(rec[0] as usize == n, "binary mode changed the number of octets hashed");
    let mut i = 0;
    while i < n {
        assert!(rec[1 + i] == data[i], "binary mode changed an octet");
        i += 1;
    }
    kani::cover!(n == 4 && k == 1 && data[0] == b'\r' && data[1] == b'\n' && data[2] == b'\n');
}
