// Kani harnesses for src/util.rs (child module: sees private fields of NormalizingHasher)
#![allow(dead_code, unused_imports)]
use super::*;
use crate::verif_kani::Rec;

/// U51 (C14/C06): `done()` must add nothing to the digest input: the canonical form is "every LF
/// not preceded by CR becomes CRLF, everything else unchanged", so a trailing lone CR stays a
/// lone CR.  Complete proof: `done` is loop-free and its behaviour depends only on
/// (text_mode, last_was_cr); both are symbolic here.
#[kani::proof]
#[kani::unwind(20)]
fn u51_done_adds_nothing() {
    let text_mode: bool = kani::any();
    let last_was_cr: bool = kani::any();
    let h = NormalizingHasher {
        hasher: Box::new(Rec::new()),
        text_mode,
        last_was_cr,
    };
    let mut after = h.done();
    let rec = after.finalize_reset();
    kani::cover!(text_mode && last_was_cr);
    // Rec::finalize_reset returns [len, bytes...]
    assert!(rec[0] == 0, "done() appended bytes to the digest input");
}

/// A recording digest with a 9-octet window (canon of 4 octets is at most 8) whose content is
/// read back without allocation through `finalize_into_reset(out)`: out = [len, bytes...].
#[derive(Clone)]
struct Rec8 {
    buf: [u8; 9],
    len: usize,
}
impl DynDigest for Rec8 {
    fn update(&mut self, data: &[u8]) {
        let mut i = 0;
        while i < data.len() {
            // more than 9 octets would be a harness error: shows up as a failed bounds check
            self.buf[self.len] = data[i];
            self.len += 1;
            i += 1;
        }
    }
    fn finalize_into(self, _buf: &mut [u8]) -> Result<(), digest::InvalidBufferSize> {
        Ok(())
    }
    fn finalize_into_reset(&mut self, out: &mut [u8]) -> Result<(), digest::InvalidBufferSize> {
        out[0] = self.len as u8;
        out[1..10].copy_from_slice(&self.buf);
        Ok(())
    }
    fn reset(&mut self) {
        self.len = 0;
    }
    fn output_size(&self) -> usize {
        10
    }
    fn box_clone(&self) -> Box<dyn DynDigest> {
        Box::new(self.clone())
    }
    fn finalize_reset(&mut self) -> Box<[u8]> {
        Box::new([0u8; 0])
    }
}

/// Canonical text form, written from RFC 9580 5.2.1.2 / 5.2.4 ("<CR><LF> line endings") as the
/// property states it: every LF that is not preceded by CR becomes CR LF, every other octet
/// (including a lone CR) is unchanged.  Returns (bytes, len); 4 input octets give at most 8.
fn k03_canon(text: &[u8]) -> ([u8; 8], usize) {
    let mut out = [0u8; 8];
    let mut n = 0;
    let mut i = 0;
    while i < text.len() {
        if text[i] == b'\n' && (i == 0 || text[i - 1] != b'\r') {
            out[n] = b'\r';
            n += 1;
        }
        out[n] = text[i];
        n += 1;
        i += 1;
    }
    (out, n)
}

/// K03 (C14/C06/C09): text mode.  For every text of exactly N octets (all 256 values per octet)
/// and every split position k, `hash_buf(text[..k]); hash_buf(text[k..]); done()` feeds the digest
/// exactly canon(text): chunking does not change what is hashed.
/// The octet comparison is done at a nondeterministic index j < len (equivalent to all j).
fn k03_text<const N: usize>() {
    let k: usize = kani::any();
    kani::assume(k <= N); // input shaping: split position
    k03_text_at::<N>(k);
}
fn k03_text_at<const N: usize>(k: usize) {
    let text: [u8; N] = kani::any();
    let mut h = NormalizingHasher::new(Box::new(Rec8 { buf: [0; 9], len: 0 }), true);
    h.hash_buf(&text[..k]);
    h.hash_buf(&text[k..]);
    let mut d = h.done();
    let mut rec = [0u8; 10]; // [len, bytes...]
    let _ = d.finalize_into_reset(&mut rec);
    let (want, wn) = k03_canon(&text);
    assert!(rec[0] as usize == wn, "number of octets hashed differs from canon(text)");
    let j: usize = kani::any();
    if j < wn {
        assert!(rec[1 + j] == want[j], "octets hashed differ from canon(text)");
    }
    // CR | LF split across the two chunks; lone LF; lone CR at the end of a chunk and of the text
    kani::cover!(N < 2 || (k == N - 1 && text[N - 2] == b'\r' && text[N - 1] == b'\n'));
    kani::cover!(N < 1 || (k == N && text[N - 1] == b'\r'));
    kani::cover!(N < 1 || wn == 2 * N);
}

#[kani::proof]
#[kani::unwind(3)]
fn k03_normalizing_hasher_text_len1() {
    k03_text::<1>();
}
#[kani::proof]
#[kani::unwind(3)]
fn k03_normalizing_hasher_text_len2() {
    k03_text::<2>();
}
#[kani::proof]
#[kani::unwind(4)]
fn k03_normalizing_hasher_text_len3() {
    k03_text::<3>();
}
#[kani::proof]
#[kani::unwind(5)]
fn k03_normalizing_hasher_text_len4() {
    k03_text::<4>();
}

/// K03: binary mode is the identity for every data of <= 4 octets and every split.
#[kani::proof]
#[kani::unwind(7)]
fn k03_normalizing_hasher_binary_identity() {
    let data: [u8; 4] = kani::any();
    let n: usize = kani::any();
    let k: usize = kani::any();
    kani::assume(n <= 4 && k <= n);
    let mut h = NormalizingHasher::new(Box::new(Rec::new()), false);
    h.hash_buf(&data[..k]);
    h.hash_buf(&data[k..n]);
    let mut d = h.done();
    let rec = d.finalize_reset();
    assert!(rec[0] as usize == n, "binary mode changed the number of octets hashed");
    let j: usize = kani::any();
    if j < n {
        assert!(rec[1 + j] == data[j], "binary mode changed an octet");
    }
    kani::cover!(n == 4 && k == 1 && data[0] == b'\r' && data[1] == b'\n' && data[2] == b'\n');
}
