#!/usr/bin/env python3
"""Summarise one vrun.py JSON result on stdin (developer helper, not used by ./check)."""
import sys, json
t = sys.stdin.read(); i = t.index('{'); d = json.loads(t[i:])
tw = d.get('twin') or dict()
print('%-38s %-10s fails=%d twin=%s %s %.1fs' % (d['unit_path'], d['status'], len(d['failures']), tw.get('refuted'), (d.get('undecided_reason') or '')[:200], d.get('wall_s', 0)))
for f in d['failures'][:10]:
    print('      -', f['kind'], '|', f['fn'][-40:], '|', (f.get('clause') or '')[:120])
