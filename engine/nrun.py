"""Engine N: bounded stand-ins that run the REAL library natively through its public API
(/verif/native, path dependency on /repo, rebuilt on every run).  Used only where neither
Verus nor Kani can reach the code (str algorithms of the cleartext framework).  Results are
labelled bounded and are never counted as proved."""
import json
import os
import re
import shutil
import subprocess
import time

VERIF = os.path.dirname(os.path.dirname(os.path.abspath(__file__)))
TARGET = os.path.join(VERIF, '.cache', 'native-target')
NATIVE = os.path.join(VERIF, 'native')


def units():
    import glob
    us = json.load(open(os.path.join(NATIVE, 'units.json')))
    for f in sorted(glob.glob(os.path.join(NATIVE, 'units.d', '*.json'))):
        us += json.load(open(f))
    return us


def units_for(prop, tier):
    return [u for u in units() if prop in u['props'] or prop == 'ALL']


def build(repo, bins=None):
    env = dict(os.environ)
    env['CARGO_NET_OFFLINE'] = 'true'
    env['CARGO_TARGET_DIR'] = TARGET
    manifest = os.path.join(NATIVE, 'Cargo.toml')
    if repo.rstrip('/') != '/repo':
        # scratch copy of the repository: build a scratch copy of the harness crate against it
        import hashlib
        tag = hashlib.sha1(os.path.abspath(repo).encode()).hexdigest()[:10]
        # one scratch crate and one target directory per scratch tree: concurrent ./check runs on different trees do not collide
        scratch = os.path.join(VERIF, '.work', 'native-scratch-' + tag)
        shutil.rmtree(scratch, ignore_errors=True)
        shutil.copytree(NATIVE, scratch)
        t = open(os.path.join(scratch, 'Cargo.toml')).read().replace('path = "/repo"', 'path = "%s"' % repo)
        open(os.path.join(scratch, 'Cargo.toml'), 'w').write(t)
        manifest = os.path.join(scratch, 'Cargo.toml')
        env['CARGO_TARGET_DIR'] = TARGET + '-scratch-' + tag
    lock = os.path.join(os.path.dirname(manifest), 'Cargo.lock')
    if not os.path.exists(lock):
        shutil.copy(os.path.join(repo, 'Cargo.lock'), lock)
    which = ['--bins'] if not bins else [x for b in bins for x in ('--bin', b)]   # only the harnesses this run needs
    p = subprocess.run(['cargo', 'build', '--offline'] + which + ['--manifest-path', manifest], env=env,
                       stdout=subprocess.PIPE, stderr=subprocess.STDOUT, text=True)
    return p.returncode, p.stdout, os.path.join(env['CARGO_TARGET_DIR'], 'debug')


def run(us, repo, tier):
    out = []
    if not us:
        return out
    t0 = time.time()
    rc, log, bindir = build(repo, sorted(set(u['bin'] for u in us)))
    bt = time.time() - t0
    for u in us:
        r = {'id': u['id'], 'title': u['title'], 'functions': u.get('functions', []), 'bound': None, 'complete': False,
             'trusted': u.get('trusted', []), 'failures': [], 'build_s': round(bt, 1)}
        if rc != 0:
            r.update(status='undecided', reason='native harness does not build against the tree: ' + log[-400:].replace('\n', ' | '))
            out.append(r)
            continue
        n = u['bound_thorough'] if tier == 'thorough' else u['bound_quick']
        r['bound'] = u['bound_text'] % n
        cmd = [os.path.join(bindir, u['bin']), str(n)]
        r['cmd'] = 'cargo build --offline --manifest-path /verif/native/Cargo.toml && ' + ' '.join(cmd)
        t1 = time.time()
        try:
            p = subprocess.run(cmd, stdout=subprocess.PIPE, stderr=subprocess.STDOUT, text=True, timeout=u.get('timeout_s', 1800))
        except subprocess.TimeoutExpired:
            r.update(status='undecided', reason='native harness timeout')
            out.append(r)
            continue
        r['wall_s'] = round(time.time() - t1, 2)
        m = re.search(r'RESULT total=(\d+) nontrivial=(\d+) failures=(\d+)', p.stdout)
        if not m:
            r.update(status='undecided', reason='native harness produced no RESULT line: ' + p.stdout[-300:].replace('\n', ' | '))
            out.append(r)
            continue
        r['evaluations'] = int(m.group(1))
        r['nontrivial'] = int(m.group(2))
        r['samples'] = re.findall(r'(?m)^SAMPLE (.*)$', p.stdout)
        fails = re.findall(r'(?m)^FAIL hex=([0-9a-f]*) text=(".*?") (.*)$', p.stdout)
        r['status'] = 'failed' if fails else 'verified'
        for hx, text, why in fails[:5]:
            r['failures'].append({'harness': u['bin'], 'description': why[:200], 'kind': 'bounded-native', 'clause': why.split(' ')[0],
                                  'where': [u.get('functions', ['?'])[0]], 'source_line': None, 'output': None,
                                  'witness': {'kind': 'native-replay', 'input_hex': hx, 'input_text': text,
                                              'replay_cmd': '%s %d %s' % (os.path.join(bindir, u['bin']), n, hx)}})
        out.append(r)
    if repo.rstrip('/') != '/repo' and not os.environ.get('VERIF_KEEP_NATIVE_SCRATCH'):
        # scratch tree: its private build directory (GBs) is removed again; set VERIF_KEEP_NATIVE_SCRATCH=1 to keep it
        import hashlib
        tag = hashlib.sha1(os.path.abspath(repo).encode()).hexdigest()[:10]
        shutil.rmtree(TARGET + '-scratch-' + tag, ignore_errors=True)
        shutil.rmtree(os.path.join(VERIF, '.work', 'native-scratch-' + tag), ignore_errors=True)
    return out
