#!/bin/sh
# usage: reseed_all.sh [jobs]  - re-run every kept seeded change against the current checks (scratch copies of /repo HEAD,
# never /repo itself) and print, per seed, the exit code of ./check <property> (1 = caught, 0 = missed, 2 = undecided, 3 = patch no longer applies)
cd /verif
ls -d seeded/*/ | xargs -P ${1:-4} -I@ sh -c '
  d=@; id=$(basename $d); p=$(python3 -c "import json,sys; print(json.load(open(sys.argv[1]))[\"property\"])" ${d}meta.json)
  out=/tmp/reseed_$id.log
  VERIF_SKIP_KANI=1 engine/try_seed.sh /verif/${d}patch.diff $p > $out 2>&1; rc=$?
  echo "$id $p rc=$rc $(grep -c "^VIOLATION" $out) violation lines; $(grep "^VIOLATION" $out | head -1 | cut -c1-200)"
'
