#!/bin/sh
# usage: try_seed.sh <patch> <Cxx> [units]   - run ./check against a scratch copy of /repo with the patch applied
P=$1; C=$2; U=$3
S=/tmp/ts_$$; rm -rf $S; mkdir -p $S
git -C /repo archive HEAD | tar -x -C $S
cd $S && git apply --unsafe-paths $P 2>/dev/null || patch -p1 -s < $P || { echo "patch failed"; exit 3; }
cd /verif
if [ -n "$U" ]; then ./check $C --repo $S --units $U; else ./check $C --repo $S; fi
rc=$?
rm -rf $S
exit $rc
