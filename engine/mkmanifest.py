#!/usr/bin/env python3
"""Regenerate MANIFEST.json from claims.json (kept by hand) so the manifest is always valid."""
import json, os, glob, re, sys
VERIF = os.path.dirname(os.path.dirname(os.path.abspath(__file__)))
claims = json.load(open(os.path.join(VERIF, 'claims.json')))
props = [json.loads(l)['id'] for l in open(os.path.join(VERIF, 'properties.jsonl')) if l.strip()]
checks, na = [], []
for p in props:
    c = claims['claimed'].get(p)
    if c:
        checks.append({
            'property_id': p,
            'quick_cmd': './check %s --tier quick' % p,
            'thorough_cmd': './check %s --tier thorough' % p,
            'evidence_file': '/verif/evidence/%s.json' % p,
            'replay_cmd_template': './check %s --replay {path}' % p,
            'engine': 'contracts',
            'level_claimed': {'category': c.get('level', 'proof'), 'text': c['text'], 'design_ref': c.get('design_ref', 'DESIGN.md section 5 / ' + p)},
            'level_note': c['note'],
            'technique': c.get('technique', 'contract-based deductive verification (Verus requires/ensures/invariants on mechanically extracted real functions)'),
        })
    else:
        na.append({'property_id': p, 'reason': claims['not_applicable'].get(p, 'no unit built yet for this property in this session; not claimed')})
m = {
    'version': 1,
    'setup_cmd': claims['setup_cmd'],
    'hooks': claims['hooks'],
    'engines': claims['engines'],
    'checks': checks,
    'notes': claims.get('notes', ''),
    'not_applicable': na,
}
json.dump(m, open(os.path.join(VERIF, 'MANIFEST.json'), 'w'), indent=1)
print('MANIFEST.json: %d checks, %d not_applicable' % (len(checks), len(na)))
