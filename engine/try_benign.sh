#!/bin/sh
# usage: try_benign.sh <patch>  - behaviour-preserving patch: run EVERY check against a scratch copy; any exit 1 is a FALSE ALARM
P=$1; N=$(basename $P .diff); S=/tmp/tb_$N; rm -rf $S; mkdir -p $S
git -C /repo archive HEAD | tar -x -C $S
cd $S && git apply --unsafe-paths $P 2>/dev/null || patch -p1 -s < $P || { echo "$N patch failed"; exit 3; }
cd /verif
TAG=$(python3 -c "import hashlib,os,sys; print(hashlib.sha1(os.path.abspath(sys.argv[1]).encode()).hexdigest()[:10])" $S)
export VERIF_KEEP_KANI_SCRATCH=1 VERIF_KEEP_NATIVE_SCRATCH=1   # one Kani / native build per scratch tree, reused by all checks below
out=""
for c in C01 C02 C03 C04 C05 C06 C07 C08 C09 C10 C11 C12 C13 C14 C15 C16 C17 C18 C19; do
  ./check $c --repo $S > /tmp/tb_${N}_$c.log 2>&1; rc=$?
  if [ $rc -ne 0 ]; then out="$out $c=$rc"; fi
done
rm -rf $S /verif/.cache/kani-target-scratch-$TAG /verif/.cache/native-target-scratch-$TAG /verif/.work/native-scratch-$TAG
echo "$N:${out:- all quiet}"
