"""Assemble one self-contained Verus file from a unit template.

A unit template (`units/*.vu`) is Verus source text with directives.  Ordinary lines are
copied.  Directive lines start with `//@`:

  //@unit <id> props=C14,C06 [rlimit=20]            unit header (once)
  //@title <text>
  //@trusted <text>                                  an assumption this unit relies on
  //@include <relative path>                         paste a shim/lemma file
  //@extract <file> [in "<container>" [:: "<c2>"]] <fn|struct|enum|const|type> <name> [#n]
  //@block <file> [in "<container>"] fn <name> from "<anchor>" to "<anchor>"
  //@  ... weave directives for this extraction ...
  //@end

Weave directives (ghost text only; executable tokens are never edited by the weaver):

  //@ret <name>                 name the return value:  `-> T`  =>  `-> (name: T)`
  //@spec                       the following `//@|` lines go between signature and body
  //@loop #<n> | "<anchor>"     the following `//@|` lines go between loop head and `{`
  //@after "<anchor>" [#n]      insert `//@|` lines after the line containing anchor
  //@before "<anchor>" [#n]     ... before
  //@probe "<anchor>" [#n]      vacuity probe: in twin mode `assert(false);` goes after anchor
  //@sub /<regex>/ => "<repl>" [why <text>]   unit specific normalisation (logged as Rsub)
  //@wrap <header text>         (block extraction) function header for the wrapper
  //@| <text>                   payload line

`assemble()` returns the file text, a per-line origin map and the rewrite log.
"""
import re
import os
import shlex
from extract import extract, extract_block, ExtractError, code_mask, match_brace
import rewrite


class UnitError(Exception):
    """Anchor lost / directive problem: the unit is undecided, never an alarm."""


def _find_sig_body_open(text):
    """index of the `{` that opens the fn body (first `{` at paren/bracket depth 0
    after `fn`)."""
    mask = code_mask(text)
    m = re.search(r'\bfn\b', text)
    i = m.end() if m else 0
    pd = 0
    ad = 0
    while i < len(text):
        if mask[i]:
            ch = text[i]
            if ch in '([':
                pd += 1
            elif ch in ')]':
                pd -= 1
            elif pd == 0 and ch == '{':
                return i
            elif pd == 0 and ch == ';':
                return i
        i += 1
    raise UnitError('no body')


def _name_return(text, name):
    mask = code_mask(text)
    body = _find_sig_body_open(text)
    # find '->' at paren depth 0 in signature
    pd = 0
    arrow = -1
    i = re.search(r'\bfn\b', text).end()
    while i < body:
        if mask[i]:
            ch = text[i]
            if ch in '([':
                pd += 1
            elif ch in ')]':
                pd -= 1
            elif pd == 0 and text.startswith('->', i):
                arrow = i
                break
        i += 1
    if arrow < 0:
        raise UnitError('ret: function has no return type')
    # type runs to `where` at depth 0 or body
    j = arrow + 2
    end = body
    mw = re.compile(r'\bwhere\b')
    k = j
    ang = 0
    while k < body:
        if mask[k]:
            if text[k] == '<':
                ang += 1
            elif text[k] == '>' and text[k - 1] != '-':
                ang -= 1
            elif ang == 0 and mw.match(text, k):
                end = k
                break
        k += 1
    ty = text[j:end]
    lead = len(ty) - len(ty.lstrip())
    trail = len(ty) - len(ty.rstrip())
    core = ty.strip()
    new = ty[:lead] + '(' + name + ': ' + core + ')' + (ty[len(ty) - trail:] if trail else '')
    return text[:j] + new + text[end:]


def _closures(text):
    """(start_of_params_bar, end_of_params_bar, body_start, body_end) of closure literals in
    code order.  Heuristic lexical detection: a `|` in code whose previous non-blank code
    character is one of `( , = {` or the keyword `move`/`return`."""
    mask = code_mask(text)
    out = []
    i = 0
    n = len(text)
    while i < n:
        if mask[i] and text[i] == '|':
            j = i - 1
            while j >= 0 and text[j] in ' \t\n':
                j -= 1
            prev = text[j] if j >= 0 else '('
            kw = re.search(r'(move|return)$', text[:j + 1])
            if prev in '(,={' or kw:
                if prev == '=' and j > 0 and text[j - 1] in '|&^':  # `|=` etc.
                    i += 1
                    continue
                # params
                if i + 1 < n and text[i + 1] == '|':
                    pe = i + 1
                else:
                    pe = text.index('|', i + 1)
                b = pe + 1
                while b < n and text[b] in ' \t\n':
                    b += 1
                if text[b] == '{':
                    e = match_brace(text, mask, b) + 1
                else:
                    d = 0
                    e = b
                    while e < n:
                        if mask[e]:
                            ch = text[e]
                            if ch in '([{':
                                d += 1
                            elif ch in ')]}':
                                if d == 0:
                                    break
                                d -= 1
                            elif ch in ',;' and d == 0:
                                break
                        e += 1
                out.append((i, pe, b, e))
                i = pe + 1
                continue
        i += 1
    return out


def _annotate_closure(text, args, payload):
    """`|p| body`  =>  `|p| -> (r: T) requires.. ensures.. { body }` ; body text verbatim."""
    m = re.match(r'^#(\d+)\s+ret\s+"([^"]*)"\s*$', args.strip())
    if not m:
        raise UnitError('bad closure args: %r' % args)
    nth = int(m.group(1))
    cl = _closures(text)
    if nth > len(cl):
        raise UnitError('closure #%d lost' % nth)
    (ps, pe, b, e) = cl[nth - 1]
    body = text[b:e]
    spec = ' '.join(p.strip() for p in payload)
    # parameter names: `$1`, `$2`.. in the annotation stand for them, so that renaming a closure parameter in the real
    # code does not lose the annotation.  A dereferencing parameter pattern `|&x|` (which Verus rejects) becomes the plain
    # parameter `|x|` plus `let x = *x;` at the start of the body - the same binding, written as a statement.
    params, names, derefs = [], [], []
    depth, cur = 0, ''
    for ch in text[ps + 1:pe] + ',':
        if ch in '([<':
            depth += 1
        elif ch in ')]>':
            depth -= 1
        if ch == ',' and depth == 0:
            if cur.strip():
                params.append(cur.strip())
            cur = ''
        else:
            cur += ch
    new_params = []
    for prm in params:
        mm = re.match(r'^&\s*([A-Za-z_][A-Za-z0-9_]*)\s*(:.*)?$', prm)
        if mm:
            names.append(mm.group(1))
            derefs.append(mm.group(1))
            new_params.append(mm.group(1) + (mm.group(2) or ''))
        else:
            mm2 = re.match(r'^(?:mut\s+)?([A-Za-z_][A-Za-z0-9_]*)\s*(:.*)?$', prm)
            names.append(mm2.group(1) if mm2 else prm)
            new_params.append(prm)
    for k, nm in enumerate(names):
        spec = spec.replace('$%d' % (k + 1), nm)
    pre = ''.join('let %s = *%s; ' % (d, d) for d in derefs)
    if not body.lstrip().startswith('{'):
        body = '{ ' + pre + body.rstrip() + ' }' + body[len(body.rstrip()):]
    elif pre:
        k = body.index('{')
        body = body[:k + 1] + ' ' + pre + body[k + 1:]
    ptxt = text[ps:pe + 1] if not derefs else '|' + ', '.join(new_params) + '|'
    return text[:ps] + ptxt + ' -> (' + m.group(2) + ') ' + spec + ' ' + body + text[e:]


def _name_for_iterator(text, args, fnname):
    """`//@foriter #n name`: the n-th `for PAT in EXPR {` loop head (in code order, among `for` loops only) becomes
    `for PAT in name: EXPR {` - the Verus syntax that names the loop's ghost iterator.  Ghost-only; independent of
    what EXPR is, so a change to EXPR does not lose the anchor."""
    m = re.match(r'^#(\d+)\s+([A-Za-z_][A-Za-z0-9_]*)\s*$', args.strip())
    if not m:
        raise UnitError('bad foriter args: %r' % args)
    nth, name = int(m.group(1)), m.group(2)
    mask = code_mask(text)
    heads = [mm for mm in re.finditer(r"(?m)^[ \t]*(?:'[a-z_]+\s*:\s*)?for\b", text) if mask[mm.end() - 1]]
    if nth > len(heads):
        raise UnitError('foriter: for-loop #%d lost in %s' % (nth, fnname))
    i = heads[nth - 1].end()
    # find ` in ` at paren depth 0 after the pattern
    pd = 0
    while i < len(text):
        if mask[i]:
            ch = text[i]
            if ch in '([':
                pd += 1
            elif ch in ')]':
                pd -= 1
            elif pd == 0 and re.match(r'\bin\b', text[i:i + 3]) and text[i - 1] in ' \t\n' :
                j = i + 2
                return text[:j] + ' ' + name + ':' + text[j:]
        i += 1
    raise UnitError('foriter: no `in` found for for-loop #%d in %s' % (nth, fnname))


def _loop_heads(lines):
    """indices of lines that start a loop (code `while`/`loop`/`for` as first token or after
    a label), in order."""
    out = []
    rx = re.compile(r"^\s*(?:'[a-z_]+\s*:\s*)?(while|loop|for)\b")
    for k, l in enumerate(lines):
        code = l.split('//')[0]
        if rx.match(code):
            out.append(k)
    return out


RELOCATED = []   # (anchor, chosen line) pairs of the current assembly, reported in the evidence


def _similar(anchor, line):
    import difflib
    a, b = anchor.strip(), line.split('//')[0].strip()
    if not a or not b:
        return 0.0
    if a in b:
        return 1.0
    # compare the anchor with the best same-length window start (anchors are usually line prefixes)
    r1 = difflib.SequenceMatcher(None, a, b[:len(a) + 8]).ratio()
    r2 = difflib.SequenceMatcher(None, a, b).ratio()
    return max(r1, r2)


def _line_map(base, cur):
    """map line indices of the baseline text to line indices of the current text through a line diff"""
    import difflib
    ops = difflib.SequenceMatcher(None, [l.strip() for l in base], [l.strip() for l in cur], autojunk=False).get_opcodes()

    def m(i, mode):
        for tag, i1, i2, j1, j2 in ops:
            if i1 <= i < i2:
                if tag == 'equal':
                    return j1 + (i - i1)
                if tag == 'replace':
                    if j2 - j1 == i2 - i1:
                        return j1 + (i - i1)
                    return min(j1 + (i - i1), j2 - 1)
                if tag == 'delete':
                    # the line is gone: `after` goes after the preceding line, `before`/`at` before the following one
                    if mode == 'after':
                        return j1 - 1 if j1 > 0 else None
                    return j1 if j1 < len(cur) else None
        return None
    return m


def _find_anchor(lines, anchor, nth, origin_ok=None, fuzzy=True):
    """exact substring match first; if the anchored line was edited (a constant, an operator, a field name changed),
    fall back to the unambiguous most similar code line (difflib ratio >= 0.72, clearly better than the runner-up).
    A relocation is logged; if nothing qualifies the anchor is lost (unit undecided)."""
    ok = lambda k: origin_ok is None or origin_ok[k]
    c = [k for k, l in enumerate(lines) if anchor in l and ok(k)]
    want = 1 if nth is None else nth
    if c and (nth is not None or len(c) == 1):
        if want <= len(c):
            return c[want - 1]
    if c and nth is None and len(c) != 1:
        raise UnitError('anchor ambiguous (%d matches): %r' % (len(c), anchor))
    if not fuzzy:
        raise UnitError('anchor lost: %r' % anchor)
    # fuzzy recovery
    scored = [(_similar(anchor, l), k) for k, l in enumerate(lines) if ok(k)]
    cand = sorted([k for sc, k in scored if sc >= 0.72])
    if nth is None:
        best = sorted(scored, reverse=True)[:2]
        if best and best[0][0] >= 0.72 and (len(best) == 1 or best[0][0] - best[1][0] >= 0.08):
            RELOCATED.append((anchor, lines[best[0][1]].strip()))
            return best[0][1]
        raise UnitError('anchor lost: %r' % anchor)
    if want <= len(cand):
        # the n-th similar line, only if the number of similar lines equals the number the unit expects to exist
        k = cand[want - 1]
        RELOCATED.append((anchor + ' #%d' % want, lines[k].strip()))
        return k
    raise UnitError('anchor #%d lost: %r' % (want, anchor))


def _parse_anchor_args(rest):
    """`"anchor text" #2` or `#2`"""
    rest = rest.strip()
    nth = None
    anchor = None
    m = re.match(r'^"((?:[^"\\]|\\.)*)"\s*(?:#(\d+))?\s*$', rest)
    if m:
        anchor = m.group(1).replace('\\"', '"')
        nth = int(m.group(2)) if m.group(2) else None
        return anchor, nth
    m = re.match(r'^#(\d+)\s*$', rest)
    if m:
        return None, int(m.group(1))
    raise UnitError('bad anchor args: %r' % rest)


class Woven:
    def __init__(self):
        self.lines = []      # text lines
        self.origin = []     # per line: dict(kind, file, line, fn, label)


def weave(item, ops, twin, fnname, rewrite_log, baseline=None, snapshot=None):
    """item: dict(text,line,file).  ops: list of (op, args, payload_lines, unit_line).
    Returns (lines, origins)."""
    subs = []
    for op, args, payload, uline in ops:
        if op == 'sub':
            m = re.match(r'^/(.*)/\s*=>\s*"((?:[^"\\]|\\.)*)"\s*(?:why\s+(.*))?$', args.strip())
            if not m:
                raise UnitError('bad sub: %r' % args)
            subs.append((m.group(1), m.group(2).replace('\\"', '"'), m.group(3) or ''))
    try:
        text = rewrite.apply(item['text'], rewrite_log, subs)
    except KeyError as e:
        raise UnitError(str(e))
    for op, args, payload, uline in ops:
        if op == 'ret':
            text = _name_return(text, args.strip())
    for op, args, payload, uline in ops:
        if op == 'closure':
            text = _annotate_closure(text, args, payload)
    for op, args, payload, uline in ops:
        if op == 'foriter':
            text = _name_for_iterator(text, args, fnname)
    lines = text.split('\n')
    if snapshot is not None:
        snapshot.append(text)
    origin = [{'kind': 'code', 'file': item['file'], 'line': item['line'] + k, 'fn': fnname} for k in range(len(lines))]
    is_code = lambda: [o['kind'] == 'code' for o in origin]
    base_lines = baseline.split('\n') if (baseline is not None and baseline != text) else None
    base_map = _line_map(base_lines, lines) if base_lines is not None else None
    cur0 = list(lines)

    def locate(anchor, nth, mode):
        """index in the (partly woven) `lines` of the source line an anchor denotes.  If a baseline snapshot of this
        item exists and the current text differs from it, the anchor is resolved on the BASELINE text (where it was
        written) and carried over to the current text through a line diff, like a patch hunk: an edited line maps to its
        replacement, a deleted line to its neighbour.  Otherwise (or if that fails) the anchor is searched directly."""
        if base_map is not None:
            try:
                b = _find_anchor(base_lines, anchor, nth, None, fuzzy=False)
                c = base_map(b, mode)
                if c is not None:
                    want = item['line'] + c
                    for k, o in enumerate(origin):
                        if o['kind'] == 'code' and o['line'] == want:
                            if anchor not in cur0[c]:
                                RELOCATED.append((anchor + (' #%d' % nth if nth else ''), cur0[c].strip()))
                            return k
            except UnitError:
                pass
        return _find_anchor(lines, anchor, nth, is_code())

    def insert(at, payload, label, uline):
        for n, p in enumerate(payload):
            lines.insert(at + n, p)
            origin.insert(at + n, {'kind': 'ghost', 'fn': fnname, 'label': label, 'unit_line': uline + 1 + n,
                                   'text': p.strip()})

    if twin:
        # entry probe: right after the body's opening brace
        joined = '\n'.join(lines)
        try:
            bo = _find_sig_body_open(joined)
        except UnitError:
            bo = -1
        if bo >= 0 and joined[bo] == '{' and re.search(r'\bfn\b', joined):
            ln = joined.count('\n', 0, bo)
            col = bo - (joined.rfind('\n', 0, bo) + 1)
            head, tail = lines[ln][:col + 1], lines[ln][col + 1:]
            o = origin[ln]
            lines[ln] = head
            lines.insert(ln + 1, tail)
            origin.insert(ln + 1, dict(o))
            insert(ln + 1, ['proof { if vacuity_probe_guard(-(%d as int)) { assert(false); } } // VACUITY-PROBE entry' % (item['line'])], 'probe', 0)
    for op, args, payload, uline in ops:
        if op in ('ret', 'sub', 'closure', 'foriter'):
            continue
        if op == 'spec':
            # between signature and body: find line holding the body '{'
            joined = '\n'.join(lines)
            bo = _find_sig_body_open(joined)
            ln = joined.count('\n', 0, bo)
            col = bo - (joined.rfind('\n', 0, bo) + 1)
            head, tail = lines[ln][:col], lines[ln][col:]
            o = origin[ln]
            lines[ln] = head
            lines.insert(ln + 1, tail)
            origin.insert(ln + 1, dict(o))
            insert(ln + 1, payload, 'spec', uline)
        elif op == 'loop':
            anchor, nth = _parse_anchor_args(args)
            if anchor is None:
                heads = [k for k in _loop_heads(lines) if origin[k]['kind'] == 'code']
                if nth > len(heads):
                    raise UnitError('loop #%d lost in %s' % (nth, fnname))
                ln = heads[nth - 1]
            else:
                ln = locate(anchor, nth, 'at')
            # the loop head may span lines; find the `{` that opens the loop body:
            joined = '\n'.join(lines)
            start = sum(len(l) + 1 for l in lines[:ln])
            mask = code_mask(joined)
            i = start
            pd = 0
            # skip to keyword
            while i < len(joined):
                if mask[i]:
                    ch = joined[i]
                    if ch in '([':
                        pd += 1
                    elif ch in ')]':
                        pd -= 1
                    elif ch == '{' and pd == 0:
                        # `while let Some(x) = y {`  struct-literal braces are not allowed in
                        # loop heads without parens, so the first depth-0 `{` is the body
                        break
                i += 1
            bl = joined.count('\n', 0, i)
            col = i - (joined.rfind('\n', 0, i) + 1)
            head, tail = lines[bl][:col], lines[bl][col:]
            o = origin[bl]
            lines[bl] = head
            lines.insert(bl + 1, tail)
            origin.insert(bl + 1, dict(o))
            insert(bl + 1, payload, 'loop', uline)
        elif op == 'entry':
            # payload right after the opening brace of the function body: no text anchor that a code change could lose
            joined = '\n'.join(lines)
            bo = _find_sig_body_open(joined)
            # the spec may already have been woven between signature and body: find the body brace = first `{` at depth 0
            # that is followed (eventually) by code lines; _find_sig_body_open returns the first depth-0 brace after `fn`,
            # which is the body brace as long as `//@entry` precedes `//@spec` in the unit (documented)
            ln = joined.count('\n', 0, bo)
            col = bo - (joined.rfind('\n', 0, bo) + 1)
            head, tail = lines[ln][:col + 1], lines[ln][col + 1:]
            o = origin[ln]
            lines[ln] = head
            lines.insert(ln + 1, tail)
            origin.insert(ln + 1, dict(o))
            insert(ln + 1, payload, 'proof', uline)
        elif op in ('after', 'before'):
            anchor, nth = _parse_anchor_args(args)
            ln = locate(anchor, nth, op)
            insert(ln + 1 if op == 'after' else ln, payload, 'proof', uline)
        elif op == 'probe':
            anchor, nth = _parse_anchor_args(args)
            try:
                ln = locate(anchor, nth, 'after')
            except UnitError:
                continue   # a vacuity probe whose anchor line changed is skipped (the entry probe remains)
            if twin:
                insert(ln + 1, ['proof { if vacuity_probe_guard(%d) { assert(false); } } // VACUITY-PROBE' % uline], 'probe', uline)
        else:
            raise UnitError('unknown weave op %s' % op)
    return lines, origin


def parse_extract_args(rest):
    toks = shlex.split(rest)
    f = toks[0]
    i = 1
    container = None
    if i < len(toks) and toks[i] == 'in':
        cs = [toks[i + 1]]
        i += 2
        while i < len(toks) and toks[i] == '::':
            cs.append(toks[i + 1])
            i += 2
        container = ' :: '.join(cs)
    kind = toks[i]
    name = toks[i + 1]
    i += 2
    nth = 1
    rest_kv = {}
    while i < len(toks):
        if toks[i].startswith('#'):
            nth = int(toks[i][1:])
            i += 1
        elif toks[i] in ('from', 'to'):
            rest_kv[toks[i]] = toks[i + 1]
            i += 2
        else:
            raise UnitError('bad extract args: %r' % rest)
    return f, container, kind, name, nth, rest_kv


def assemble(unit_path, repo, twin=False, root=None, snapshots=None):
    root = root or os.path.dirname(os.path.dirname(os.path.abspath(unit_path)))
    src_lines = open(unit_path, encoding='utf-8').read().split('\n')
    out, origin = [], []
    meta = {'id': None, 'props': [], 'title': '', 'trusted': [], 'functions': [], 'rlimit': None,
            'rewrites': [], 'extracted': [], 'probes': 0, 'expect_fail': []}
    i = 0

    def emit(line, org):
        out.append(line)
        origin.append(org)

    def do_include(path, from_line):
        p = os.path.join(root, path)
        for k, l in enumerate(open(p, encoding='utf-8').read().split('\n')):
            m = re.match(r'^\s*//@trusted\s+(.*)$', l)
            if m:
                meta['trusted'].append(m.group(1).strip())
            emit(l, {'kind': 'include', 'file': path, 'line': k + 1})

    while i < len(src_lines):
        l = src_lines[i]
        s = l.strip()
        if not s.startswith('//@'):
            emit(l, {'kind': 'template', 'unit_line': i + 1, 'text': s})
            if twin and not meta.get('_guard') and re.match(r'^verus!\s*\{', s):
                emit('pub uninterp spec fn vacuity_probe_guard(k: int) -> bool;', {'kind': 'template', 'unit_line': i + 1, 'text': 'probe guard'})
                meta['_guard'] = True
            if not meta.get('_stdnum') and re.match(r'^verus!\s*\{', s):
                # specifications of core integer helpers outside vstd, in every unit (see the file's header)
                meta['_stdnum'] = True
                do_include('shims/std_num.rs', i + 1)
            i += 1
            continue
        d = s[3:].strip()
        word = d.split(' ', 1)[0]
        rest = d[len(word):].strip()
        if word == 'unit':
            toks = rest.split()
            meta['id'] = toks[0]
            for t in toks[1:]:
                k, v = t.split('=', 1)
                if k == 'props':
                    meta['props'] = v.split(',')
                elif k == 'rlimit':
                    meta['rlimit'] = float(v)
                elif k == 'nolifetime':
                    meta['nolifetime'] = v not in ('0', 'false')
                    if meta['nolifetime']:
                        meta['trusted'].append('T8 this unit is verified with `verus --no-lifetime`: borrow checking of GHOST code is skipped (only spec-mode reads are used, no tracked state); the executable code is the verbatim text rustc accepts in /repo')
            i += 1
        elif word == 'title':
            meta['title'] = rest
            i += 1
        elif word == 'trusted':
            meta['trusted'].append(rest)
            i += 1
        elif word == 'include':
            do_include(rest, i + 1)
            i += 1
        elif word in ('extract', 'block', 'extract?'):
            optional = word.endswith('?')
            word = word.rstrip('?')
            f, container, kind, name, nth, kv = parse_extract_args(rest)
            ops = []
            i += 1
            cur = None
            while i < len(src_lines):
                s2 = src_lines[i].strip()
                if not s2.startswith('//@'):
                    raise UnitError('%s:%d: non-directive line inside extract block' % (unit_path, i + 1))
                d2 = s2[3:]
                if d2.startswith('|'):
                    if cur is None:
                        raise UnitError('%s:%d: payload without directive' % (unit_path, i + 1))
                    cur[2].append(d2[1:].rstrip()[1:] if d2[1:].startswith(' ') else d2[1:].rstrip())
                    i += 1
                    continue
                d2 = d2.strip()
                w2 = d2.split(' ', 1)[0]
                r2 = d2[len(w2):].strip()
                if w2 == 'end':
                    i += 1
                    break
                cur = [w2, r2, [], i]
                ops.append(cur)
                i += 1
            try:
                if word == 'extract':
                    item = extract(repo, f, container, kind, name, nth)
                else:
                    item = extract_block(repo, f, container, name, kv['from'], kv['to'])
                    hdr = [o for o in ops if o[0] == 'wrap']
                    if not hdr:
                        raise UnitError('block extraction needs //@wrap')
                    # wrapper: header from unit, body verbatim
                    item = dict(item)
                    item['text'] = hdr[0][1] + ' {\n' + item['text'] + '\n}'
                    item['line'] -= 1
                    ops = [o for o in ops if o[0] != 'wrap']
            except ExtractError as e:
                if optional:
                    # `//@extract? ...`: a helper item that may legitimately disappear (the code that used it changed too)
                    meta['rewrites'].append(('optional-extract-missing', '%s %s %s' % (f, kind, name), str(e)))
                    continue
                raise UnitError('extract %s %s %s: %s' % (f, kind, name, e))
            fq = (container + ' :: ' if container else '') + kind + ' ' + name
            del RELOCATED[:]
            meta['_nextract'] = meta.get('_nextract', 0) + 1
            bpath = os.path.join(root, 'baseline', os.path.basename(unit_path)[:-3], '%03d.txt' % meta['_nextract'])
            btext = open(bpath, encoding='utf-8').read() if os.path.exists(bpath) else None
            snap = [] if snapshots is not None else None
            lines, orgs = weave(item, [tuple(o) for o in ops], twin, fq, meta['rewrites'], baseline=btext, snapshot=snap)
            if snapshots is not None:
                snapshots.append((meta['_nextract'], snap[0] if snap else ''))
            for a_, l_ in RELOCATED:
                meta['rewrites'].append(('anchor-relocated', a_, l_))
            meta['extracted'].append({'file': f, 'item': fq, 'line': item['line'],
                                      'lines': item['text'].count('\n') + 1, 'block': word == 'block'})
            if kind == 'fn':
                meta['functions'].append('%s (%s:%d)' % (fq, f, item['line']))
            for ln, og in zip(lines, orgs):
                if og.get('label') == 'probe':
                    meta['probes'] += 1
                emit(ln, og)
        else:
            raise UnitError('%s:%d: unknown directive %s' % (unit_path, i + 1, word))
    return '\n'.join(out), origin, meta
