"""Mechanical extraction of real items from /repo's current working tree.

The extractor is purely lexical: a Rust-aware scanner (comments, string / raw string /
byte string literals, char literals vs. lifetimes) drives a brace matcher.  It returns the
*verbatim* text of an item together with the line number it starts on in the repository
file, so every verifier diagnostic can be mapped back to /repo.

Nothing in here edits executable tokens.  Normalisation lives in rewrite.py, contract
insertion in weave.py.
"""
import re


class ExtractError(Exception):
    """Anchor lost: the item named by a unit is no longer where the unit says."""


def code_mask(src):
    """Return a bytearray m with m[i]==1 iff src[i] is a code character
    (not inside a comment, string literal or char literal)."""
    n = len(src)
    m = bytearray(n)
    i = 0
    while i < n:
        c = src[i]
        nxt = src[i + 1] if i + 1 < n else ''
        if c == '/' and nxt == '/':
            j = src.find('\n', i)
            if j < 0:
                j = n
            i = j
            continue
        if c == '/' and nxt == '*':
            depth = 1
            j = i + 2
            while j < n and depth:
                if src.startswith('/*', j):
                    depth += 1
                    j += 2
                elif src.startswith('*/', j):
                    depth -= 1
                    j += 2
                else:
                    j += 1
            i = j
            continue
        # raw strings r"..." r#"..."# br#"..."#
        mraw = None
        if c in 'rb':
            mraw = re.compile(r'b?r(#*)"').match(src, i)
            if mraw and (i == 0 or not (src[i - 1].isalnum() or src[i - 1] == '_')):
                hashes = mraw.group(1)
                end = src.find('"' + hashes, mraw.end())
                if end < 0:
                    end = n
                i = end + 1 + len(hashes)
                continue
        if c == '"' or (c == 'b' and nxt == '"' and (i == 0 or not (src[i - 1].isalnum() or src[i - 1] == '_'))):
            j = i + (2 if c == 'b' else 1)
            while j < n:
                if src[j] == '\\':
                    j += 2
                    continue
                if src[j] == '"':
                    break
                j += 1
            i = j + 1
            continue
        if c == "'" or (c == 'b' and nxt == "'" and (i == 0 or not (src[i - 1].isalnum() or src[i - 1] == '_'))):
            k = i + (1 if c == 'b' else 0)
            # char literal: '\x', '\'' , 'a' ; lifetime: 'a (no closing quote right after)
            if k + 1 < n and src[k + 1] == '\\':
                j = k + 2
                while j < n and src[j] != "'":
                    j += 1
                i = j + 1
                continue
            if k + 2 < n and src[k + 2] == "'":
                i = k + 3
                continue
            # multi-byte char literal e.g. 'é' is one python char, handled above.
            # lifetime or label: code
            m[i] = 1
            i += 1
            continue
        m[i] = 1
        i += 1
    return m


def match_brace(src, mask, open_idx):
    """src[open_idx] is an opening bracket; return index of the matching closer."""
    pairs = {'{': '}', '(': ')', '[': ']'}
    o = src[open_idx]
    cl = pairs[o]
    depth = 0
    for i in range(open_idx, len(src)):
        if not mask[i]:
            continue
        ch = src[i]
        if ch == o:
            depth += 1
        elif ch == cl:
            depth -= 1
            if depth == 0:
                return i
    raise ExtractError('unbalanced %r at %d' % (o, open_idx))


def _norm_ws(s):
    return re.sub(r'\s+', ' ', s).strip()


def _line_start(src, idx):
    j = src.rfind('\n', 0, idx)
    return j + 1


def _item_start(src, mask, idx):
    """Walk backwards from the keyword at idx over visibility/qualifier tokens,
    attributes and doc comments that belong to the item; return start index."""
    start = _line_start(src, idx)
    # extend over preceding attribute / doc-comment lines
    while start > 0:
        prev_end = start - 1
        prev_start = _line_start(src, prev_end)
        line = src[prev_start:prev_end].strip()
        if line.startswith('#[') or line.startswith('///') or line.startswith('#!['):
            start = prev_start
            continue
        break
    return start


def depth_at(src, mask, lo, hi):
    d = 0
    for i in range(lo, hi):
        if mask[i]:
            if src[i] == '{':
                d += 1
            elif src[i] == '}':
                d -= 1
    return d


def find_container(src, mask, header, lo=0, hi=None, nth=1):
    """Find an `impl`/`mod`/`trait` block whose header (text up to the opening brace,
    whitespace-normalised) equals `header`.  Returns (body_lo, body_hi) = indices just
    inside the braces."""
    hi = len(src) if hi is None else hi
    want = _norm_ws(header)
    kw = want.split(' ')[0].split('<')[0]
    seen = 0
    for mm in re.finditer(r'\b' + re.escape(kw) + r'\b', src[lo:hi]):
        i = lo + mm.start()
        if not mask[i]:
            continue
        # header runs to first code '{' or ';'
        j = i
        while j < hi and not (mask[j] and src[j] in '{;'):
            j += 1
        if j >= hi or src[j] != '{':
            continue
        # strip comments out of header text
        hdr = ''.join(ch if mask[k] else ' ' for k, ch in enumerate(src[i:j], start=i))
        if _norm_ws(hdr) == want:
            seen += 1
            if seen != nth:
                continue
            close = match_brace(src, mask, j)
            return j + 1, close
    raise ExtractError('container not found: %s' % header)


ITEM_KW = {
    'fn': r'\bfn\s+%s\b',
    'struct': r'\bstruct\s+%s\b',
    'enum': r'\benum\s+%s\b',
    'const': r'\bconst\s+%s\b',
    'type': r'\btype\s+%s\b',
    'trait': r'\btrait\s+%s\b',
}


def find_item(src, mask, kind, name, lo=0, hi=None, nth=1):
    """Find item `kind name` at brace depth 0 relative to [lo,hi).  Returns (start,end)
    covering attributes, visibility, signature and body (or trailing ';')."""
    hi = len(src) if hi is None else hi
    rx = re.compile(ITEM_KW[kind] % re.escape(name))
    seen = 0
    for mm in rx.finditer(src, lo, hi):
        i = mm.start()
        if not mask[i]:
            continue
        if depth_at(src, mask, lo, i) != 0:
            continue
        seen += 1
        if seen != nth:
            continue
        # find body open or ';' at paren depth 0
        j = mm.end()
        pd = 0
        while j < hi:
            if mask[j]:
                ch = src[j]
                if ch in '([':
                    pd += 1
                elif ch in ')]':
                    pd -= 1
                elif pd == 0 and ch in '{;':
                    break
            j += 1
        if j >= hi:
            raise ExtractError('no body for %s %s' % (kind, name))
        if src[j] == '{':
            end = match_brace(src, mask, j) + 1
            # tuple/unit struct `struct X(..);` handled by ';' case; struct {..} has no ';'
        else:
            end = j + 1
        start = _item_start(src, mask, i)
        return start, end
    raise ExtractError('item not found: %s %s (nth=%d)' % (kind, name, nth))


def extract(repo, relfile, container, kind, name, nth=1):
    """Return dict(text=..., line=<1-based line in file where text starts>, file=relfile)."""
    path = repo.rstrip('/') + '/' + relfile
    try:
        src = open(path, encoding='utf-8').read()
    except OSError as e:
        raise ExtractError('cannot read %s: %s' % (relfile, e))
    mask = code_mask(src)
    lo, hi = 0, len(src)
    if container:
        for hdr in container.split(' :: '):
            cn = 1
            mm = re.match(r'^(.*\S)\s+#(\d+)$', hdr)
            if mm:
                hdr, cn = mm.group(1), int(mm.group(2))
            lo, hi = find_container(src, mask, hdr, lo, hi, cn)
    s, e = find_item(src, mask, kind, name, lo, hi, nth)
    text = src[s:e]
    line = src.count('\n', 0, s) + 1
    return {'text': text, 'line': line, 'file': relfile}


def extract_block(repo, relfile, container, fn, begin_anchor, end_anchor):
    """Verbatim statements of function `fn` between the line containing begin_anchor
    (inclusive) and the line containing end_anchor (exclusive)."""
    it = extract(repo, relfile, container, 'fn', fn)
    lines = it['text'].split('\n')
    b = [k for k, l in enumerate(lines) if begin_anchor in l]
    if not b:
        raise ExtractError('block begin anchor lost: %r' % begin_anchor)
    e = [k for k, l in enumerate(lines) if end_anchor in l and k > b[0]]
    if not e:
        raise ExtractError('block end anchor lost: %r' % end_anchor)
    return {'text': '\n'.join(lines[b[0]:e[0]]), 'line': it['line'] + b[0], 'file': relfile}
