"""Engine K: Kani harnesses compiled into the real crate (cfg(kani) hooks in /repo pull
/verif/kani/*.rs into the crate).  A harness is *complete* when it is loop-free (or fully
unwound with unwinding assertions on) over a full input domain; otherwise it is *bounded*
and never counted as proved."""
import json
import os
import re
import subprocess
import time

VERIF = os.path.dirname(os.path.dirname(os.path.abspath(__file__)))
TARGET = os.path.join(VERIF, '.cache', 'kani-target')


def load_units():
    return json.load(open(os.path.join(VERIF, 'kani', 'units.json')))


def units_for(prop, tier):
    out = []
    for u in load_units():
        if prop in u['props'] or prop == 'ALL':
            if u.get('tier', 'quick') == 'thorough' and tier != 'thorough':
                continue
            out.append(u)
    return out


def parse(output):
    """split cargo-kani output per harness"""
    res = {}
    cur = None
    for block in re.split(r'(?m)^Checking harness ', output)[1:]:
        name = block.split('...', 1)[0].strip()
        short = name.split('::')[-1]
        r = {'name': name, 'checks': 0, 'failed': 0, 'status': None, 'failed_checks': [], 'covers': None,
             'time_s': None, 'unwinding_failed': False}
        m = re.search(r'\*\* (\d+) of (\d+) failed', block)
        if m:
            r['failed'] = int(m.group(1))
            r['checks'] = int(m.group(2))
        m = re.search(r'\*\* (\d+) of (\d+) cover properties satisfied', block)
        if m:
            r['covers'] = (int(m.group(1)), int(m.group(2)))
        m = re.search(r'VERIFICATION:- (\w+)', block)
        if m:
            r['status'] = m.group(1)
        m = re.search(r'Verification Time: ([\d.]+)s', block)
        if m:
            r['time_s'] = float(m.group(1))
        for fm in re.finditer(r'Failed Checks: (.*)\n\s*File: "([^"]+)", line (\d+), in (\S+)', block):
            r['failed_checks'].append({'description': fm.group(1).strip(), 'file': fm.group(2), 'line': int(fm.group(3)),
                                       'in': fm.group(4)})
            if 'unwinding assertion' in fm.group(1):
                r['unwinding_failed'] = True
        for fm in re.finditer(r'Failed Checks: (.*)\n(?!\s*File:)', block):
            r['failed_checks'].append({'description': fm.group(1).strip(), 'file': None, 'line': None, 'in': None})
            if 'unwinding assertion' in fm.group(1):
                r['unwinding_failed'] = True
        # concrete playback values
        cp = re.search(r'Concrete playback unit test for `[^`]*`:\n```\n(.*?)```', block, re.S)
        if cp:
            r['playback'] = cp.group(1)
        res[short] = r
    return res


def _run_one(h, u, repo, env, timeout, playback=False):
    cmd = ['cargo', 'kani', '-Z', 'function-contracts', '-Z', 'stubbing', '--output-format', 'terse']
    if playback:
        cmd += ['-Z', 'concrete-playback', '--concrete-playback=print']
    cmd += u.get('extra_args', []) + ['--harness', h]
    t0 = time.time()
    try:
        p = subprocess.run(cmd, cwd=repo, env=env, stdout=subprocess.PIPE, stderr=subprocess.STDOUT, text=True,
                           timeout=timeout)
        return h, cmd, p.stdout, time.time() - t0, False
    except subprocess.TimeoutExpired:
        return h, cmd, '', time.time() - t0, True


def run(units, repo, tier, jobs=4):
    import concurrent.futures as cf
    os.makedirs(TARGET, exist_ok=True)
    # one Kani phase at a time on this machine (several ./check processes may run concurrently; a CBMC run can take
    # many GB, and the shared target directory would be rebuilt back and forth for different --repo trees)
    import fcntl
    lock = open(os.path.join(os.path.dirname(TARGET), 'kani.lock'), 'w')
    fcntl.flock(lock, fcntl.LOCK_EX)
    env = dict(os.environ)
    env['CARGO_NET_OFFLINE'] = 'true'
    target = TARGET
    if os.path.abspath(repo).rstrip('/') != '/repo':
        # a scratch tree gets its own Kani build directory: sharing one directory between different source trees let a
        # run on /repo pick up goto binaries compiled from a mutated scratch tree (observed: stale counterexamples)
        import hashlib
        target = TARGET + '-scratch-' + hashlib.sha1(os.path.abspath(repo).encode()).hexdigest()[:10]
    env['CARGO_TARGET_DIR'] = target
    # compile once (serialises on the cargo lock anyway); errors show up in the per-harness runs
    subprocess.run(['cargo', 'kani', '-Z', 'function-contracts', '-Z', 'stubbing', '--only-codegen'], cwd=repo, env=env,
                   stdout=subprocess.PIPE, stderr=subprocess.STDOUT, text=True)
    jobs_list = []
    for u in units:
        timeout = u.get('timeout_s', 900) * (3 if tier == 'thorough' else 1)
        for h in u['harnesses']:
            jobs_list.append((h, u, timeout))
    outs = {}
    with cf.ThreadPoolExecutor(max_workers=jobs) as ex:
        futs = [ex.submit(_run_one, h, u, repo, env, to) for h, u, to in jobs_list]
        for f in cf.as_completed(futs):
            h, cmd, out, wall, timed_out = f.result()
            outs[h] = (cmd, out, wall, timed_out)
    results = []
    for u in units:
        hs = u['harnesses']
        timeout = u.get('timeout_s', 900) * (3 if tier == 'thorough' else 1)
        per = {}
        wall = 0
        cmd = None
        tos = []
        lastout = ''
        for h in hs:
            cmd, out, w, timed_out = outs[h]
            wall += w
            lastout = out or lastout
            if timed_out:
                tos.append(h)
            per.update(parse(out))
        kr = {'id': u['id'], 'title': u.get('title'), 'functions': u.get('functions', []), 'complete': u.get('complete', False),
              'bound': u.get('bound'), 'trusted': u.get('trusted', []),
              'cmd': 'cd /repo && CARGO_TARGET_DIR=%s %s  (one invocation per harness: %s)' % (target, ' '.join(cmd[:-1]), ', '.join(hs)),
              'harnesses': [], 'checks': 0, 'checks_ok': 0, 'failures': [], 'wall_s': round(wall, 2)}
        if tos:
            kr.update(status='undecided', reason='kani timeout after %ds: %s' % (timeout, tos))
            results.append(kr)
            continue
        for h in hs:
            if h in per and per[h]['status'] == 'FAILED' and not per[h]['unwinding_failed']:
                _, _, out2, _, to2 = _run_one(h, u, repo, env, timeout, playback=True)
                per2 = parse(out2)
                if h in per2 and per2[h].get('playback'):
                    per[h]['playback'] = per2[h]['playback']
        out = lastout
        missing = [h for h in hs if h not in per]
        if missing:
            tail = out[-1500:]
            kr.update(status='undecided', reason='harness not run (compile error or lost hook?): %s :: %s' % (missing, tail.replace('\n', ' | ')[-600:]))
            results.append(kr)
            continue
        status = 'verified'
        for h in hs:
            r = per[h]
            kr['harnesses'].append({'name': r['name'], 'checks': r['checks'], 'failed': r['failed'], 'status': r['status'],
                                    'covers': r['covers'], 'time_s': r['time_s']})
            kr['checks'] += r['checks']
            kr['checks_ok'] += r['checks'] - r['failed']
            if r['status'] == 'SUCCESSFUL':
                if r['covers'] and r['covers'][0] < r['covers'][1]:
                    status = 'undecided'
                    kr['reason'] = 'vacuity: cover property unsatisfied in %s' % h
                continue
            if r['status'] is None:
                status = 'undecided'
                kr['reason'] = 'no verdict for %s' % h
                continue
            real = [f for f in r['failed_checks'] if 'unwinding assertion' not in f['description']]
            if r['unwinding_failed'] and not real:
                status = 'undecided'
                kr['reason'] = 'unwinding bound too small in %s' % h
                continue
            if not real and not r['failed']:
                # FAILED without a single failed check: the back end died (out of memory, killed, internal error) -
                # a tool failure, never an alarm
                status = 'undecided'
                kr['reason'] = 'kani reported FAILED for %s without any failed check (back end killed / out of memory?)' % h
                continue
            if status != 'undecided':
                status = 'failed'
            for f in real or [{'description': 'verification failed', 'file': None, 'line': None, 'in': None}]:
                kr['failures'].append({'harness': h, 'description': f['description'], 'kind': 'kani-check',
                                       'clause': f['description'], 'where': ['%s:%s' % (f['file'], f['line'])],
                                       'source_line': f.get('in'), 'output': out[-3000:] if not r.get('playback') else None,
                                       'witness': ({'kind': 'kani-concrete-playback', 'harness': r['name'],
                                                    'unit_test': r['playback'],
                                                    'replay_cmd': 'cd /repo && CARGO_TARGET_DIR=%s cargo kani -Z concrete-playback --concrete-playback=print --harness %s' % (target, h)}
                                                   if r.get('playback') else None)})
        kr['status'] = status
        results.append(kr)
    if target != TARGET and not os.environ.get('VERIF_KEEP_KANI_SCRATCH'):
        import shutil
        shutil.rmtree(target, ignore_errors=True)
    return results
