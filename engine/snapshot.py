#!/usr/bin/env python3
"""Record, for every unit, the (normalised) text of each extracted item as it is NOW in /repo: the baseline on which the
unit's text anchors were written.  At check time an anchor is resolved on this baseline and carried over to the current
source through a line diff (engine/assemble.py locate()), so that an edit of an anchored line does not lose the anchor.
Run after authoring / updating units against a /repo state on which they verify:  python3 engine/snapshot.py [unit.vu ...]"""
import glob, os, sys
sys.path.insert(0, os.path.dirname(os.path.abspath(__file__)))
from assemble import assemble, UnitError
VERIF = os.path.dirname(os.path.dirname(os.path.abspath(__file__)))
units = sys.argv[1:] or sorted(glob.glob(os.path.join(VERIF, 'units', '*.vu')))
for u in units:
    d = os.path.join(VERIF, 'baseline', os.path.basename(u)[:-3])
    snaps = []
    try:
        # resolve against the current tree WITHOUT any old baseline
        if os.path.isdir(d):
            for f in glob.glob(os.path.join(d, '*.txt')):
                os.remove(f)
        assemble(u, '/repo', snapshots=snaps)
    except UnitError as e:
        print('SKIP', os.path.basename(u), e)
        continue
    os.makedirs(d, exist_ok=True)
    for n, text in snaps:
        open(os.path.join(d, '%03d.txt' % n), 'w', encoding='utf-8').write(text)
    print('snapshot', os.path.basename(u), len(snaps))
