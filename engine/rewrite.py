"""The closed list of syntactic normalisations applied to extracted text (DESIGN 4.2).

Every rule is generic (a regex or a balanced-argument macro rewrite), never keyed to a
particular function.  Each application is logged as (rule, original text, replacement) and
reported in the evidence file.  Anything Verus rejects that no rule covers makes the unit
*undecided* (exit 2) - never an alarm.

R1  drop auto-trait markers in `dyn` types (`+ Send`, `+ Sync`)
R2  path prefixes `std::io::`/`io::`, `bytes::`, `byteorder::`, `digest::`, `crate::...`
    -> the shim module of the same leaf name
R3  logging macros -> no-op
R4  error macros bail!/ensure!/ensure_eq!/format_err!/unsupported_err!/unimplemented_err!
    and io::Error::new/other(..) -> condition kept exactly, error value opaque
R5  debug_assert!(e) / debug_assert_eq!(a,b) -> assert(e) proof obligation
R7  strip attributes and doc comments
R8  (native) unreachable!/panic!/unwrap/expect are Verus obligations as they stand
R10 `b'x'` byte char literals and `b"..."` are kept (Verus accepts them)
"""
import re
from extract import code_mask, match_brace

LOG_MACROS = ('debug', 'warn', 'info', 'trace', 'error', 'log::debug', 'log::warn', 'log::info',
              'log::trace', 'log::error')


def _split_args(s):
    """split top-level comma separated args of a macro argument string"""
    mask = code_mask(s)
    out, depth, cur = [], 0, []
    for i, ch in enumerate(s):
        if mask[i]:
            if ch in '([{':
                depth += 1
            elif ch in ')]}':
                depth -= 1
            elif ch == ',' and depth == 0:
                out.append(''.join(cur))
                cur = []
                continue
        cur.append(ch)
    if ''.join(cur).strip():
        out.append(''.join(cur))
    return [a.strip() for a in out]


def _rewrite_macros(text, log):
    """R3 R4 R5: find `name!(` occurrences in code and rewrite with balanced args."""
    out = text
    pos = 0
    rx = re.compile(r'(?<![A-Za-z0-9_])((?:crate::errors::|crate::|log::)?[a-z_]+)!\s*\(')
    while True:
        mask = code_mask(out)
        m = None
        for mm in rx.finditer(out, pos):
            if mask[mm.start(1)]:
                m = mm
                break
        if not m:
            break
        name = m.group(1)
        short = name.split('::')[-1]
        op = m.end() - 1
        cl = match_brace(out, mask, op)
        args = out[op + 1:cl]
        # statement-level? (followed by ;)
        k = cl + 1
        rep = None
        if short in ('debug', 'warn', 'info', 'trace', 'error') and (name in LOG_MACROS):
            # drop whole statement incl. trailing ';' if present
            j = k
            while j < len(out) and out[j] in ' \t':
                j += 1
            if j < len(out) and out[j] == ';':
                k = j + 1
                rep = '{ }'
            else:
                rep = '()'
            log.append(('R3', out[m.start():k].strip()[:80], rep))
        elif short == 'bail':
            rep = 'return Err(crate::errors::Error::opaque())'
            log.append(('R4', 'bail!(..)', rep))
        elif short == 'ensure':
            a = _split_args(args)
            rep = 'if !(%s) { return Err(crate::errors::Error::opaque()); }' % a[0]
            j = k
            while j < len(out) and out[j] in ' \t':
                j += 1
            if j < len(out) and out[j] == ';':
                k = j + 1
            log.append(('R4', 'ensure!(%s, ..)' % a[0][:60], 'if !(cond) { return Err(opaque) }'))
        elif short == 'ensure_eq':
            a = _split_args(args)
            rep = 'if !((%s) == (%s)) { return Err(crate::errors::Error::opaque()); }' % (a[0], a[1])
            j = k
            while j < len(out) and out[j] in ' \t':
                j += 1
            if j < len(out) and out[j] == ';':
                k = j + 1
            log.append(('R4', 'ensure_eq!(%s, %s, ..)' % (a[0][:40], a[1][:40]), 'if !(a == b) { return Err(opaque) }'))
        elif short in ('format_err', 'unsupported_err', 'unimplemented_err'):
            if short == 'format_err':
                rep = 'crate::errors::Error::opaque()'
            else:
                rep = 'return Err(crate::errors::Error::opaque())'
            log.append(('R4', short + '!(..)', rep))
        elif short == 'debug_assert':
            a = _split_args(args)
            rep = 'assert(%s)' % a[0]
            log.append(('R5', 'debug_assert!(%s)' % a[0][:60], rep))
        elif short == 'debug_assert_eq':
            a = _split_args(args)
            rep = 'assert((%s) == (%s))' % (a[0], a[1])
            log.append(('R5', 'debug_assert_eq!(..)', rep))
        else:
            pos = m.end()
            continue
        rep = rep + '\n' * out[m.start():k].count('\n')  # keep line numbering
        out = out[:m.start()] + rep + out[k:]
        pos = m.start() + len(rep)
    return out


def strip_attrs_and_docs(text, log):
    """R7: remove `#[...]` attributes (balanced) and `///` doc comments.  Ordinary `//`
    comments are kept (they are not tokens)."""
    mask = code_mask(text)
    out = []
    i = 0
    n = len(text)
    removed = 0
    while i < n:
        if mask[i] and text[i] == '#' and i + 1 < n and text[i + 1] == '[':
            cl = match_brace(text, mask, i + 1)
            removed += 1
            i = cl + 1
            continue
        if text.startswith('///', i) and not mask[i]:
            j = text.find('\n', i)
            if j < 0:
                j = n
            i = j
            removed += 1
            continue
        out.append(text[i])
        i += 1
    if removed:
        log.append(('R7', '%d attributes/doc comments' % removed, ''))
    return ''.join(out)


PATH_RULES = [
    # (regex, replacement)  -- R2
    (r'\bstd::io::', 'io::'),
    (r'\bstd::borrow::Cow\b', 'Cow'),
    (r'\bstd::cmp::Ordering\b', 'Ordering'),
    (r'\bbytes::(BytesMut|Bytes|Buf|BufMut)\b', r'\1'),
    (r'\bdigest::DynDigest\b', 'DynDigest'),
    (r'\bu(16|32|64)::from_be_bytes\b', r'u\1_from_be_bytes'),
    (r'::std::cmp::min\b', 'std_cmp_min'),
    (r'\bstd::cmp::min\b', 'std_cmp_min'),
    (r'\bcmp::min\b', 'std_cmp_min'),
    (r'\bbyteorder::(BigEndian|LittleEndian|ReadBytesExt|WriteBytesExt)\b', r'\1'),
]


def _byte_strings(text, log):
    """R11: `b"..."` (a `&'static [u8; N]`) -> `&[b0, b1, ..]` array literal of the same type and
    value; Verus knows the length of a byte string literal but not its contents."""
    rx = re.compile(r'(?<![A-Za-z0-9_])b"((?:[^"\\]|\\.)*)"')
    mask_src = text

    def conv(m):
        body = m.group(1)
        out = []
        i = 0
        while i < len(body):
            c = body[i]
            if c == '\\':
                e = body[i + 1]
                if e == 'x':
                    out.append(int(body[i + 2:i + 4], 16))
                    i += 4
                    continue
                if e == '\n':  # line continuation: not supported
                    return m.group(0)
                out.append({'n': 10, 'r': 13, 't': 9, '\\': 92, '0': 0, '"': 34, "'": 39}[e])
                i += 2
                continue
            if ord(c) > 127:
                return m.group(0)
            out.append(ord(c))
            i += 1
        if len(out) > 64:
            return m.group(0)
        rep = '(&[' + ', '.join('%du8' % b for b in out) + '])'
        log.append(('R11', m.group(0), rep))
        return rep
    # only literals that start in code position
    res = []
    pos = 0
    for m in rx.finditer(text):
        # a `b"` inside a comment or string is not code: check that the char before is code-ish
        pre = text[:m.start()]
        line = pre[pre.rfind('\n') + 1:]
        if '//' in line:
            continue
        res.append(m)
    out = text
    for m in reversed(res):
        out = out[:m.start()] + conv(m) + out[m.end():]
    return out


def _io_errors(text, log):
    """R4 (io part): `io::Error::other(msg)` / `io::Error::new(kind, msg)` -> opaque shim
    constructors; the kind is kept, the message (possibly a format! call) is dropped."""
    rx = re.compile(r'\bio::Error::(other|new)\s*\(')
    pos = 0
    out = text
    while True:
        mask = code_mask(out)
        m = None
        for mm in rx.finditer(out, pos):
            if mask[mm.start()]:
                m = mm
                break
        if not m:
            return out
        op = m.end() - 1
        cl = match_brace(out, mask, op)
        args = _split_args(out[op + 1:cl])
        if m.group(1) == 'other':
            rep = 'io::Error::new_opaque()'
        else:
            rep = 'io::Error::new_kind(%s)' % args[0]
        rep += '\n' * out[m.start():cl + 1].count('\n')
        log.append(('R4', 'io::Error::%s(..)' % m.group(1), rep.strip()))
        out = out[:m.start()] + rep + out[cl + 1:]
        pos = m.start() + len(rep)


def apply(text, log, extra_subs=()):
    t = strip_attrs_and_docs(text, log)
    t = _byte_strings(t, log)
    # R1
    t2 = re.sub(r'\s*\+\s*(Send|Sync)\b(?=[^;{]*>)', '', t)
    if t2 != t:
        log.append(('R1', 'dyn T + Send/Sync', 'dyn T'))
    t = t2
    for rx, rep in PATH_RULES:
        t2 = re.sub(rx, rep, t)
        if t2 != t:
            log.append(('R2', rx, rep))
        t = t2
    t = _rewrite_macros(t, log)
    t = _io_errors(t, log)
    for (rx, rep, why) in extra_subs:
        def _keep_lines(mm, rep=rep):
            return mm.expand(rep) + '\n' * mm.group(0).count('\n')
        t2, n = re.subn(rx, _keep_lines, t)
        if n == 0:
            # A substitution only massages syntax Verus cannot take; if the text is gone (the code changed) there is
            # nothing to massage.  Not an error: an error here would turn a code change into "undecided".
            log.append(('Rsub-nomatch', rx, '(pattern not present in the current source)'))
            continue
        log.append(('Rsub', rx, rep + ('  # ' + why if why else '')))
        t = t2
    # R12: wildcard closure parameter `|_|` -> `|_e|` (Verus supports only variable patterns there)
    t2 = re.sub(r'\|\s*_\s*\|', '|_e|', t)
    if t2 != t:
        log.append(('R12', '|_|', '|_e|'))
    t = t2
    return t
