import json,sys
props={json.loads(l)['id']:json.loads(l) for l in open('/verif/properties.jsonl') if l.strip()}
pid=sys.argv[1]; n=sys.argv[2]
import glob,os
taken=[]
for d in sorted(glob.glob('/verif/seeded/%s_*'%pid)):
    try: taken.append(json.load(open(os.path.join(d,'meta.json'))).get('summary',''))
    except Exception: pass
taken_txt=''.join('\n  - '+t for t in taken if t)
p=props[pid]
print(f"""You are a software engineer asked to plant a subtle regression in a Rust library for a robustness study. The library is rpgp (crate `pgp`, an OpenPGP implementation). Your private copy is a git worktree at /tmp/seed_{pid}_{n} (create it with: git -C /repo worktree add /tmp/seed_{pid}_{n} HEAD). Work ONLY inside that directory; never touch /repo itself and never read anything under /verif. Build and test offline: always pass --offline to cargo, and use CARGO_TARGET_DIR=/tmp/seed_{pid}_{n}_target.

Here is a property that the library is supposed to satisfy:

  {pid} - {p['title']}
  {p['statement']}
  (quantified over: {p['quantifier']['text']})
  Code that is meant to make it hold: {json.dumps(p['anchors']['mechanism'])}

Your task: make ONE small change to the library source under src/ (a few lines, in the mechanism code listed above or code it directly relies on) that BREAKS this property, such that
  (1) the crate still compiles without new warnings being errors,
  (2) the existing test suite still passes completely: `cargo test --workspace --no-fail-fast --offline` (takes ~3-4 minutes; run it),
  (3) the breakage needs something specific to manifest - a particular interleaving or short-read schedule, a fault at a particular point, a multi-step sequence of operations, an unusual input (a boundary length, a rare byte pattern, an uncommon algorithm/version combination), or two cooperating sites that each look fine alone - NOT something ordinary use would expose at once,
  (4) it looks like a plausible mistake or 'optimisation' a developer could make (off-by-one at a boundary, a state bit not carried, a check applied on one path only, an error turned into a clean end, a length computed from the wrong field ...), not sabotage like `return Ok(())` at the top of a function.

Then write a demonstration: a Rust integration test file tests/seed_demo.rs (public API only) that FAILS with your change and PASSES on the unchanged code. Verify both: run it with your change (`cargo test --offline --test seed_demo`), then save your change with `git diff -- src > /tmp/seed_{pid}_{n}.patch`, un-apply it with `git apply -R /tmp/seed_{pid}_{n}.patch`, run the demo again (must pass), and re-apply it with `git apply /tmp/seed_{pid}_{n}.patch` (do NOT use `git stash`: it is shared between worktrees and other engineers work in sibling worktrees).

Deliver, in the directory /tmp/seed_out/{pid}_{n}/ (create it): 
  patch.diff      - `git diff -- src` of your change only (must apply to /repo HEAD with `git apply`)
  seed_demo.rs    - the demonstration test
  meta.json       - {{"property": "{pid}", "summary": "<one sentence: what was changed>", "needs": "<what specific input/schedule/sequence is needed for it to manifest>", "files": ["src/..."], "suite": "<passed/failed counts of the full suite with the change>", "demo_with_change": "fails: <assertion message>", "demo_without_change": "passes"}}
Finally remove your worktree and target dir: `git -C /repo worktree remove --force /tmp/seed_{pid}_{n}; rm -rf /tmp/seed_{pid}_{n}_target`.
If after honest effort you cannot find a change that passes the existing suite, say so and deliver what you have with "suite" explaining which existing test catches it.
Pick something different from the obvious first idea: this is variant #{n} and other engineers are working on other variants of the same property; prefer a different function/mechanism than the first one listed if #{n} > 1.
Changes other engineers already made for this property (do NOT repeat these or a close cousin in the same function; pick a different mechanism/site):{taken_txt if taken_txt else ' none'}
Final message: the content of meta.json plus the diff.""")
