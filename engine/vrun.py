"""Run Verus on an assembled unit, classify diagnostics, run the vacuity twin."""
import json
import os
import re
import subprocess
import time
import hashlib

from assemble import assemble, UnitError

VERIF = os.path.dirname(os.path.dirname(os.path.abspath(__file__)))
WORK = os.path.join(VERIF, '.work')

SEMANTIC = [
    ('postcondition not satisfied', 'post'),
    ('precondition not satisfied', 'pre'),
    ('assertion failed', 'assert'),
    ('invariant not satisfied at end of loop body', 'inv-end'),
    ('invariant not satisfied before loop', 'inv-entry'),
    ('loop invariant not satisfied', 'inv-break'),
    ('precondition not met', 'pre'),
    ('unable to prove post-condition of closure', 'post'),
    ('unable to prove assertion', 'assert'),
    ('possible arithmetic underflow/overflow', 'arith'),
    ('possible division by zero', 'div0'),
    ('decreases not satisfied', 'term'),
    ('possible bit shift underflow/overflow', 'shift'),
    ('recommendation not met', None),
    ('index out of bounds', 'bounds'),
    ('unreachable', 'unreach'),
    ('could not prove termination', 'term'),
]
UNDECIDED_PAT = ['Resource limit', 'rlimit', 'timed out', 'solver']


def classify(msg):
    for pat, kind in SEMANTIC:
        if pat in msg:
            return kind
    return None


def run_verus(path, rlimit, multiple_errors=8, timeout=900, extra=()):
    cmd = ['verus', path, '--output-json', '--time-expanded', '--error-format=json',
           '--multiple-errors', str(multiple_errors), '--rlimit', str(rlimit), '--no-report-long-running'] + list(extra)
    t0 = time.time()
    try:
        p = subprocess.run(cmd, stdout=subprocess.PIPE, stderr=subprocess.PIPE, timeout=timeout, text=True,
                           cwd=os.path.dirname(path))
        out, err, rc = p.stdout, p.stderr, p.returncode
    except subprocess.TimeoutExpired as e:
        return {'cmd': ' '.join(cmd), 'timeout': True, 'wall_s': time.time() - t0, 'diags': [], 'summary': None,
                'raw_err': 'timeout after %ds' % timeout, 'rc': -1}
    wall = time.time() - t0
    summary = None
    try:
        summary = json.loads(out)
    except Exception:
        # verus may print non-json noise before the json object
        i = out.find('{')
        try:
            summary = json.loads(out[i:]) if i >= 0 else None
        except Exception:
            summary = None
    diags = []
    for line in err.split('\n'):
        line = line.strip()
        if not line.startswith('{'):
            continue
        try:
            d = json.loads(line)
        except Exception:
            continue
        if d.get('$message_type') != 'diagnostic':
            continue
        diags.append(d)
    return {'cmd': ' '.join(cmd), 'timeout': False, 'wall_s': wall, 'diags': diags, 'summary': summary,
            'raw_err': err, 'rc': rc}


def _enclosing_fn(origin, ln):
    """walk back from line ln (0-based) to find the extracted fn or template item"""
    if 0 <= ln < len(origin):
        o = origin[ln]
        if 'fn' in o:
            return o['fn']
    return None


def _nearest_template_item(lines, ln):
    rx = re.compile(r'\b(?:proof\s+fn|spec\s+fn|fn)\s+([A-Za-z0-9_]+)')
    for k in range(ln, -1, -1):
        m = rx.search(lines[k])
        if m:
            return m.group(1)
    return '?'


def describe(diag, lines, origin, fname=None):
    """turn a verus error diagnostic into a named obligation"""
    msg = diag['message']
    kind = classify(msg)
    spans = [s for s in diag.get('spans', []) if fname is None or os.path.basename(s.get('file_name', '')) == fname]
    prim = [s for s in spans if s.get('is_primary')] or spans
    where = []
    fn = None
    clause = None
    for s in prim + [s for s in spans if s not in prim]:
        ln = s['line_start'] - 1
        if not (0 <= ln < len(origin)):
            continue
        o = origin[ln]
        if o['kind'] == 'code':
            where.append('%s:%d' % (o['file'], o['line']))
            fn = fn or o.get('fn')
        elif o['kind'] == 'ghost':
            fn = fn or o.get('fn')
            clause = clause or o.get('text')
            where.append('contract@unit:%d' % o.get('unit_line', 0))
        elif o['kind'] == 'include':
            where.append('%s:%d' % (o['file'], o['line']))
            fn = fn or _nearest_template_item(lines, ln)
            clause = clause or lines[ln].strip()
        else:
            where.append('unit:%d' % o.get('unit_line', 0))
            fn = fn or _nearest_template_item(lines, ln)
            clause = clause or lines[ln].strip()
    # the labelled secondary span usually points at the failed clause
    for s in spans:
        if s.get('label') and ('failed' in s['label']):
            ln = s['line_start'] - 1
            if 0 <= ln < len(lines):
                clause = lines[ln].strip()
    src = None
    if prim:
        ln = prim[0]['line_start'] - 1
        if 0 <= ln < len(lines):
            src = lines[ln].strip()
    return {'kind': kind, 'message': msg, 'fn': fn or '?', 'clause': clause, 'source_line': src, 'where': where,
            'rendered': diag.get('rendered', '')[:4000]}


CACHE = os.path.join(VERIF, '.cache', 'verus')


def verify_unit(unit_path, repo, tier='quick', twin=True):
    """returns result dict:
       status: 'verified' | 'failed' | 'undecided'

    The unit is re-extracted and re-assembled from `repo` on EVERY call.  Only the solver run is memoised, keyed by
    the sha256 of the assembled text (+ twin text, flags, verus version): the same text gives the same verdict, and
    several properties share units.  Quick tier only; VERIF_NOCACHE=1 disables it; thorough never uses it.
    """
    res = _verify_unit(unit_path, repo, tier, twin, probe_only=True)
    if res is not None:
        return res
    return _verify_unit(unit_path, repo, tier, twin, probe_only=False)


def _verify_unit(unit_path, repo, tier, twin, probe_only):
    os.makedirs(WORK, exist_ok=True)
    use_cache = tier == 'quick' and not os.environ.get('VERIF_NOCACHE') and twin
    if probe_only:
        if not use_cache:
            return None
        try:
            text, origin, meta = assemble(unit_path, repo, twin=False)
            ttext, _, _ = assemble(unit_path, repo, twin=True)
        except UnitError:
            return None
        key = hashlib.sha256((text + '\0' + ttext + '\0' + str(meta.get('rlimit')) + str(meta.get('nolifetime')) + 'v0.2026.09.13').encode()).hexdigest()
        cp = os.path.join(CACHE, key + '.json')
        if os.path.exists(cp):
            try:
                r = json.load(open(cp))
                r['cached'] = True
                r['unit_path'] = unit_path
                return r
            except Exception:
                return None
        return None
    res = {'unit_path': unit_path, 'status': None, 'failures': [], 'undecided_reason': None}
    t0 = time.time()
    try:
        text, origin, meta = assemble(unit_path, repo, twin=False)
    except UnitError as e:
        res.update(status='undecided', undecided_reason='assemble: %s' % e, meta=None, wall_s=time.time() - t0)
        return res
    res['meta'] = meta
    # mechanical scan for unchecked assumptions (Yang et al.): assume/admit are forbidden everywhere;
    # external_body / assume_specification are counted by where they come from
    scan = {'assume': 0, 'admit': 0, 'external_body_in_shims': 0, 'external_body_in_unit': 0, 'assume_specification': 0,
            'uninterp_spec_fn': 0, 'axiom_or_broadcast': 0}
    for ln, og in zip(text.split('\n'), origin):
        code = ln.split('//')[0]
        if re.search(r'\bassume\s*\(', code):
            scan['assume'] += 1
        if re.search(r'\badmit\s*\(', code):
            scan['admit'] += 1
        if 'external_body' in code or 'external_fn_specification' in code:
            scan['external_body_in_shims' if og['kind'] == 'include' else 'external_body_in_unit'] += 1
        if 'assume_specification' in code:
            scan['assume_specification'] += 1
        if re.search(r'\buninterp\s+spec\s+fn', code):
            scan['uninterp_spec_fn'] += 1
        if re.search(r'\b(axiom|broadcast)\b', code):
            scan['axiom_or_broadcast'] += 1
    res['assumption_scan'] = scan
    if scan['assume'] or scan['admit']:
        res.update(status='undecided', undecided_reason='unit contains assume()/admit(): %s' % scan, wall_s=time.time() - t0)
        return res
    uid = meta['id'] or os.path.basename(unit_path)
    res['unit'] = uid
    path = os.path.join(WORK, os.path.basename(unit_path).replace('.vu', '') + '.rs')
    open(path, 'w').write(text)
    res['assembled'] = path
    res['sha256'] = hashlib.sha256(text.encode()).hexdigest()
    rlimit = meta['rlimit'] or 30
    if tier == 'thorough':
        rlimit *= 4
    extra = ['--no-lifetime'] if meta.get('nolifetime') else []
    r = run_verus(path, rlimit, extra=extra)
    res['cmd'] = r['cmd']
    res['verus_wall_s'] = r['wall_s']
    lines = text.split('\n')
    errs = [d for d in r['diags'] if d['level'] == 'error' and not d['message'].startswith('aborting due to')]
    summ = r['summary'] or {}
    vr = summ.get('verification-results', {})
    res['verified_fns'] = vr.get('verified', 0)
    res['error_fns'] = vr.get('errors', 0)
    fb = []
    try:
        for mod in summ['times-ms']['smt']['smt-run-module-times']:
            for f in mod.get('function-breakdown', []):
                fb.append({'function': f['function'], 'ms': f['time'], 'success': f['success'], 'rlimit': f.get('rlimit')})
    except Exception:
        pass
    res['function_breakdown'] = fb
    try:
        res['smt_ms'] = summ['times-ms']['smt']['total']
    except Exception:
        res['smt_ms'] = None
    if r['timeout']:
        res.update(status='undecided', undecided_reason='verus timeout')
    elif r['summary'] is None or vr.get('encountered-vir-error') or (not vr and errs) or \
            (errs and all(classify(d['message']) is None for d in errs) and not vr.get('success')):
        # front-end / type error / unsupported construct
        msg = '; '.join(d['message'][:200] for d in errs[:3]) or r['raw_err'][-600:]
        res.update(status='undecided', undecided_reason='verus front end: %s' % msg)
    else:
        fails = []
        und = []
        for d in errs:
            k = classify(d['message'])
            if k is None:
                if any(p in d['message'] for p in UNDECIDED_PAT):
                    und.append(d['message'][:200])
                else:
                    und.append('unclassified: ' + d['message'][:200])
                continue
            fails.append(describe(d, lines, origin, os.path.basename(path)))
        res['failures'] = fails
        if fails:
            res['status'] = 'failed'
        elif und or not vr.get('success'):
            res.update(status='undecided', undecided_reason='; '.join(und) or 'verus reported failure without diagnostics')
        else:
            res['status'] = 'verified'
    # vacuity twin: assert(false) at entry of every extracted fn and at every probe must FAIL
    res['twin'] = None
    if twin and res['status'] == 'verified':
        try:
            ttext, torigin, tmeta = assemble(unit_path, repo, twin=True)
            tpath = path.replace('.rs', '_twin.rs')
            open(tpath, 'w').write(ttext)
            tlines = ttext.split('\n')
            probe_lines = [k + 1 for k, l in enumerate(tlines) if 'VACUITY-PROBE' in l]

            def twin_run(rl):
                tr_ = run_verus(tpath, rl, multiple_errors=64, extra=extra, timeout=(600 if rl > rlimit else 900))
                failed_, rl_hit = set(), False
                for d in tr_['diags']:
                    if d['level'] == 'error' and 'assertion failed' in d['message']:
                        for s in d['spans']:
                            if os.path.basename(s.get('file_name', '')) == os.path.basename(tpath):
                                failed_.add(s['line_start'])
                    if d['level'] == 'error' and ('Resource limit' in d['message'] or 'rlimit' in d['message']):
                        rl_hit = True
                return tr_, failed_, rl_hit
            tr, failed_lines, rl_hit = twin_run(rlimit)
            # quick tier: a probe the solver could neither prove nor refute within the unit's rlimit is reported as
            # inconclusive_rlimit (the context was NOT found contradictory within the budget); thorough tier: retry at 6x
            if rl_hit and tier != 'quick' and any(k not in failed_lines for k in probe_lines):
                tr2, failed2, rl_hit2 = twin_run(rlimit * 6)
                failed_lines |= failed2
                tr = tr2
                # a probe that no run refuted stays INCONCLUSIVE as long as one of the runs ran out of resources or did not
                # finish (the retry may be cut short by the time limit and then reports nothing at all)
                rl_hit = True
            vac = [tlines[k - 1].strip() + ' @%d' % k for k in probe_lines if k not in failed_lines]
            inconclusive = []
            if rl_hit and vac:
                # the solver ran out of resources on a function of the twin: its probes are neither refuted nor verified
                inconclusive, vac = vac, []
            res['twin'] = {'probes': len(probe_lines), 'refuted': len(probe_lines) - len(vac) - len(inconclusive), 'vacuous': vac,
                           'inconclusive_rlimit': inconclusive, 'wall_s': tr['wall_s']}
            if vac:
                res.update(status='undecided', undecided_reason='vacuity: probe(s) verified: %s' % vac[:3])
        except UnitError as e:
            res.update(status='undecided', undecided_reason='twin assemble: %s' % e)
    res['wall_s'] = time.time() - t0
    if use_cache and res.get('status') in ('verified', 'failed') and res.get('sha256'):
        try:
            ttext, _, _ = assemble(unit_path, repo, twin=True)
            key = hashlib.sha256((text + '\0' + ttext + '\0' + str(meta.get('rlimit')) + str(meta.get('nolifetime')) + 'v0.2026.09.13').encode()).hexdigest()
            os.makedirs(CACHE, exist_ok=True)
            json.dump(res, open(os.path.join(CACHE, key + '.json'), 'w'))
        except Exception:
            pass
    return res


if __name__ == '__main__':
    import sys
    r = verify_unit(sys.argv[1], sys.argv[2] if len(sys.argv) > 2 else '/repo', twin='--no-twin' not in sys.argv)
    print(json.dumps({k: v for k, v in r.items() if k not in ('meta', 'function_breakdown')}, indent=1))
