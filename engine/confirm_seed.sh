#!/bin/sh
# usage: confirm_seed.sh <seed_dir with patch.diff + seed_demo.rs> <name>
# confirms in a scratch worktree of /repo HEAD: patch applies, builds, demo FAILS with it and PASSES without it,
# and the existing suite passes with it.  Writes <seed_dir>/confirm.log
D=$1; N=$2; WT=/tmp/cf_$N; TG=/tmp/cf_target
LOG=$D/confirm.log; : > $LOG
git -C /repo worktree remove --force $WT >/dev/null 2>&1
git -C /repo worktree add -q $WT HEAD >> $LOG 2>&1 || { echo "WORKTREE FAIL" >> $LOG; exit 1; }
cd $WT
cp $D/seed_demo.rs tests/seed_demo.rs
echo "== demo WITHOUT patch" >> $LOG
CARGO_TARGET_DIR=$TG cargo test --offline --test seed_demo >> $LOG 2>&1; echo "rc_without=$?" >> $LOG
git apply $D/patch.diff >> $LOG 2>&1 || { echo "PATCH DOES NOT APPLY" >> $LOG; git -C /repo worktree remove --force $WT; exit 1; }
echo "== demo WITH patch" >> $LOG
CARGO_TARGET_DIR=$TG cargo test --offline --test seed_demo >> $LOG 2>&1; echo "rc_with=$?" >> $LOG
echo "== full suite WITH patch" >> $LOG
rm tests/seed_demo.rs
CARGO_TARGET_DIR=$TG cargo test --workspace --no-fail-fast --offline 2>&1 | grep -E "^test result|FAILED|failed|^error" >> $LOG; 
cd /; git -C /repo worktree remove --force $WT
grep -E "rc_without|rc_with|PATCH" $LOG; sed -n "/== full suite/,\$p" $LOG | grep "^test result" | awk '{p+=$4; f+=$6} END {print "suite passed",p,"failed",f}'
