// ---------------------------------------------------------------------------------
// shims/secret_kdf.rs - what the S2K key-derivation unit (U12) assumes about code that is not
// its subject: the argon2 crate (0.5), zeroize::Zeroizing, u32::pow, the one f32 expression of
// derive_key, the slice-length rule.  Include after shims/io.rs inside verus!{}.
// ---------------------------------------------------------------------------------
use vstd::arithmetic::power::pow as kdf_pow;

//@trusted T3 argon2 0.5: Params::new(m,t,p,Some(len)) = Ok(P) stores exactly these four numbers and implies m >= 8, m >= 8*p, t >= 1, 1 <= p <= 0xFFFFFF, len >= 4 (crate source, params.rs); Argon2::new stores its arguments; hash_password_into(pwd, salt, out) = Ok fills out with the RFC 9106 tag argon2_tag(type, version, m KiB, t, p, pwd, salt, |out|) (an uninterpreted function here)
pub mod argon2 {
    use super::*;
    pub enum Algorithm { Argon2d, Argon2i, Argon2id }
    pub enum Version { V0x10, V0x13 }
    pub struct Error { pub k: u8 }
    pub struct Params { pub m_cost: u32, pub t_cost: u32, pub p_cost: u32, pub output_len: Option<usize> }
    impl Params {
        #[verifier::external_body]
        pub fn new(m_cost: u32, t_cost: u32, p_cost: u32, output_len: Option<usize>) -> (r: core::result::Result<Params, Error>)
            ensures match r {
                Ok(pp) => pp.m_cost == m_cost && pp.t_cost == t_cost && pp.p_cost == p_cost && pp.output_len == output_len
                    && m_cost >= 8 && m_cost >= 8 * p_cost && t_cost >= 1 && 1 <= p_cost <= 0xFFFFFF
                    && (output_len matches Some(l) ==> l >= 4),
                Err(_) => true }
        { unimplemented!() }
    }
    pub struct Argon2 { pub alg: Algorithm, pub ver: Version, pub params: Params }
    pub uninterp spec fn argon2_tag(alg: Algorithm, ver: Version, m_kib: u32, t: u32, p: u32, pwd: Seq<u8>, salt: Seq<u8>, len: nat) -> Seq<u8>;
    impl Argon2 {
        pub fn new(alg: Algorithm, ver: Version, params: Params) -> (r: Argon2)
            ensures r.alg == alg, r.ver == ver, r.params == params
        { Argon2 { alg, ver, params } }
        #[verifier::external_body]
        pub fn hash_password_into(&self, pwd: &[u8], salt: &[u8], out: &mut [u8]) -> (r: core::result::Result<(), Error>)
            ensures final(out)@.len() == old(out)@.len(),
                r is Ok ==> final(out)@ == argon2_tag(self.alg, self.ver, self.params.m_cost, self.params.t_cost, self.params.p_cost, pwd@, salt@, old(out)@.len()),
                r is Ok ==> self.params.output_len == Some(old(out)@.len() as usize)
        { unimplemented!() }
    }
}
impl core::convert::From<argon2::Error> for errors::Error {
    #[verifier::external_body]
    fn from(e: argon2::Error) -> (r: errors::Error) { unimplemented!() }
}

//@trusted T2 zeroize::Zeroizing<T> is a transparent wrapper: new stores, Deref/DerefMut expose the wrapped value
pub struct Zeroizing<T> { pub v: T }
impl<T> Zeroizing<T> {
    pub fn new(v: T) -> (r: Self) ensures r.v == v { Zeroizing { v } }
}
impl<T> core::ops::Deref for Zeroizing<T> {
    type Target = T;
    fn deref(&self) -> (r: &T) ensures *r == self.v { &self.v }
}
impl<T> core::ops::DerefMut for Zeroizing<T> {
    #[verifier::external_body]
    fn deref_mut(&mut self) -> (r: &mut T) ensures *r == old(self).v, final(self).v == *final(r) { &mut self.v }
}

//@trusted T2 u32::pow(b, e) is b^e and panics (debug) / wraps (release) on overflow: modelled as a precondition
pub assume_specification[u32::pow](b: u32, e: u32) -> (r: u32)
    requires kdf_pow(b as int, e as nat) <= u32::MAX
    ensures r == kdf_pow(b as int, e as nat);

/// ceil(log2(p)) for 1 <= p <= 255; 0 for p == 0 (f32: log2(0) = -inf, ceil = -inf, `as u8` saturates to 0)
pub open spec fn spec_ceil_log2(p: u8) -> u8 {
    if p <= 1 { 0 } else if p <= 2 { 1 } else if p <= 4 { 2 } else if p <= 8 { 3 } else if p <= 16 { 4 }
    else if p <= 32 { 5 } else if p <= 64 { 6 } else if p <= 128 { 7 } else { 8 }
}
//@trusted T2 IEEE-754: for an octet p, `(p as f32).log2().ceil() as u8` is ceil(log2 p) (every octet and its log2 ceiling are exactly representable; log2 of a power of two is exact in the std implementation), 0 for p == 0
#[verifier::external_body]
pub fn f32_log2_ceil_as_u8(p: u8) -> (r: u8) ensures r == spec_ceil_log2(p) { (p as f32).log2().ceil() as u8 }

//@trusted T2 a slice is never longer than isize::MAX bytes (Rust reference, slice layout)
#[verifier::external_body]
pub proof fn axiom_slice_len(s: &[u8])
    ensures s@.len() <= isize::MAX
{}

//@trusted T3 crypto::hash: HashAlgorithm::digest_size() is Some(output length) for the nine supported algorithms, None otherwise; new_hasher() is Ok(empty hasher of that algorithm) or Err; the hasher is a ghost byte accumulator (update appends) and finalize() returns hash_fn(alg, everything fed), an uninterpreted function whose output has digest_size octets.  (Include after shims/secret_algos.rs.)
pub open spec fn spec_digest_size(h: HashAlgorithm) -> nat {
    match h {
        HashAlgorithm::Md5 => 16, HashAlgorithm::Sha1 => 20, HashAlgorithm::Ripemd160 => 20, HashAlgorithm::Sha256 => 32,
        HashAlgorithm::Sha384 => 48, HashAlgorithm::Sha512 => 64, HashAlgorithm::Sha224 => 28, HashAlgorithm::Sha3_256 => 32,
        HashAlgorithm::Sha3_512 => 64, _ => 0,
    }
}
pub uninterp spec fn hash_fn(alg: HashAlgorithm, data: Seq<u8>) -> Seq<u8>;
#[verifier::external_body]
pub struct S2kHasher { h: u8 }
impl S2kHasher {
    pub uninterp spec fn view(&self) -> Seq<u8>;
    pub uninterp spec fn halg(&self) -> HashAlgorithm;
    #[verifier::external_body]
    pub fn update(&mut self, data: &[u8])
        ensures final(self).view() == old(self).view() + data@, final(self).halg() == old(self).halg()
    { unimplemented!() }
    #[verifier::external_body]
    pub fn finalize(self) -> (r: Vec<u8>)
        ensures r@ == hash_fn(self.halg(), self.view()), r@.len() == spec_digest_size(self.halg())
    { unimplemented!() }
}
impl HashAlgorithm {
    #[verifier::external_body]
    pub fn digest_size(self) -> (r: Option<usize>)
        ensures match r { Some(n) => n == spec_digest_size(self) && n > 0, None => spec_digest_size(self) == 0 }
    { unimplemented!() }
    #[verifier::external_body]
    pub fn new_hasher(self) -> (r: core::result::Result<S2kHasher, errors::Error>)
        ensures match r { Ok(h) => h.view() == Seq::<u8>::empty() && h.halg() == self && spec_digest_size(self) > 0, Err(_) => true }
    { unimplemented!() }
}

//@trusted T2 `&mut v[a..b]` on a Vec<u8> is the mutable sub-slice a..b; it panics unless a <= b <= v.len() (modelled as a precondition); writing through it updates exactly those positions (Verus 0.2026.09 specifies range IndexMut for slices but not for Vec)
#[verifier::external_body]
pub fn vec_range_mut(v: &mut Vec<u8>, a: usize, b: usize) -> (s: &mut [u8])
    requires a <= b <= old(v)@.len()
    ensures s@ == old(v)@.subrange(a as int, b as int),
            final(v)@ == old(v)@.subrange(0, a as int) + final(s)@ + old(v)@.skip(b as int)
{ &mut v[a..b] }
