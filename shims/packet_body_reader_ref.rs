// ---------------------------------------------------------------------------------
// shims/packet_body_reader_ref.rs - PacketBodyReader at the instance R := &'a mut R0, the one
// src/packet/many.rs builds (`PacketBodyReader::new(header, &mut self.reader)`), as *assumed* contracts
// for units whose subject merely uses the reader (U45 Packet::from_reader, U46 PacketParser).
//
// The struct / enums are NOT modelled here: the units extract `struct PacketBodyReader`, `enum State`,
// `enum LimitedReader` verbatim (so that Verus sees where the borrowed reader lives and resolves the
// borrow when the body reader is dropped); lemmas/packet_body_view.rs gives their abstract view.
// Include after lemmas/packet_body_view.rs, lemmas/tags.rs and a model of PacketHeader with the
// accessor specs length() / ptag().
// ---------------------------------------------------------------------------------
//@trusted T4 PacketBodyReader::{new, read} at R := &mut R0: every clause not marked "instance" is copied from the ensures PROVED for every R: BufRead on the real code in units/U07_packet_body_reader.vu.  The clauses marked "instance" say what a generic contract cannot express: new keeps the very reference it is given (on Err it drops it untouched: new reads nothing), and read never re-seats it (the code only calls Read/BufRead methods through it) - so the borrowed reader ends up where the body reader's source stands
impl<'a, R0: io::BufRead> PacketBodyReader<&'a mut R0> {
    /// the value the borrowed reader R0 has when the borrow ends (None: the reader was dropped in an error path)
    #[verifier::prophetic]
    pub closed spec fn src_fut(&self) -> Option<R0> {
        match self.source() { Some(r) => Some(mut_ref_future(r)), None => None }
    }

    #[verifier::external_body]
    pub fn new(packet_header: PacketHeader, source: &'a mut R0) -> (r: io::Result<PacketBodyReader<&'a mut R0>>)
        ensures match r {
            // legal first length: always accepted, and the reader stands at the start of deframe(first_len, source)
            Ok(p) => first_len_legal(tag_id(packet_header.ptag()), packet_header.length())
                && p.header() == packet_header && p.inv() && !p.is_done_state() && !p.is_error_state() && p.buffered_len() == 0
                && p.framing() == body_framing(Seq::<u8>::empty(), chunk_of(packet_header.length()), old(source).rest())
                && p.deliverable() == avail_c(chunk_of(packet_header.length()), old(source).rest())
                // instance
                && p.src_fut() == Some(*final(source)),
            // C17: partial lengths on non-data packets and a first chunk under 512 octets are rejected (and nothing else is)
            Err(_) => !first_len_legal(tag_id(packet_header.ptag()), packet_header.length())
                // instance
                && *final(source) == *old(source) }
    { unimplemented!() }
}

impl<'a, R0: io::BufRead> io::Read for PacketBodyReader<&'a mut R0> {
    closed spec fn rest(&self) -> Seq<u8> { self.state.deliverable() }
    #[verifier::external_body]
    fn read(&mut self, buf: &mut [u8]) -> (r: io::Result<usize>)
        ensures
            final(self).header() == old(self).header(),
            old(self).inv() ==> final(self).inv(),
            match r {
                // n body octets were handed out; whether the rest is a complete body, and where the packet ends, is unchanged
                Ok(n) => final(self).framing() == framing_skip(old(self).framing(), n as nat)
                    && !final(self).is_error_state()
                    // a clean end of stream is reported only in state Done (never for a body that is shorter than announced)
                    && (n == 0 && old(buf)@.len() > 0 ==> final(self).is_done_state())
                    // instance
                    && final(self).src_fut() == old(self).src_fut(),
                // source errors and framing faults are sticky
                Err(_) => final(self).is_error_state(),
            }
    { unimplemented!() }
}
