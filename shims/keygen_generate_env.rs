// ---------------------------------------------------------------------------------
// shims/keygen_generate_env.rs - what unit U95d (SecretKeyParams::generate, RawSecretKey::sign, PubKeyInner::new,
// set_password_with_s2k) assumes about code that is not its subject.  Include after shims/keygen_users.rs and after the
// extraction of the REAL KeyType / EncryptionCaps / PubKeyInner, inside verus!{}.
// ---------------------------------------------------------------------------------

// ---- key material ---------------------------------------------------------------------------------------------
//@trusted T7 PublicParams / EcdhPublicParams (types/params/public.rs:55, public/ecdh.rs:62) are re-declared with all their variants (feature-on text: the draft-pqc ones included) and opaque payloads; PlainSecretParams / EncryptedSecretParams are opaque values, SecretParams (types/params/secret.rs:18) is re-declared verbatim
#[verifier::external_body] pub struct Opaque { v: u8 }
pub enum EcdhPublicParams {
    Curve25519Legacy { p: Opaque }, P256 { p: Opaque }, P384 { p: Opaque }, P521 { p: Opaque },
    Brainpool256 { p: Opaque }, Brainpool384 { p: Opaque }, Brainpool512 { p: Opaque }, Unsupported { p: Opaque },
}
pub enum PublicParams {
    RSA(Opaque), DSA(Opaque), ECDSA(Opaque), ECDH(EcdhPublicParams), Elgamal(Opaque), EdDSALegacy(Opaque), Ed25519(Opaque), X25519(Opaque),
    X448(Opaque), Ed448(Opaque),
    MlKem768X25519(Opaque), MlKem1024X448(Opaque), MlDsa65Ed25519(Opaque), MlDsa87Ed448(Opaque), SlhDsaShake128s(Opaque), SlhDsaShake128f(Opaque), SlhDsaShake256s(Opaque),
    Unknown { data: Opaque },
}
#[verifier::external_body] pub struct PlainSecretParams { v: u8 }
#[verifier::external_body] pub struct EncryptedSecretParams { v: u8 }
pub enum SecretParams { Plain(PlainSecretParams), Encrypted(EncryptedSecretParams) }
#[verifier::external_body] #[verifier::reject_recursive_types(T)] pub struct Zeroizing<T> { v: T }

/// `pp` / `plain` are the two halves of ONE key pair of type `kt` (the public parameters are derived from that very secret)
pub uninterp spec fn key_pair(kt: KeyType, pp: PublicParams, plain: PlainSecretParams) -> bool;
/// `e` is `plain` locked with the passphrase octets `pw` under the S2K parameters `s2k` (U16: unlock(pw) gives plain back)
pub uninterp spec fn locked_from(e: EncryptedSecretParams, plain: PlainSecretParams, pw: Seq<u8>, s2k: S2kParams) -> bool;
//@trusted T4 KeyType::generate (builder.rs:522) under the contract PROVED in U95e (generated_pair: UNLOCKED secret material of the key type's algorithm / curve / mode together with the public parameters derived from that very secret key), abstracted here as key_pair(kt, pp, plain) plus the variant facts PubKeyInner::new looks at: public parameters of the key type's family (U95e), and - assumed, ecdh.rs:119 - ECDH public parameters are the Curve25519Legacy variant exactly for the curve Curve25519Legacy
impl KeyType {
    #[verifier::external_body]
    pub fn generate<R: Rng + CryptoRng>(&self, rng: R) -> (r: errors::Result<(PublicParams, SecretParams)>)
        ensures r matches Ok((pp, sp)) ==> sp is Plain && key_pair(*self, pp, sp->Plain_0)
            && (*self is Ed25519Legacy) == (pp is EdDSALegacy)
            && (*self matches KeyType::ECDH(ECCCurve::Curve25519Legacy)) == (pp matches PublicParams::ECDH(EcdhPublicParams::Curve25519Legacy { .. }))
            && (pp is MlKem768X25519) == (*self is MlKem768X25519) && (pp is MlKem1024X448) == (*self is MlKem1024X448)
            && (pp is MlDsa65Ed25519) == (*self is MlDsa65Ed25519) && (pp is MlDsa87Ed448) == (*self is MlDsa87Ed448)
            && (pp is SlhDsaShake128s) == (*self is SlhDsaShake128s) && (pp is SlhDsaShake128f) == (*self is SlhDsaShake128f) && (pp is SlhDsaShake256s) == (*self is SlhDsaShake256s)
    { unimplemented!() }
}
//@trusted T4 PlainSecretParams::encrypt (plain_secret.rs:314; PROVED in U16: what it produces unlocks to the same material with the same passphrase) = Ok(e): locked_from(e, self, passphrase, s2k); Password::read() are the passphrase octets; Password::empty() is the empty passphrase; From<String> / From<&str> for Password keep the text's octets; clone() of secret material is the same material
impl PlainSecretParams {
    #[verifier::external_body]
    pub fn encrypt<K: types::KeyDetails + Serialize>(&self, passphrase: &Zeroizing<Vec<u8>>, s2k_params: S2kParams, pub_key: &K, secret_tag: Option<Tag>) -> (r: errors::Result<EncryptedSecretParams>)
        ensures r matches Ok(e) ==> locked_from(e, *self, zeroizing_view(*passphrase), s2k_params)
    { unimplemented!() }
}
impl Clone for PlainSecretParams {
    #[verifier::external_body]
    fn clone(&self) -> (r: PlainSecretParams) ensures r == *self { unimplemented!() }
}
pub uninterp spec fn zeroizing_view(z: Zeroizing<Vec<u8>>) -> Seq<u8>;
impl Password {
    pub uninterp spec fn octets(&self) -> Seq<u8>;
    #[verifier::external_body] pub fn empty() -> (r: Password) ensures r.octets() == Seq::<u8>::empty() { unimplemented!() }
    #[verifier::external_body] pub fn read(&self) -> (r: Zeroizing<Vec<u8>>) ensures zeroizing_view(r) == self.octets() { unimplemented!() }
}
/// the UTF-8 octets of a text
pub uninterp spec fn text_octets(s: Seq<char>) -> Seq<u8>;
impl core::convert::From<String> for Password {
    #[verifier::external_body]
    fn from(value: String) -> (r: Password) ensures r.octets() == text_octets(value@) { unimplemented!() }
}
impl core::convert::From<&str> for Password {
    #[verifier::external_body]
    fn from(value: &str) -> (r: Password) ensures r.octets() == text_octets(value@) { unimplemented!() }
}
//@trusted T4 S2kParams::new_default (types/s2k.rs:100) returns fresh default locking parameters for the key version (their content is U12/U13's subject)
impl S2kParams {
    #[verifier::external_body]
    pub fn new_default<R: Rng + CryptoRng>(rng: R, key_version: KeyVersion) -> (r: S2kParams) { unimplemented!() }
}

// ---- key packets --------------------------------------------------------------------------------------------------
//@trusted T4 packet::PublicKey / PublicSubkey (packet/key/public.rs:36) are opaque packets around a PubKeyInner: from_inner(inner) = Ok(k) wraps exactly `inner` (it only adds a packet header; lengths: U75f); clone() is the same key; the KeyDetails observers read the inner fields (public.rs:996..1066); packet::SecretKey::new / SecretSubkey::new (secret.rs:58/124) = Ok(k) hold exactly the given public key and secret params (they only add a packet header); SecretKey / SecretSubkey forward KeyDetails to their public half; PacketHeader::tag() is an opaque observer
#[verifier::external_body] #[derive(Clone, Copy)] pub struct PacketHeader { v: u8 }
/// a header of this format (old / new) can carry this tag (packet/header.rs:68: an old-format header has room for tags below 16 only)
pub uninterp spec fn header_formable(version: types::PacketHeaderVersion, tag: Tag) -> bool;
//@trusted T4 PacketHeader (packet/header.rs:18; U04): hv() / spec_tag() / spec_len() are its format, tag and stored length; version() / tag() / packet_length() read them; from_parts(version, tag, length) = Ok(h) is the header made of exactly these parts, and for a Fixed length it fails only if the format cannot carry the tag; every existing header is of a format that carries its tag (type invariant: it was made by from_parts / new_fixed / the parser)
impl PacketHeader {
    pub uninterp spec fn hv(&self) -> types::PacketHeaderVersion;
    pub uninterp spec fn spec_tag(&self) -> Tag;
    pub uninterp spec fn spec_len(&self) -> PacketLength;
    #[verifier::external_body] pub proof fn axiom_formable(&self) ensures header_formable(self.hv(), self.spec_tag()) {}
    #[verifier::external_body] pub fn version(&self) -> (r: types::PacketHeaderVersion) ensures r == self.hv() { unimplemented!() }
    #[verifier::external_body] pub fn tag(&self) -> (r: Tag) ensures r == self.spec_tag() { unimplemented!() }
    #[verifier::external_body] pub fn packet_length(&self) -> (r: PacketLength) ensures r == self.spec_len() { unimplemented!() }
    #[verifier::external_body]
    pub fn from_parts(version: types::PacketHeaderVersion, tag: Tag, length: PacketLength) -> (r: errors::Result<PacketHeader>)
        ensures
            r matches Ok(h) ==> h.hv() == version && h.spec_tag() == tag && h.spec_len() == length,
            (length is Fixed && header_formable(version, tag)) ==> r is Ok,
    { unimplemented!() }
}
/// the length of the serialised body of a secret key packet: public key fields ++ secret params for this key version (Serialize::write_len, secret.rs:411/425;
/// that it is the number of octets to_writer emits is U75f's subject)
pub uninterp spec fn secret_packet_body_len(public: Seq<u8>, secret: SecretParams) -> usize;
//@trusted T4 EncryptedSecretParams::unlock (U16) = Ok(p): p is the material this ciphertext unlocks to with that passphrase (unlock_result)
pub uninterp spec fn unlock_result(e: EncryptedSecretParams, pw: Seq<u8>) -> PlainSecretParams;
impl EncryptedSecretParams {
    #[verifier::external_body]
    pub fn unlock<K: types::KeyDetails + Serialize>(&self, pw: &Password, pub_key: &K, secret_tag: Option<Tag>) -> (r: errors::Result<PlainSecretParams>)
        ensures r matches Ok(p) ==> p == unlock_result(*self, pw.octets())
    { unimplemented!() }
}
pub mod packet {
    #[allow(unused_imports)] use super::*;
    pub use super::{KeyFlags, Features, Signature, UserId, UserAttribute, PubKeyInner, SecretKey, SecretSubkey};
    #[verifier::external_body] pub struct PublicKey { v: u8 }
    #[verifier::external_body] pub struct PublicSubkey { v: u8 }
    impl PublicKey {
        pub uninterp spec fn inner(&self) -> PubKeyInner;
        #[verifier::external_body]
        pub fn from_inner(inner: PubKeyInner) -> (r: errors::Result<PublicKey>) ensures r matches Ok(k) ==> k.inner() == inner { unimplemented!() }
    }
    impl PublicSubkey {
        pub uninterp spec fn inner(&self) -> PubKeyInner;
        #[verifier::external_body]
        pub fn from_inner(inner: PubKeyInner) -> (r: errors::Result<PublicSubkey>) ensures r matches Ok(k) ==> k.inner() == inner { unimplemented!() }
    }
    impl Clone for PublicKey {
        #[verifier::external_body]
        fn clone(&self) -> (r: PublicKey) ensures r == *self { unimplemented!() }
    }
    impl Serialize for PublicKey { uninterp spec fn ser(&self) -> Seq<u8>; #[verifier::external_body] fn write_len(&self) -> (r: usize) { unimplemented!() } }
    impl Serialize for PublicSubkey { uninterp spec fn ser(&self) -> Seq<u8>; #[verifier::external_body] fn write_len(&self) -> (r: usize) { unimplemented!() } }
    impl types::KeyDetails for PublicKey {
        open spec fn spec_version(&self) -> KeyVersion { self.inner().version_s() }
        uninterp spec fn spec_fingerprint(&self) -> Fingerprint;
        uninterp spec fn spec_key_id(&self) -> KeyId;
        open spec fn spec_algorithm(&self) -> PublicKeyAlgorithm { self.inner().algorithm_s() }
        open spec fn spec_created_at(&self) -> Timestamp { self.inner().created_at_s() }
        #[verifier::external_body] fn version(&self) -> (r: KeyVersion) { unimplemented!() }
        #[verifier::external_body] fn fingerprint(&self) -> (r: Fingerprint) { unimplemented!() }
        #[verifier::external_body] fn legacy_key_id(&self) -> (r: KeyId) { unimplemented!() }
        #[verifier::external_body] fn algorithm(&self) -> (r: PublicKeyAlgorithm) { unimplemented!() }
        #[verifier::external_body] fn created_at(&self) -> (r: Timestamp) { unimplemented!() }
    }
    impl types::KeyDetails for PublicSubkey {
        open spec fn spec_version(&self) -> KeyVersion { self.inner().version_s() }
        uninterp spec fn spec_fingerprint(&self) -> Fingerprint;
        uninterp spec fn spec_key_id(&self) -> KeyId;
        open spec fn spec_algorithm(&self) -> PublicKeyAlgorithm { self.inner().algorithm_s() }
        open spec fn spec_created_at(&self) -> Timestamp { self.inner().created_at_s() }
        #[verifier::external_body] fn version(&self) -> (r: KeyVersion) { unimplemented!() }
        #[verifier::external_body] fn fingerprint(&self) -> (r: Fingerprint) { unimplemented!() }
        #[verifier::external_body] fn legacy_key_id(&self) -> (r: KeyId) { unimplemented!() }
        #[verifier::external_body] fn algorithm(&self) -> (r: PublicKeyAlgorithm) { unimplemented!() }
        #[verifier::external_body] fn created_at(&self) -> (r: Timestamp) { unimplemented!() }
    }
}

//@trusted T7 UserId::from_str(version, text) (user_id.rs:67) = Ok(u) is a User ID packet (tag UserId) whose content is the text's octets; `String` and `&String` are texts (AsRef<str>)
pub trait AsRefStr { spec fn text(&self) -> Seq<char>; }
impl AsRefStr for String { open spec fn text(&self) -> Seq<char> { self@ } }
impl AsRefStr for &String { open spec fn text(&self) -> Seq<char> { (**self)@ } }
impl UserId {
    #[verifier::external_body]
    pub fn from_str<T: AsRefStr>(packet_version: types::PacketHeaderVersion, input: T) -> (r: errors::Result<UserId>)
        ensures r matches Ok(u) ==> u.spec_tag() is UserId && u.ser() == text_octets(input.text())
    { unimplemented!() }
}
