// ---------------------------------------------------------------------------------
// shims/subpkt_fidelity.rs - the value types and std / bytes / smallvec / num_enum items around the
// signature-subpacket body parsers (src/packet/signature/de.rs) and writers (ser.rs) for the
// byte-exact re-serialisation units U69s / U69t.  Unlike shims/codec_sigtypes.rs (opaque payloads) and
// shims/serlen_b_sig.rs (octet COUNTS only) every item here is specified by VALUE.
// Include after shims/io.rs, shims/bytes.rs, shims/codec_reader.rs and shims/secret_algos.rs, inside verus!{}.
// Do not combine with shims/codec_sigtypes.rs, shims/serlen_b*.rs, shims/sigtypes.rs (same names).
// ---------------------------------------------------------------------------------

// ---- num_enum ids (T7: u8 -> enum -> u8 is the identity, i.e. the octet map is injective on what the parser produces)
//@trusted T7 PublicKeyAlgorithm (num_enum FromPrimitive/IntoPrimitive with catch_all) is an abstract Copy value with uninterpreted octet maps pk_from_u8 / pk_to_u8; u8 -> enum -> u8 is the identity for all 256 octets (axiom_pk_round_trip)
pub uninterp spec fn pk_to_u8(a: PublicKeyAlgorithm) -> u8;
pub uninterp spec fn pk_from_u8(v: u8) -> PublicKeyAlgorithm;
#[verifier::external_body]
pub proof fn axiom_pk_round_trip(v: u8)
    ensures pk_to_u8(pk_from_u8(v)) == v
{}
impl core::convert::From<u8> for PublicKeyAlgorithm {
    #[verifier::external_body]
    fn from(v: u8) -> (r: PublicKeyAlgorithm) ensures r == pk_from_u8(v) { unimplemented!() }
}
impl core::convert::From<PublicKeyAlgorithm> for u8 {
    #[verifier::external_body]
    fn from(a: PublicKeyAlgorithm) -> (r: u8) ensures r == pk_to_u8(a) { unimplemented!() }
}

//@trusted T7 num_enum derive (FromPrimitive/IntoPrimitive with catch_all Other(u8)) on KeyVersion, CompressionAlgorithm, RevocationCode: re-declared by hand with the discriminants of the source; From<u8> maps a listed discriminant to its variant and every other octet v to Other(v); From<Enum> for u8 maps a variant to its discriminant and Other(v) to v.  derive(Clone, Copy) is a bit copy
pub open spec fn kv_to_u8(v: KeyVersion) -> u8 {
    match v {
        KeyVersion::V2 => 2, KeyVersion::V3 => 3, KeyVersion::V4 => 4,
        KeyVersion::V5 => 5, KeyVersion::V6 => 6, KeyVersion::Other(n) => n,
    }
}
pub open spec fn kv_from_u8(v: u8) -> KeyVersion {
    if v == 2 { KeyVersion::V2 } else if v == 3 { KeyVersion::V3 } else if v == 4 { KeyVersion::V4 }
    else if v == 5 { KeyVersion::V5 } else if v == 6 { KeyVersion::V6 } else { KeyVersion::Other(v) }
}
impl core::convert::From<u8> for KeyVersion {
    #[verifier::external_body]
    fn from(v: u8) -> (r: KeyVersion) ensures r == kv_from_u8(v) { unimplemented!() }
}
impl core::convert::From<KeyVersion> for u8 {
    #[verifier::external_body]
    fn from(v: KeyVersion) -> (r: u8) ensures r == kv_to_u8(v) { unimplemented!() }
}

#[derive(Clone, Copy)]
pub enum CompressionAlgorithm { Uncompressed, ZIP, ZLIB, BZip2, Private10, Other(u8) }
pub open spec fn comp_to_u8(a: CompressionAlgorithm) -> u8 {
    match a {
        CompressionAlgorithm::Uncompressed => 0, CompressionAlgorithm::ZIP => 1, CompressionAlgorithm::ZLIB => 2,
        CompressionAlgorithm::BZip2 => 3, CompressionAlgorithm::Private10 => 110, CompressionAlgorithm::Other(v) => v,
    }
}
pub open spec fn comp_from_u8(v: u8) -> CompressionAlgorithm {
    if v == 0 { CompressionAlgorithm::Uncompressed } else if v == 1 { CompressionAlgorithm::ZIP } else if v == 2 { CompressionAlgorithm::ZLIB }
    else if v == 3 { CompressionAlgorithm::BZip2 } else if v == 110 { CompressionAlgorithm::Private10 } else { CompressionAlgorithm::Other(v) }
}
impl core::convert::From<u8> for CompressionAlgorithm {
    #[verifier::external_body]
    fn from(v: u8) -> (r: CompressionAlgorithm) ensures r == comp_from_u8(v) { unimplemented!() }
}
impl core::convert::From<CompressionAlgorithm> for u8 {
    #[verifier::external_body]
    fn from(a: CompressionAlgorithm) -> (r: u8) ensures r == comp_to_u8(a) { unimplemented!() }
}

#[derive(Clone, Copy)]
pub enum RevocationCode {
    NoReason, KeySuperseded, KeyCompromised, KeyRetired, CertUserIdInvalid,
    Private100, Private101, Private102, Private103, Private104, Private105, Private106, Private107, Private108, Private109, Private110,
    Other(u8),
}
pub open spec fn revcode_to_u8(c: RevocationCode) -> u8 {
    match c {
        RevocationCode::NoReason => 0, RevocationCode::KeySuperseded => 1, RevocationCode::KeyCompromised => 2,
        RevocationCode::KeyRetired => 3, RevocationCode::CertUserIdInvalid => 32,
        RevocationCode::Private100 => 100, RevocationCode::Private101 => 101, RevocationCode::Private102 => 102,
        RevocationCode::Private103 => 103, RevocationCode::Private104 => 104, RevocationCode::Private105 => 105,
        RevocationCode::Private106 => 106, RevocationCode::Private107 => 107, RevocationCode::Private108 => 108,
        RevocationCode::Private109 => 109, RevocationCode::Private110 => 110, RevocationCode::Other(v) => v,
    }
}
pub open spec fn revcode_from_u8(v: u8) -> RevocationCode {
    if v == 0 { RevocationCode::NoReason } else if v == 1 { RevocationCode::KeySuperseded } else if v == 2 { RevocationCode::KeyCompromised }
    else if v == 3 { RevocationCode::KeyRetired } else if v == 32 { RevocationCode::CertUserIdInvalid }
    else if v == 100 { RevocationCode::Private100 } else if v == 101 { RevocationCode::Private101 } else if v == 102 { RevocationCode::Private102 }
    else if v == 103 { RevocationCode::Private103 } else if v == 104 { RevocationCode::Private104 } else if v == 105 { RevocationCode::Private105 }
    else if v == 106 { RevocationCode::Private106 } else if v == 107 { RevocationCode::Private107 } else if v == 108 { RevocationCode::Private108 }
    else if v == 109 { RevocationCode::Private109 } else if v == 110 { RevocationCode::Private110 } else { RevocationCode::Other(v) }
}
impl core::convert::From<u8> for RevocationCode {
    #[verifier::external_body]
    fn from(v: u8) -> (r: RevocationCode) ensures r == revcode_from_u8(v) { unimplemented!() }
}
impl core::convert::From<RevocationCode> for u8 {
    #[verifier::external_body]
    fn from(c: RevocationCode) -> (r: u8) ensures r == revcode_to_u8(c) { unimplemented!() }
}

/// the octet an algorithm id in a preference list is written as (`u8::from(alg)` / `alg.into()`)
pub trait AlgOctet: Copy {
    spec fn octet(&self) -> u8;
}
impl AlgOctet for SymmetricKeyAlgorithm { open spec fn octet(&self) -> u8 { sym_to_u8(*self) } }
impl AlgOctet for HashAlgorithm { open spec fn octet(&self) -> u8 { hash_to_u8(*self) } }
impl AlgOctet for CompressionAlgorithm { open spec fn octet(&self) -> u8 { comp_to_u8(*self) } }
impl AlgOctet for AeadAlgorithm { open spec fn octet(&self) -> u8 { aead_to_u8(*self) } }

/// the octets of a preference list / of a list of (cipher, AEAD mode) pairs
pub open spec fn octets_of<T: AlgOctet>(s: Seq<T>) -> Seq<u8> { Seq::new(s.len(), |k: int| s[k].octet()) }
pub open spec fn pair_octets_of<A: AlgOctet, B: AlgOctet>(s: Seq<(A, B)>) -> Seq<u8> {
    Seq::new(2 * s.len(), |k: int| if k % 2 == 0 { s[k / 2].0.octet() } else { s[k / 2].1.octet() })
}

//@trusted T2 core::iter on slices: `s.iter().map(|&a| u8::from(a)).collect::<Vec<_>>()` (resp. `|&a| a.into()`) yields, in order, the octet u8::from(a) of every element (AlgOctet::octet names that octet per type: T7 above); `s.iter().flat_map(|&(a, b)| [a.into(), b.into()]).collect::<Vec<_>>()` yields the two octets of every pair, in order (iterator adaptor chains Verus does not accept)
#[verifier::external_body]
pub fn map_to_octets<T: AlgOctet>(s: &[T]) -> (r: Vec<u8>) where u8: From<T>
    ensures r@ == octets_of(s@)
{ s.iter().map(|&a| u8::from(a)).collect::<Vec<_>>() }
#[verifier::external_body]
pub fn pairs_to_octets<A: AlgOctet, B: AlgOctet>(s: &[(A, B)]) -> (r: Vec<u8>) where u8: From<A> + From<B>
    ensures r@ == pair_octets_of(s@)
{ s.iter().flat_map(|&(a, b)| [u8::from(a), u8::from(b)]).collect::<Vec<_>>() }

// ---- small value types ------------------------------------------------------------
//@trusted T7 KeyId is 8 octets (src/types/key_id.rs: `pub struct KeyId([u8; 8])`, From<[u8; 8]> stores them, AsRef<[u8]> returns them)
#[derive(Clone, Copy)]
pub struct KeyId(pub [u8; 8]);
impl vstd::std_specs::convert::FromSpecImpl<[u8; 8]> for KeyId {
    open spec fn obeys_from_spec() -> bool { true }
    open spec fn from_spec(a: [u8; 8]) -> KeyId { KeyId(a) }
}
impl core::convert::From<[u8; 8]> for KeyId {
    fn from(value: [u8; 8]) -> (r: KeyId) { KeyId(value) }
}
impl KeyId {
    // AsRef<[u8]>::as_ref as an inherent method (method-call syntax in the sources resolves to it)
    pub fn as_ref(&self) -> (r: &[u8]) ensures r@ == self.0@ { self.0.as_slice() }
}

//@trusted T7 num_enum TryFromPrimitive on RevocationKeyClass (Default = 0x80, Sensitive = 0xC0): try_from(v) is Ok(variant) exactly for the two listed discriminants; `class as u8` is the discriminant
pub struct TryFromPrimitiveError;
pub open spec fn revkey_class_octet(c: RevocationKeyClass) -> u8 {
    match c { RevocationKeyClass::Default => 0x80, RevocationKeyClass::Sensitive => 0xC0 }
}
impl core::convert::TryFrom<u8> for RevocationKeyClass {
    type Error = TryFromPrimitiveError;
    #[verifier::external_body]
    fn try_from(v: u8) -> (r: core::result::Result<RevocationKeyClass, TryFromPrimitiveError>)
        ensures match r { Ok(c) => revkey_class_octet(c) == v, Err(_) => v != 0x80 && v != 0xC0 }
    { unimplemented!() }
}
#[verifier::external_body]
pub fn revocation_key_class_octet(c: &RevocationKeyClass) -> (r: u8)
    ensures r == revkey_class_octet(*c)
{ unimplemented!() }

//@trusted T7 smallvec::SmallVec<[T; N]> behaves as a Vec<T> (new, push, len, deref to the slice of its elements, from_slice copies a slice); the inline capacity N is not modelled
pub trait ArrayLike { type Item; }
impl<T, const N: usize> ArrayLike for [T; N] { type Item = T; }
pub type SmallVec<A> = Vec<<A as ArrayLike>::Item>;
#[verifier::external_body]
pub fn smallvec_from_slice<T: Copy>(s: &[T]) -> (r: Vec<T>)
    ensures r@ == s@
{ s.to_vec() }

//@trusted T2 std::string::String: as_bytes() is the UTF-8 encoding of the text (vstd::utf8::encode_utf8 of the char sequence, defined in vstd); core::str::from_utf8(v) is Ok exactly for well-formed UTF-8 and the text is then the decoding of v (vstd::utf8::decode_utf8; decode/encode are inverse on well-formed input: PROVED in vstd, decode_utf8_encode_utf8)
pub assume_specification[ String::as_bytes ](s: &String) -> (r: &[u8])
    ensures r@ == vstd::utf8::encode_utf8(s@);
#[verifier::external_type_specification]
#[verifier::external_body]
pub struct ExUtf8Error(core::str::Utf8Error);
pub assume_specification<'a>[ core::str::from_utf8 ](v: &'a [u8]) -> (r: core::result::Result<&'a str, core::str::Utf8Error>)
    ensures vstd::utf8::valid_utf8(v@) <==> r is Ok, r is Ok ==> r->Ok_0@ == vstd::utf8::decode_utf8(v@);
impl core::convert::From<core::str::Utf8Error> for errors::Error {
    #[verifier::external_body]
    fn from(e: core::str::Utf8Error) -> (r: errors::Error) { unimplemented!() }
}
//@trusted T2 a failed integer conversion (TryFromIntError) converts into the opaque crate error via `?`
impl core::convert::From<core::num::TryFromIntError> for errors::Error {
    #[verifier::external_body]
    fn from(e: core::num::TryFromIntError) -> (r: errors::Error) { unimplemented!() }
}

//@trusted T2 no allocation exceeds isize::MAX bytes (std allocator rule), so Vec::len() <= isize::MAX
#[verifier::external_body]
pub proof fn axiom_spf_vec_len<T>(b: &Vec<T>)
    ensures b@.len() <= isize::MAX
{}
//@trusted T2 <[T]>::to_vec clones every element, in order (for u8: clone is a copy)
pub assume_specification<T: Clone>[ <[T]>::to_vec ](s: &[T]) -> (r: Vec<T>)
    ensures r@.len() == s@.len(), forall|i: int| 0 <= i < s@.len() ==> vstd::pervasive::cloned::<T>(s@[i], #[trigger] r@[i]);

//@trusted T2 bytes: <Bytes as AsRef<[u8]>>::as_ref, <BytesMut as AsRef<[u8]>>::as_ref and <BytesMut as Deref>::deref are the content; Buf::reader(bytes) is a reader over the content
impl Bytes {
    #[verifier::external_body]
    pub fn as_ref(&self) -> (r: &[u8]) ensures r@ == self@ { unimplemented!() }
    #[verifier::external_body]
    pub fn reader(self) -> (r: BytesReader) ensures r@ == self@ { unimplemented!() }
}
impl BytesMut {
    #[verifier::external_body]
    pub fn as_ref(&self) -> (r: &[u8]) ensures r@ == self@ { unimplemented!() }
}
impl core::ops::Deref for BytesMut {
    type Target = [u8];
    #[verifier::external_body]
    fn deref(&self) -> (r: &[u8])
        ensures r@ == self@
    { unimplemented!() }
}
#[verifier::external_body]
pub struct BytesReader { b: Bytes }
impl View for BytesReader {
    type V = Seq<u8>;
    uninterp spec fn view(&self) -> Seq<u8>;
}

//@trusted T4 crate::parsing::BufParsing on Bytes (src/parsing.rs: ensure_remaining + Buf::get_u8 / get_u16_le / copy_to_bytes): read_u8 / read_le_u16 are Ok exactly when 1 / 2 octets remain, return them (little endian: first octet is the low one) and advance; rest() returns everything that remains and leaves the buffer empty
pub struct ParsingError;
impl core::convert::From<ParsingError> for errors::Error {
    #[verifier::external_body]
    fn from(e: ParsingError) -> (r: errors::Error) { unimplemented!() }
}
pub open spec fn le16_of(a: u8, b: u8) -> u16 { (a as u16) | ((b as u16) << 8) }
impl Bytes {
    #[verifier::external_body]
    pub fn read_u8(&mut self) -> (r: core::result::Result<u8, ParsingError>)
        ensures match r {
            Ok(v) => old(self)@.len() >= 1 && v == old(self)@[0] && final(self)@ == old(self)@.skip(1),
            Err(_) => old(self)@.len() < 1 }
    { unimplemented!() }
    #[verifier::external_body]
    pub fn read_le_u16(&mut self) -> (r: core::result::Result<u16, ParsingError>)
        ensures match r {
            Ok(v) => old(self)@.len() >= 2 && v == le16_of(old(self)@[0], old(self)@[1]) && final(self)@ == old(self)@.skip(2),
            Err(_) => old(self)@.len() < 2 }
    { unimplemented!() }
    #[verifier::external_body]
    pub fn rest(&mut self) -> (r: Bytes)
        ensures r@ == old(self)@ && final(self)@ == Seq::<u8>::empty()
    { unimplemented!() }
}

//@trusted T2 u16::to_le_bytes is [low octet, high octet]; u8::from(bool) is 0 / 1
/// `let [a, b] = x.to_le_bytes();` (an array pattern Verus does not accept) as `let (a, b) = u16_to_le_pair(x);`
#[verifier::external_body]
pub fn u16_to_le_pair(x: u16) -> (r: (u8, u8))
    ensures r.0 == (x & 0xff) as u8, r.1 == (x >> 8) as u8
{ let [a, b] = x.to_le_bytes(); (a, b) }
pub assume_specification[ <u8 as core::convert::From<bool>>::from ](b: bool) -> (r: u8)
    ensures r == (if b { 1u8 } else { 0u8 });

//@trusted T7 bitfields derive on KnownKeyFlags (u16): the value is its bits, from_bits / into_bits are the identity on all 16 bits (no padding fields since /repo 2cc6731; CHECKED on the compiled macro expansion by Kani unit K07c - before that fix this assumption was false: padding bits were zeroed) and default() is all-zero; KnownFeatures (u8) is only built with its tuple constructor and read through `.0` by the real code (its from_bits zeroes the padding bits and is not modelled)
#[derive(Clone, Copy)]
pub struct KnownKeyFlags(pub u16);
impl KnownKeyFlags {
    pub fn into_bits(self) -> (r: u16) ensures r == self.0 { self.0 }
    pub fn from_bits(bits: u16) -> (r: KnownKeyFlags) ensures r.0 == bits { KnownKeyFlags(bits) }
    pub fn default() -> (r: KnownKeyFlags) ensures r.0 == 0 { KnownKeyFlags(0) }
}
#[derive(Clone, Copy)]
pub struct KnownFeatures(pub u8);

// ---- Embedded Signature: abstract inner ---------------------------------------------
//@trusted T4 types::PacketHeaderVersion has the two variants Old / New; Tag::Signature, PacketLength::Fixed(n) and PacketHeader::from_parts(version, tag, length) only build the (opaque) header value handed to the inner signature parser
#[derive(Clone, Copy)]
pub enum PacketHeaderVersion { Old, New }
pub enum Tag { Signature }
pub enum PacketLength { Fixed(u32) }
#[verifier::external_body]
pub struct PacketHeader { p: u8 }
impl PacketHeader {
    #[verifier::external_body]
    pub fn from_parts(version: PacketHeaderVersion, tag: Tag, length: PacketLength) -> (r: errors::Result<PacketHeader>) { unimplemented!() }
}
//@trusted T4 packet::Signature (the payload of an Embedded Signature subpacket) is an ABSTRACT value with a wire image sig_wire(): to_writer appends it; Signature::try_from_reader(header, body) = Ok(s) means s was parsed from ALL of `body` and sig_wire(s) == body, i.e. the property of U69s/U69t one nesting level down (plus the MPI / native signature-value codec) is ASSUMED for the inner signature, not proved here
#[verifier::external_body]
pub struct Signature { s: u8 }
impl Signature {
    pub uninterp spec fn sig_wire(&self) -> Seq<u8>;
    #[verifier::external_body]
    pub fn try_from_reader(packet_header: PacketHeader, i: BytesReader) -> (r: errors::Result<Signature>)
        ensures r is Ok ==> r->Ok_0.sig_wire() == i@
    { unimplemented!() }
}
impl Serialize for Signature {
    open spec fn wire(&self) -> Seq<u8> { self.sig_wire() }
    uninterp spec fn ser_inv(&self) -> bool;
    open spec fn len_inv(&self) -> bool { true }
    open spec fn wr_inv(&self) -> bool { true }
    #[verifier::external_body]
    fn to_writer<W: io::Write>(&self, writer: &mut W) -> (r: errors::Result<()>) { unimplemented!() }
    #[verifier::external_body]
    fn write_len(&self) -> (r: usize) { unimplemented!() }
}
