// ---------------------------------------------------------------------------------
// shims/pkesk_identity_callees.rs - part 2 of the environment of U14: contracts of the callees that are the
// subject of other units.  Include after shims/pkesk_identity_env.rs and after the extraction of the real
// KeyId, Fingerprint, KeyVersion.
// ---------------------------------------------------------------------------------

//@trusted T7 derive(PartialEq) on KeyId (src/types/key_id.rs:16) compares the eight octets; derive(PartialEq) on Fingerprint (src/types/fingerprint.rs:12) is equality of values (same variant, same octets); derive(Clone, Copy) on KeyId is a bit copy
impl PartialEq for KeyId {
    #[verifier::external_body]
    fn eq(&self, o: &KeyId) -> (r: bool) ensures r == (kid_bytes(*self) == kid_bytes(*o)) { unimplemented!() }
}
impl vstd::std_specs::cmp::PartialEqSpecImpl for KeyId {
    open spec fn obeys_eq_spec() -> bool { true }
    open spec fn eq_spec(&self, o: &KeyId) -> bool { kid_bytes(*self) == kid_bytes(*o) }
}
impl PartialEq for Fingerprint {
    #[verifier::external_body]
    fn eq(&self, o: &Fingerprint) -> (r: bool) ensures r == (*self == *o) { unimplemented!() }
}
impl vstd::std_specs::cmp::PartialEqSpecImpl for Fingerprint {
    open spec fn obeys_eq_spec() -> bool { true }
    open spec fn eq_spec(&self, o: &Fingerprint) -> bool { *self == *o }
}

//@trusted T3 KeyDetails / EncryptionKey: legacy_key_id(), fingerprint(), algorithm(), public_params() are pure observers of the key (spec_key_id / spec_fingerprint / spec_algorithm / spec_public_params; their values are the subject of U35/U37); encrypt(rng, plain, typ) = Ok(v) means the uninterpreted relation encrypts(key, plain, typ, v) holds
pub trait KeyDetails {
    spec fn spec_key_id(&self) -> KeyId;
    spec fn spec_fingerprint(&self) -> Fingerprint;
    spec fn spec_algorithm(&self) -> PublicKeyAlgorithm;
    spec fn spec_public_params(&self) -> PublicParams;
    fn legacy_key_id(&self) -> (r: KeyId) ensures r == self.spec_key_id();
    fn fingerprint(&self) -> (r: Fingerprint) ensures r == self.spec_fingerprint();
    fn algorithm(&self) -> (r: PublicKeyAlgorithm) ensures r == self.spec_algorithm();
    fn public_params(&self) -> (r: &PublicParams) ensures *r == self.spec_public_params();
}
pub trait EncryptionKey: KeyDetails {
    spec fn encrypts(&self, plain: Seq<u8>, typ: EskType, out: PkeskBytes) -> bool;
    fn encrypt<R: CryptoRng + Rng>(&self, rng: R, plain: &[u8], typ: EskType) -> (r: errors::Result<PkeskBytes>)
        ensures r matches Ok(v) ==> self.encrypts(plain@, typ, v);
}

/// what is encrypted to the recipient: [symmetric algorithm octet (v3 only)] ++ session key ++ [two-octet checksum (not for X25519/X448)]
pub uninterp spec fn sk_plain(alg: Option<SymmetricKeyAlgorithm>, sk: RawSessionKey, pp: PublicParams) -> Seq<u8>;
/// a fingerprint that names its key version (anything but Fingerprint::Unknown)
pub open spec fn recipient_ok(f: Option<Fingerprint>) -> bool { f matches Some(fp) ==> !(fp is Unknown) }

//@trusted T4 PacketHeader::new_fixed builds a header value; write_len_v3 / write_len_v6 (PROVED in U63s) are the body lengths, write_len_v6 panics for a fingerprint without version (Fingerprint::Unknown): modelled as its precondition (U63s: recipient_ok)
impl PacketHeader {
    #[verifier::external_body]
    pub fn new_fixed(tag: Tag, len: u32) -> (r: PacketHeader) { unimplemented!() }
}
#[verifier::external_body]
pub fn write_len_v3(id: &KeyId, values: &PkeskBytes) -> (r: usize) { unimplemented!() }
#[verifier::external_body]
pub fn write_len_v6(values: &PkeskBytes, fingerprint: &Option<Fingerprint>) -> (r: usize)
    requires recipient_ok(*fingerprint)
{ unimplemented!() }
