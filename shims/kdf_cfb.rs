// ---------------------------------------------------------------------------------
// shims/kdf_cfb.rs - the one-shot CFB entry points of crypto::sym::SymmetricKeyAlgorithm that the
// v4 SKESK code (unit U92) calls: {encrypt,decrypt}_with_iv_regular.  Include AFTER shims/io.rs and
// shims/kdf_sym.rs; the unit extracts the real enum SymmetricKeyAlgorithm and the real block_size.
// NO cryptography is verified: CFB encryption / decryption are uninterpreted functions.
// ---------------------------------------------------------------------------------
//@trusted T3 sym_cfb_enc(alg, key, iv, pt) / sym_cfb_dec(alg, key, iv, ct) are uninterpreted, length-preserving functions (standard full-block CFB of the cipher `alg`, no OpenPGP resync); dec(enc(x)) == x under the same (alg, key, iv) for a cipher the library implements with |key| == key size and |iv| == block size
pub uninterp spec fn sym_cfb_enc(s: SymmetricKeyAlgorithm, key: Seq<u8>, iv: Seq<u8>, pt: Seq<u8>) -> Seq<u8>;
pub uninterp spec fn sym_cfb_dec(s: SymmetricKeyAlgorithm, key: Seq<u8>, iv: Seq<u8>, ct: Seq<u8>) -> Seq<u8>;
#[verifier::external_body]
pub proof fn axiom_sym_cfb_len(s: SymmetricKeyAlgorithm, key: Seq<u8>, iv: Seq<u8>, x: Seq<u8>)
    ensures sym_cfb_enc(s, key, iv, x).len() == x.len(), sym_cfb_dec(s, key, iv, x).len() == x.len() {}
#[verifier::external_body]
pub proof fn axiom_sym_cfb_dec_enc(s: SymmetricKeyAlgorithm, key: Seq<u8>, iv: Seq<u8>, x: Seq<u8>)
    requires spec_key_size(s) > 0, key.len() == spec_key_size(s), iv.len() == spec_block_size(s)
    ensures sym_cfb_dec(s, key, iv, sym_cfb_enc(s, key, iv, x)) == x {}

//@trusted T3 SymmetricKeyAlgorithm::decrypt_with_iv_regular(key, iv, buf) / encrypt_with_iv_regular(key, iv, buf): Ok => buf' == sym_cfb_dec / sym_cfb_enc (alg, key, iv, old buf), the cipher is one the library implements (key size > 0) and |iv| == block size (cfb_mode::*::new_from_slices refuses other iv lengths; some ciphers accept several key lengths, so nothing is said about |key|); a key of exactly the key size and an iv of exactly the block size are always accepted; Err (Plaintext, unknown cipher, refused key / iv length) => buf unspecified; the length never changes; no panic for any input
impl SymmetricKeyAlgorithm {
    #[verifier::external_body]
    pub fn decrypt_with_iv_regular(self, key: &[u8], iv_vec: &[u8], ciphertext: &mut [u8]) -> (r: errors::Result<()>)
        ensures
            final(ciphertext)@.len() == old(ciphertext)@.len(),
            r is Ok ==> final(ciphertext)@ == sym_cfb_dec(self, key@, iv_vec@, old(ciphertext)@) && spec_key_size(self) > 0 && iv_vec@.len() == spec_block_size(self),
            (spec_key_size(self) > 0 && key@.len() == spec_key_size(self) && iv_vec@.len() == spec_block_size(self)) ==> r is Ok,
    { unimplemented!() }
    #[verifier::external_body]
    pub fn encrypt_with_iv_regular(self, key: &[u8], iv_vec: &[u8], plaintext: &mut [u8]) -> (r: errors::Result<()>)
        ensures
            final(plaintext)@.len() == old(plaintext)@.len(),
            r is Ok ==> final(plaintext)@ == sym_cfb_enc(self, key@, iv_vec@, old(plaintext)@) && spec_key_size(self) > 0 && iv_vec@.len() == spec_block_size(self),
            (spec_key_size(self) > 0 && key@.len() == spec_key_size(self) && iv_vec@.len() == spec_block_size(self)) ==> r is Ok,
    { unimplemented!() }
}
