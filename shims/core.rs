// ---------------------------------------------------------------------------------
// shims/core.rs - assumed contracts for code that is NOT under verification.
// Every `external_body` / `assume_specification` in /verif lives in shims/.  Each block
// carries a `//@trusted` line that is copied into the evidence of every unit using it.
// ---------------------------------------------------------------------------------

//@trusted T2 std::io::Error / crate::errors::Error are opaque values; only the *occurrence* of an error is modelled, never its content or kind (except ErrorKind where stated)
pub mod errors {
    use super::*;
    pub struct Error { pub tag: u8 }
    impl Error {
        #[verifier::external_body]
        pub fn opaque() -> (e: Error) { unimplemented!() }
    }
    pub type Result<T> = core::result::Result<T, Error>;
    impl core::convert::From<io::Error> for Error {
        #[verifier::external_body]
        fn from(e: io::Error) -> (r: Error) { unimplemented!() }
    }
}

pub mod io {
    use super::*;
    pub struct Error { pub tag: u8 }
    pub type Result<T> = core::result::Result<T, Error>;
    #[derive(PartialEq, Eq, Clone, Copy)]
    pub enum ErrorKind { Interrupted, UnexpectedEof, InvalidInput, InvalidData, Other }
    impl Error {
        #[verifier::external_body]
        pub fn new_opaque() -> (e: Error) { unimplemented!() }
        #[verifier::external_body]
        pub fn kind(&self) -> (k: ErrorKind) { unimplemented!() }
    }

    //@trusted T2 std::io::Read contract: read(buf) returns Ok(n) with n <= buf.len(), the first n bytes of buf are the next n bytes of the remaining stream content `rest()`, and n == 0 only if buf is empty or the stream is at its end; n is otherwise unconstrained (this quantifies over every short-read schedule). Err consumes nothing that is later observable.
    pub trait Read {
        spec fn rest(&self) -> Seq<u8>;
        fn read(&mut self, buf: &mut [u8]) -> (r: Result<usize>)
            ensures
                final(buf)@.len() == old(buf)@.len(),
                match r {
                    Ok(n) => n <= old(buf)@.len()
                        && n <= old(self).rest().len()
                        && final(buf)@.subrange(0, n as int) == old(self).rest().subrange(0, n as int)
                        && final(buf)@.subrange(n as int, final(buf)@.len() as int) == old(buf)@.subrange(n as int, old(buf)@.len() as int)
                        && final(self).rest() == old(self).rest().skip(n as int)
                        && (n == 0 ==> (old(buf)@.len() == 0 || old(self).rest().len() == 0)),
                    Err(_) => true,
                };
    }
    impl<R: Read> Read for &mut R {
        open spec fn rest(&self) -> Seq<u8> { (**self).rest() }
        #[verifier::external_body]
        fn read(&mut self, buf: &mut [u8]) -> (r: Result<usize>) { unimplemented!() }
    }
}

//@trusted T2 digest::DynDigest is a ghost byte accumulator: update(d) appends d to view(); the digest is an uninterpreted function of view()
pub trait DynDigest {
    spec fn view(&self) -> Seq<u8>;
    fn update(&mut self, data: &[u8])
        ensures final(self).view() == old(self).view() + data@;
}

//@trusted T2 nom::Input::position on &[u8] returns the first index whose byte satisfies the predicate, None if there is none
pub trait Input {
    spec fn sv(&self) -> Seq<u8>;
    fn position<P: Fn(u8) -> bool>(&self, p: P) -> (r: Option<usize>)
        requires forall|c: u8| p.requires((c,)),
        ensures match r {
            Some(i) => i < self.sv().len() && p.ensures((self.sv()[i as int],), true)
                && forall|j: int| 0 <= j < i ==> p.ensures((#[trigger] self.sv()[j],), false),
            None => forall|j: int| 0 <= j < self.sv().len() ==> p.ensures((#[trigger] self.sv()[j],), false),
        };
}
impl Input for &[u8] {
    open spec fn sv(&self) -> Seq<u8> { self@ }
    #[verifier::external_body]
    fn position<P: Fn(u8) -> bool>(&self, p: P) -> (r: Option<usize>) { unimplemented!() }
}
