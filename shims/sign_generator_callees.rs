// ---------------------------------------------------------------------------------
// shims/sign_generator_callees.rs - contracts of the functions SignGenerator / prepare (U26) call and that
// are the subject of OTHER units.  Include after shims/sign_generator_env.rs and after the extraction of the
// real Fingerprint, KeyVersion, SignatureConfig, SignatureVersionSpecific, OpsVersionSpecific, inside verus!{}.
// ---------------------------------------------------------------------------------

// ---- keys -----------------------------------------------------------------------------------------------
//@trusted T3 SigningKey with its supertrait KeyDetails flattened into it (Verus' trait checker rejects `dyn SigningKey` for a trait with a supertrait): version(), legacy_key_id(), fingerprint(), algorithm() are pure observers of the key (spec_version / spec_key_id / spec_fingerprint / spec_algorithm); nothing is assumed about their values (same modelling as shims/sigkeys.rs, units U32/U37)
pub trait SigningKey {
    spec fn spec_version(&self) -> KeyVersion;
    spec fn spec_key_id(&self) -> KeyId;
    spec fn spec_fingerprint(&self) -> Fingerprint;
    spec fn spec_algorithm(&self) -> PublicKeyAlgorithm;
    fn version(&self) -> (r: KeyVersion) ensures r == self.spec_version();
    fn legacy_key_id(&self) -> (r: KeyId) ensures r == self.spec_key_id();
    fn fingerprint(&self) -> (r: Fingerprint) ensures r == self.spec_fingerprint();
    fn algorithm(&self) -> (r: PublicKeyAlgorithm) ensures r == self.spec_algorithm();
}

// ---- signatures -----------------------------------------------------------------------------------------
//@trusted T4 Signature is an opaque value with a wire image sig_wire (packet header ++ body, RFC 9580 5.2); PacketTrait::to_writer_with_header appends exactly that image on Ok (U06) and a packet has at least its two header octets
#[verifier::external_body] pub struct Signature { v: u8 }
pub uninterp spec fn sig_wire(s: Signature) -> Seq<u8>;
#[verifier::external_body]
pub proof fn axiom_sig_wire_nonempty(s: Signature) ensures sig_wire(s).len() >= 2 {}
impl Signature {
    #[verifier::external_body]
    pub fn to_writer_with_header<W: io::Write>(&self, w: &mut W) -> (r: errors::Result<()>)
        ensures r is Ok ==> (*final(w)).out() == (*old(w)).out() + sig_wire(*self)
    { unimplemented!() }
}

//@trusted T4 SignatureHasher (src/packet/signature/config.rs:758) under the contracts PROVED in U32: hasher_fed(h, fed) = "exactly the octets fed have been written to h since into_hasher()" (binary: the digest has absorbed salt ++ fed, text: salt ++ canon(fed)); hasher_config(h) = the SignatureConfig it was made from.  into_hasher: Ok(h) has config self and fed = empty.  update(buf): config unchanged, fed grows by exactly buf.  sign(key, pw): Ok(sig) satisfies signed_ok(sig, config, key, fed) = sig carries config and key.sign was given H(hash_alg, cfg_preimage(config, content_of(typ, fed))) - the function Signature::verify (U31) checks
#[verifier::external_body] pub struct SignatureHasher { v: u8 }
pub uninterp spec fn hasher_fed(h: SignatureHasher, fed: Seq<u8>) -> bool;
pub uninterp spec fn hasher_config(h: SignatureHasher) -> SignatureConfig;
pub uninterp spec fn signed_ok(sig: Signature, c: SignatureConfig, key: &dyn SigningKey, fed: Seq<u8>) -> bool;
impl SignatureHasher {
    #[verifier::external_body]
    pub fn update(&mut self, buf: &[u8])
        ensures
            hasher_config(*final(self)) == hasher_config(*old(self)),
            forall|fed: Seq<u8>| #[trigger] hasher_fed(*old(self), fed) ==> hasher_fed(*final(self), fed + buf@),
    { unimplemented!() }
    #[verifier::external_body]
    pub fn sign(self, key: &dyn SigningKey, key_pw: &Password) -> (r: errors::Result<Signature>)
        ensures forall|fed: Seq<u8>| #[trigger] hasher_fed(self, fed) ==> (r matches Ok(sig) ==> signed_ok(sig, hasher_config(self), key, fed))
    { unimplemented!() }
}
impl SignatureConfig {
    #[verifier::external_body]
    pub fn into_hasher(self) -> (r: errors::Result<SignatureHasher>)
        ensures r matches Ok(h) ==> hasher_config(h) == self && hasher_fed(h, Seq::<u8>::empty())
    { unimplemented!() }
    //@trusted T4 SignatureConfig::v4 / v6 (config.rs:158/186): the config has exactly the given type and algorithms, empty subpacket areas, version V4 resp. V6 with a fresh salt (its length is U25/U32's concern)
    #[verifier::external_body]
    pub fn v4(typ: SignatureType, pub_alg: PublicKeyAlgorithm, hash_alg: HashAlgorithm) -> (r: SignatureConfig)
        ensures r.typ == typ, r.pub_alg == pub_alg, r.hash_alg == hash_alg, r.version_specific is V4,
            r.hashed_subpackets@.len() == 0, r.unhashed_subpackets@.len() == 0
    { unimplemented!() }
    #[verifier::external_body]
    pub fn v6<R: CryptoRng + Rng>(rng: R, typ: SignatureType, pub_alg: PublicKeyAlgorithm, hash_alg: HashAlgorithm) -> (r: errors::Result<SignatureConfig>)
        ensures r matches Ok(c) ==> c.typ == typ && c.pub_alg == pub_alg && c.hash_alg == hash_alg && c.version_specific is V6
            && c.hashed_subpackets@.len() == 0 && c.unhashed_subpackets@.len() == 0
    { unimplemented!() }
}
//@trusted T7 SubpacketData (src/packet/signature/subpacket.rs) is reduced to the three variants SubpacketConfig::to_subpackets builds (all others: Other); Subpacket::regular(data) = Ok(p) is a non-critical subpacket carrying exactly `data` (sp_data / sp_critical; the length field is U60s' subject); Timestamp::now() is the current time; Vec<Subpacket>::clone copies the elements
pub enum SubpacketData { IssuerFingerprint(Fingerprint), SignatureCreationTime(Timestamp), IssuerKeyId(KeyId), Other }
pub uninterp spec fn sp_data(p: Subpacket) -> SubpacketData;
pub uninterp spec fn sp_critical(p: Subpacket) -> bool;
impl Subpacket {
    #[verifier::external_body]
    pub fn regular(data: SubpacketData) -> (r: errors::Result<Subpacket>)
        ensures r matches Ok(p) ==> sp_data(p) == data && !sp_critical(p)
    { unimplemented!() }
}
impl Clone for Subpacket {
    #[verifier::external_body]
    fn clone(&self) -> (r: Subpacket) ensures r == *self { unimplemented!() }
}
impl Timestamp {
    #[verifier::external_body]
    pub fn now() -> (r: Timestamp) { unimplemented!() }
}

// ---- one-pass signature packets -------------------------------------------------------------------------
//@trusted T4 OnePassSignature (src/packet/one_pass_signature.rs) under the contracts PROVED in U61s: v3 / v6 build a packet with the given type, algorithms, key id resp. salt and fingerprint, and nested octet 1 ("last"); set_is_nested sets the nested octet to 0 and changes nothing else; to_writer_with_header appends the wire image ops_wire (header ++ RFC 9580 5.4 body), at least two octets
#[verifier::external_body] pub struct OnePassSignature { v: u8 }
pub uninterp spec fn ops_wire(o: OnePassSignature) -> Seq<u8>;
pub uninterp spec fn ops_typ(o: OnePassSignature) -> SignatureType;
pub uninterp spec fn ops_hash(o: OnePassSignature) -> HashAlgorithm;
pub uninterp spec fn ops_alg(o: OnePassSignature) -> PublicKeyAlgorithm;
pub uninterp spec fn ops_vs(o: OnePassSignature) -> OpsVersionSpecific;
/// the last octet of the packet: 0 = another one-pass signature packet follows, nonzero = this is the last one
pub uninterp spec fn ops_nested_octet(o: OnePassSignature) -> u8;
#[verifier::external_body]
pub proof fn axiom_ops_wire_nonempty(o: OnePassSignature) ensures ops_wire(o).len() >= 2 {}
impl OnePassSignature {
    #[verifier::external_body]
    pub fn v3(typ: SignatureType, hash_algorithm: HashAlgorithm, pub_algorithm: PublicKeyAlgorithm, key_id: KeyId) -> (r: OnePassSignature)
        ensures ops_typ(r) == typ, ops_hash(r) == hash_algorithm, ops_alg(r) == pub_algorithm,
            ops_vs(r) == (OpsVersionSpecific::V3 { key_id }), ops_nested_octet(r) == 1
    { unimplemented!() }
    #[verifier::external_body]
    pub fn v6(typ: SignatureType, hash_algorithm: HashAlgorithm, pub_algorithm: PublicKeyAlgorithm, salt: Vec<u8>, fingerprint: [u8; 32]) -> (r: OnePassSignature)
        ensures ops_typ(r) == typ, ops_hash(r) == hash_algorithm, ops_alg(r) == pub_algorithm,
            ops_vs(r) matches OpsVersionSpecific::V6 { salt: s, fingerprint: f } && s@ == salt@ && f == fingerprint,
            ops_nested_octet(r) == 1
    { unimplemented!() }
    #[verifier::external_body]
    pub fn set_is_nested(&mut self)
        ensures ops_nested_octet(*final(self)) == 0, ops_vs(*final(self)) == ops_vs(*old(self)),
            ops_typ(*final(self)) == ops_typ(*old(self)), ops_hash(*final(self)) == ops_hash(*old(self)), ops_alg(*final(self)) == ops_alg(*old(self))
    { unimplemented!() }
    #[verifier::external_body]
    pub fn to_writer_with_header<W: io::Write>(&self, w: &mut W) -> (r: errors::Result<()>)
        ensures r is Ok ==> (*final(w)).out() == (*old(w)).out() + ops_wire(*self)
    { unimplemented!() }
}

// ---- the literal data layer -----------------------------------------------------------------------------
/// the literal data packet stream for a payload: with source_len = None the partial-body stream
/// packet_stream(11, header.wire, payload, chunk_size), with Some(n) the fixed-length packet
/// enc_hdr(New, 11, Fixed(|header| + n)) ++ header.wire ++ payload - both PROVED for the real generators in U08
pub uninterp spec fn lit_stream(header: LiteralDataHeader, payload: Seq<u8>, source_len: Option<u32>, chunk_size: u32) -> Seq<u8>;
//@trusted T4 LiteralDataGenerator<S> (src/packet/literal_data.rs:457; contracts of its two variants PROVED in U08) is a std::io::Read over stream(); new(header, source, len, chunk) = Ok(g): g owns source unchanged (inner()) and will emit lit_stream(header, source.rest(), len, chunk); into_inner() returns the source it holds; when its stream is exhausted its source is exhausted (the final chunk / the pass-through only ends when the source returned Ok(0) for a non-empty buffer)
#[verifier::external_body]
#[verifier::accept_recursive_types(S)]
pub struct LiteralDataGenerator<S: io::Read> { s: S }
impl<S: io::Read> LiteralDataGenerator<S> {
    pub uninterp spec fn inner(&self) -> S;
    pub uninterp spec fn stream(&self) -> Seq<u8>;
    #[verifier::external_body]
    pub proof fn axiom_exhausted(&self)
        ensures self.stream().len() == 0 ==> self.inner().rest().len() == 0
    {}
    #[verifier::external_body]
    pub fn new(header: LiteralDataHeader, source: S, source_len: Option<u32>, chunk_size: u32) -> (r: errors::Result<LiteralDataGenerator<S>>)
        ensures r matches Ok(g) ==> g.inner() == source && g.stream() == lit_stream(header, source.rest(), source_len, chunk_size)
    { unimplemented!() }
    #[verifier::external_body]
    pub fn len(&self) -> (r: Option<u32>) { unimplemented!() }
    #[verifier::external_body]
    pub fn into_inner(self) -> (r: S) ensures r == self.inner() { unimplemented!() }
}
