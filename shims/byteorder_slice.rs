// ---------------------------------------------------------------------------------
// shims/byteorder_slice.rs - byteorder::ByteOrder::write_u32 on a byte slice (the same contract as
// in shims/certsig.rs, for units that cannot include that file).  Include after shims/io.rs.
// ---------------------------------------------------------------------------------
//@trusted T2 byteorder::BigEndian::write_u32(buf, n) overwrites buf[0..4] with the big-endian encoding of n, panics if buf is shorter than 4 (precondition)
impl BigEndian {
    #[verifier::external_body]
    pub fn write_u32(buf: &mut [u8], n: u32)
        requires old(buf)@.len() >= 4
        ensures final(buf)@ == be32(n) + old(buf)@.skip(4)
    { unimplemented!() }
}
