// ---------------------------------------------------------------------------------
// shims/kdf_sym.rs - registry octets and key sizes of crypto::sym::SymmetricKeyAlgorithm for the
// KDF-layout units (U90..U93).  The including unit must extract the REAL
// `enum SymmetricKeyAlgorithm` (src/crypto/sym.rs) and the REAL `SymmetricKeyAlgorithm::key_size`
// with `ensures r == spec_key_size(self)`: spec_key_size is a model the unit checks against the
// real match table.  Include inside verus!{} after shims/io.rs.
// ---------------------------------------------------------------------------------
//@trusted T2 num_enum IntoPrimitive / FromPrimitive on SymmetricKeyAlgorithm: `u8::from(alg)` / `alg.into()` is the declared discriminant of the variant, resp. the payload of the catch_all variant `Other(x)`; `SymmetricKeyAlgorithm::from(v)` is the variant with discriminant v, else Other(v) (RFC 9580 9.3 registry: 0 plaintext, 1 IDEA, 2 3DES, 3 CAST5, 4 Blowfish, 7/8/9 AES-128/192/256, 10 Twofish, 11/12/13 Camellia-128/192/256)
pub open spec fn sym_octet(s: SymmetricKeyAlgorithm) -> u8 {
    match s {
        SymmetricKeyAlgorithm::Plaintext => 0, SymmetricKeyAlgorithm::IDEA => 1, SymmetricKeyAlgorithm::TripleDES => 2,
        SymmetricKeyAlgorithm::CAST5 => 3, SymmetricKeyAlgorithm::Blowfish => 4, SymmetricKeyAlgorithm::AES128 => 7,
        SymmetricKeyAlgorithm::AES192 => 8, SymmetricKeyAlgorithm::AES256 => 9, SymmetricKeyAlgorithm::Twofish => 10,
        SymmetricKeyAlgorithm::Camellia128 => 11, SymmetricKeyAlgorithm::Camellia192 => 12,
        SymmetricKeyAlgorithm::Camellia256 => 13, SymmetricKeyAlgorithm::Private10 => 110,
        SymmetricKeyAlgorithm::Other(x) => x,
    }
}
pub open spec fn sym_from_octet(v: u8) -> SymmetricKeyAlgorithm {
    if v == 0 { SymmetricKeyAlgorithm::Plaintext } else if v == 1 { SymmetricKeyAlgorithm::IDEA } else if v == 2 { SymmetricKeyAlgorithm::TripleDES }
    else if v == 3 { SymmetricKeyAlgorithm::CAST5 } else if v == 4 { SymmetricKeyAlgorithm::Blowfish } else if v == 7 { SymmetricKeyAlgorithm::AES128 }
    else if v == 8 { SymmetricKeyAlgorithm::AES192 } else if v == 9 { SymmetricKeyAlgorithm::AES256 } else if v == 10 { SymmetricKeyAlgorithm::Twofish }
    else if v == 11 { SymmetricKeyAlgorithm::Camellia128 } else if v == 12 { SymmetricKeyAlgorithm::Camellia192 } else if v == 13 { SymmetricKeyAlgorithm::Camellia256 }
    else if v == 110 { SymmetricKeyAlgorithm::Private10 } else { SymmetricKeyAlgorithm::Other(v) }
}
impl core::convert::From<SymmetricKeyAlgorithm> for u8 {
    #[verifier::external_body]
    fn from(s: SymmetricKeyAlgorithm) -> (r: u8) ensures r == sym_octet(s) { unimplemented!() }
}
impl core::convert::From<u8> for SymmetricKeyAlgorithm {
    #[verifier::external_body]
    fn from(v: u8) -> (r: SymmetricKeyAlgorithm) ensures r == sym_from_octet(v) { unimplemented!() }
}
/// RFC 9580 9.3: key size in octets (0 = no such cipher); model of SymmetricKeyAlgorithm::key_size
pub open spec fn spec_key_size(s: SymmetricKeyAlgorithm) -> nat {
    match s {
        SymmetricKeyAlgorithm::Plaintext => 0, SymmetricKeyAlgorithm::IDEA => 16, SymmetricKeyAlgorithm::TripleDES => 24,
        SymmetricKeyAlgorithm::CAST5 => 16, SymmetricKeyAlgorithm::Blowfish => 16, SymmetricKeyAlgorithm::AES128 => 16,
        SymmetricKeyAlgorithm::AES192 => 24, SymmetricKeyAlgorithm::AES256 => 32, SymmetricKeyAlgorithm::Twofish => 32,
        SymmetricKeyAlgorithm::Camellia128 => 16, SymmetricKeyAlgorithm::Camellia192 => 24,
        SymmetricKeyAlgorithm::Camellia256 => 32,
        SymmetricKeyAlgorithm::Private10 => 0, SymmetricKeyAlgorithm::Other(_) => 0,
    }
}
/// RFC 9580 9.3: block size in octets; model of SymmetricKeyAlgorithm::block_size
pub open spec fn spec_block_size(s: SymmetricKeyAlgorithm) -> nat {
    match s {
        SymmetricKeyAlgorithm::Plaintext => 0, SymmetricKeyAlgorithm::IDEA => 8, SymmetricKeyAlgorithm::TripleDES => 8,
        SymmetricKeyAlgorithm::CAST5 => 8, SymmetricKeyAlgorithm::Blowfish => 8, SymmetricKeyAlgorithm::AES128 => 16,
        SymmetricKeyAlgorithm::AES192 => 16, SymmetricKeyAlgorithm::AES256 => 16, SymmetricKeyAlgorithm::Twofish => 16,
        SymmetricKeyAlgorithm::Camellia128 => 16, SymmetricKeyAlgorithm::Camellia192 => 16,
        SymmetricKeyAlgorithm::Camellia256 => 16,
        SymmetricKeyAlgorithm::Private10 => 0, SymmetricKeyAlgorithm::Other(_) => 0,
    }
}
