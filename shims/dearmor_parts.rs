// ---------------------------------------------------------------------------------
// shims/dearmor_parts.rs - the building blocks of armor::reader::Dearmor that are NOT the subject of the
// state-machine unit (U85): Headers, buffer_redux::{Buffer, BufReader}, base64::{Base64Reader, Base64Decoder},
// the two nom parsers and armor::reader::read_from_buf.  Include after shims/io.rs and shims/nom_iresult.rs,
// and after the definition of `BlockType` (extracted from src/armor/reader.rs).
// ---------------------------------------------------------------------------------

//@trusted T2 armor::Headers (BTreeMap<String, Vec<String>>) is an opaque value here (it is only moved around by the state machine)
#[verifier::external_body]
pub struct Headers { m: std::collections::BTreeMap<String, Vec<String>> }

//@trusted T2 buffer_redux::Buffer is an opaque byte buffer with content view()
#[verifier::external_body]
pub struct Buffer { b: Vec<u8> }
impl View for Buffer { type V = Seq<u8>; uninterp spec fn view(&self) -> Seq<u8>; }

//@trusted T2 buffer_redux::BufReader<R>: window() = the buffered bytes, src() = what the wrapped reader still holds; as io::Read/BufRead (contract of shims/io.rs) its remaining content is window() ++ src(); with_buffer(buf, inner) starts with window() == buf; make_room() only moves the window inside the buffer; buf_len() == |window()|; read_into_buf() performs at most ONE read of the wrapped reader and appends what it got to the window (Ok(0): no room or end of the source), on Err the state is unknown
#[verifier::external_body]
#[verifier::accept_recursive_types(R)]
pub struct BufReader<R> { r: R }
impl<R: io::Read> BufReader<R> {
    pub uninterp spec fn window(&self) -> Seq<u8>;
    pub uninterp spec fn src(&self) -> Seq<u8>;
    #[verifier::external_body]
    pub fn with_buffer(buf: Buffer, inner: R) -> (r: BufReader<R>)
        ensures r.window() == buf@, r.src() == inner.rest()
    { unimplemented!() }
    #[verifier::external_body]
    pub fn make_room(&mut self)
        ensures final(self).window() == old(self).window(), final(self).src() == old(self).src()
    { unimplemented!() }
    #[verifier::external_body]
    pub fn buf_len(&self) -> (r: usize) ensures r == self.window().len() { unimplemented!() }
    #[verifier::external_body]
    pub fn read_into_buf(&mut self) -> (r: io::Result<usize>)
        ensures match r {
            Ok(n) => n <= old(self).src().len()
                && final(self).window() == old(self).window() + old(self).src().subrange(0, n as int)
                && final(self).src() == old(self).src().skip(n as int),
            Err(_) => true,
        }
    { unimplemented!() }
}
impl<R: io::Read> io::Read for BufReader<R> {
    open spec fn rest(&self) -> Seq<u8> { self.window() + self.src() }
    #[verifier::external_body]
    fn read(&mut self, buf: &mut [u8]) -> (r: io::Result<usize>) { unimplemented!() }
}
impl<R: io::Read> io::BufRead for BufReader<R> {
    uninterp spec fn buffered(&self) -> nat;
    #[verifier::external_body]
    proof fn buffered_le_rest(&self) {}
    #[verifier::external_body]
    fn fill_buf(&mut self) -> (r: io::Result<&[u8]>) { unimplemented!() }
    #[verifier::external_body]
    fn consume(&mut self, amt: usize) { unimplemented!() }
}

//@trusted T4 base64::Base64Reader<R> (U81) / base64::Base64Decoder<Base64Reader<R>> (U83): the decoder is some std::io::Read (contract of shims/io.rs) whose remaining content rest() is the decoded body still to come; raw() = what the wrapped armored reader still holds, pending() = filtered characters buffered but not decoded; new() wraps the reader without reading; into_inner_with_buffer()/into_inner() hand back the pending characters and the wrapped reader unchanged.  NOTHING is assumed about how rest() depends on raw() (for malformed base64 it is not a function of it)
#[verifier::external_body]
#[verifier::accept_recursive_types(R)]
pub struct Base64Reader<R> { r: R }
#[verifier::external_body]
#[verifier::accept_recursive_types(R)]
pub struct Base64Decoder<R> { r: R }
impl<R: io::BufRead> Base64Reader<R> {
    pub uninterp spec fn raw(&self) -> Seq<u8>;
    #[verifier::external_body]
    pub fn new(input: R) -> (r: Base64Reader<R>) ensures r.raw() == input.rest() { unimplemented!() }
    #[verifier::external_body]
    pub fn into_inner(self) -> (r: R) ensures r.rest() == self.raw() { unimplemented!() }
}
impl<R: io::BufRead> Base64Decoder<Base64Reader<R>> {
    pub uninterp spec fn raw(&self) -> Seq<u8>;
    pub uninterp spec fn pending(&self) -> Seq<u8>;
    #[verifier::external_body]
    pub fn new(input: Base64Reader<R>) -> (r: Base64Decoder<Base64Reader<R>>)
        ensures r.raw() == input.raw(), r.pending() == Seq::<u8>::empty()
    { unimplemented!() }
    #[verifier::external_body]
    pub fn into_inner_with_buffer(self) -> (r: (Base64Reader<R>, Buffer))
        ensures r.0.raw() == self.raw(), r.1@ == self.pending()
    { unimplemented!() }
}
impl<R: io::BufRead> io::Read for Base64Decoder<Base64Reader<R>> {
    uninterp spec fn rest(&self) -> Seq<u8>;
    #[verifier::external_body]
    fn read(&mut self, buf: &mut [u8]) -> (r: io::Result<usize>) { unimplemented!() }
}

//@trusted T4 the nom parsers armor::reader::{header_parser, footer_parser} are abstract: they may be called on any input and, on Ok, hand back a remaining slice not longer than their input (nom parsers return a suffix of what they were given)
#[verifier::external_body]
pub fn header_parser(i: &[u8]) -> (r: IResult<&[u8], (BlockType, Headers, bool)>)
    ensures r is Ok ==> r->Ok_0.0@.len() <= i@.len()
{ unimplemented!() }
#[verifier::external_body]
pub fn footer_parser(i: &[u8]) -> (r: IResult<&[u8], (Option<u64>, BlockType)>)
    ensures r is Ok ==> r->Ok_0.0@.len() <= i@.len()
{ unimplemented!() }

/// the accumulated octets are a prefix of the stream (as in U48)
pub open spec fn is_prefix(p: Seq<u8>, s: Seq<u8>) -> bool { p.len() <= s.len() && p == s.subrange(0, p.len() as int) }

//@trusted T4 armor::reader::read_from_buf has the contract PROVED for it in U48 (clause U48-ok-position): on Ok the value was produced by `parser` from a prefix x of the stream and the reader stands exactly where the parser stopped; on Err nothing is known about the reader
#[verifier::external_body]
pub fn read_from_buf<B: io::BufRead, T, P>(b: &mut B, ctx: &str, limit: usize, parser: P) -> (r: crate::errors::Result<T>)
    where P: Fn(&[u8]) -> IResult<&[u8], T>,
    requires
        forall|x: &[u8]| #[trigger] parser.requires((x,)),
        forall|x: &[u8], y: IResult<&[u8], T>| #[trigger] parser.ensures((x,), y) && y is Ok ==> y->Ok_0.0@.len() <= x@.len(),
    ensures
        r is Ok ==> exists|x: &[u8], y: IResult<&[u8], T>| #[trigger] parser.ensures((x,), y) && y is Ok && y->Ok_0.1 == r->Ok_0 && is_prefix(x@, old(b).rest()) && y->Ok_0.0@.len() <= x@.len() && (*final(b)).rest() == old(b).rest().skip(x@.len() - y->Ok_0.0@.len()),
{ unimplemented!() }
