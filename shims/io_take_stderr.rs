// ---------------------------------------------------------------------------------
// shims/io_take_stderr.rs - std::io::Take<R> (the adapter returned by std::io::Read::take): shims/io_take.rs PLUS the
// std_err()/intr_budget() vocabulary of shims/io.rs (Take forwards to its inner reader, so it honours std's error contract
// exactly when the inner reader does).  Use INSTEAD of shims/io_take.rs in units that prove something under
// `requires source.std_err()` for a reader built on a Take (U07).  A separate file because shims/io_take.rs is also included
// after shims/io_pkterr.rs, whose Read trait has no std_err().
// Include after shims/io.rs.  `mod io` of shims/io.rs cannot be re-opened, so the type is called
// `IoTake` here; units rewrite the path `io::Take<` to `IoTake<` with a //@sub.
//
// Unlike the generic Read/BufRead contracts (which only speak about rest()), these contracts also say
// what happens to the *inner* reader and to the limit: that is what a caller needs who later takes the
// inner reader back with into_inner().
// ---------------------------------------------------------------------------------
//@trusted T2 std::io::Take<R>: read/fill_buf/consume deliver/drop the next bytes of the inner reader, never more than `limit`, and decrease `limit` by exactly the number of bytes delivered/dropped (the inner reader advances by the same number, fill_buf changes neither); limit()/into_inner()/get_mut() are plain accessors; Read::take(self, n) wraps self with limit n; Take only forwards to the inner reader, so it honours std's error contract whenever the inner reader does (std_err()/intr_budget() are the inner reader's) and an Err of read/fill_buf then leaves limit and inner reader alone
pub struct IoTake<R> {
    pub inner: R,
    pub limit: u64,
}

pub open spec fn take_len(limit: u64, avail: nat) -> nat { if (limit as nat) <= avail { limit as nat } else { avail } }

impl<R: io::Read> io::Read for IoTake<R> {
    open spec fn rest(&self) -> Seq<u8> {
        self.inner.rest().subrange(0, take_len(self.limit, self.inner.rest().len()) as int)
    }
    open spec fn std_err(&self) -> bool { self.inner.std_err() }
    open spec fn intr_budget(&self) -> nat { self.inner.intr_budget() }
    #[verifier::external_body]
    fn read(&mut self, buf: &mut [u8]) -> (r: io::Result<usize>)
        ensures
            match r {
                Ok(n) => n <= old(self).limit && final(self).limit == old(self).limit - n
                    && final(self).inner.rest() == old(self).inner.rest().skip(n as int),
                Err(_) => old(self).inner.std_err() ==> final(self).limit == old(self).limit && final(self).inner.rest() == old(self).inner.rest(),
            }
    { unimplemented!() }
}

impl<R: io::BufRead> io::BufRead for IoTake<R> {
    open spec fn buffered(&self) -> nat { take_len(self.limit, self.inner.buffered()) }
    proof fn buffered_le_rest(&self) { self.inner.buffered_le_rest(); }
    #[verifier::external_body]
    fn fill_buf(&mut self) -> (r: io::Result<&[u8]>)
        ensures
            match r {
                Ok(b) => final(self).limit == old(self).limit && final(self).inner.rest() == old(self).inner.rest(),
                Err(_) => old(self).inner.std_err() ==> final(self).limit == old(self).limit && final(self).inner.rest() == old(self).inner.rest()
                    && final(self).inner.buffered() == old(self).inner.buffered(),
            }
    { unimplemented!() }
    #[verifier::external_body]
    fn consume(&mut self, amt: usize)
        ensures
            final(self).limit == old(self).limit - amt,
            final(self).inner.rest() == old(self).inner.rest().skip(amt as int),
    { unimplemented!() }
}

impl<R> IoTake<R> {
    #[verifier::external_body]
    pub fn limit(&self) -> (r: u64) ensures r == self.limit { unimplemented!() }
    #[verifier::external_body]
    pub fn into_inner(self) -> (r: R) ensures r == self.inner { unimplemented!() }
}

pub trait ReadTakeExt: io::Read + Sized {
    fn take(self, limit: u64) -> (r: IoTake<Self>)
        ensures r.inner == self, r.limit == limit;
}
impl<R: io::Read> ReadTakeExt for R {
    #[verifier::external_body]
    fn take(self, limit: u64) -> (r: IoTake<Self>) { unimplemented!() }
}
