// ---------------------------------------------------------------------------------
// shims/cow.rs - std::borrow::Cow for byte slices and str.
// ---------------------------------------------------------------------------------
//@trusted T2 std::borrow::Cow<B> is Borrowed(&B) | Owned(<B as ToOwned>::Owned) with Owned = Vec<u8> for [u8] and String for str; dereferencing either variant of a Cow<[u8]> yields its bytes
pub trait ToOwnedShim { type Owned; }
impl ToOwnedShim for [u8] { type Owned = Vec<u8>; }
impl ToOwnedShim for str { type Owned = String; }

pub enum Cow<'a, B: ?Sized + ToOwnedShim + 'a> { Borrowed(&'a B), Owned(<B as ToOwnedShim>::Owned) }

impl<'a> Cow<'a, [u8]> {
    /// the bytes the Cow stands for
    pub open spec fn bytes(&self) -> Seq<u8> {
        match self { Cow::Borrowed(b) => b@, Cow::Owned(v) => v@ }
    }
}

impl<'a> Cow<'a, str> {
    /// the text the Cow stands for
    pub open spec fn chars(&self) -> Seq<char> {
        match self { Cow::Borrowed(b) => b@, Cow::Owned(v) => v@ }
    }
}

impl<'a> core::ops::Deref for Cow<'a, [u8]> {
    type Target = [u8];
    fn deref(&self) -> (r: &[u8])
        ensures r@ == self.bytes()
    {
        match self { Cow::Borrowed(b) => b, Cow::Owned(v) => v.as_slice() }
    }
}
