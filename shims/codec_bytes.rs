// ---------------------------------------------------------------------------------
// shims/codec_bytes.rs - the few bytes::Bytes / Vec items the codec units need and shims/bytes.rs
// does not state.  Include after shims/bytes.rs.
// ---------------------------------------------------------------------------------
//@trusted T2 bytes::Bytes::split_off(at) keeps [0, at) in self and returns [at, len) (panics if at > len: a precondition); Bytes::from(Vec<u8>) / Vec<u8>.into() keeps the content; indexing a Bytes is indexing its octets
impl Bytes {
    #[verifier::external_body]
    pub fn split_off(&mut self, at: usize) -> (r: Bytes)
        requires at <= old(self)@.len()
        ensures final(self)@ == old(self)@.subrange(0, at as int), r@ == old(self)@.skip(at as int)
    { unimplemented!() }
}
impl core::convert::From<Vec<u8>> for Bytes {
    #[verifier::external_body]
    fn from(v: Vec<u8>) -> (r: Bytes) ensures r@ == v@ { unimplemented!() }
}
//@trusted T2 <[T; N] as AsRef<[T]>>::as_ref is the slice of all elements of the array
pub assume_specification<T, const N: usize>[ <[T; N] as core::convert::AsRef<[T]>>::as_ref ](a: &[T; N]) -> (r: &[T])
    ensures r@ == a@;
