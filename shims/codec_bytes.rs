// ---------------------------------------------------------------------------------
// shims/codec_bytes.rs - the few bytes::Bytes / Vec items the codec units need and shims/bytes.rs
// does not state.  Include after shims/bytes.rs.
// ---------------------------------------------------------------------------------
//@trusted T2 bytes::Bytes::split_off(at) keeps [0, at) in self and returns [at, len) (panics if at > len: a precondition); Bytes::from(Vec<u8>) / Vec<u8>.into() keeps the content; indexing a Bytes is indexing its octets
impl Bytes {
    #[verifier::external_body]
    pub fn split_off(&mut self, at: usize) -> (r: Bytes)
        requires at <= old(self)@.len()
        ensures final(self)@ == old(self)@.subrange(0, at as int), r@ == old(self)@.skip(at as int)
    { unimplemented!() }
}
impl core::convert::From<Vec<u8>> for Bytes {
    #[verifier::external_body]
    fn from(v: Vec<u8>) -> (r: Bytes) ensures r@ == v@ { unimplemented!() }
}
//@trusted T2 <[T; N] as AsRef<[T]>>::as_ref is the slice of all elements of the array
pub assume_specification<T, const N: usize>[ <[T; N] as core::convert::AsRef<[T]>>::as_ref ](a: &[T; N]) -> (r: &[T])
    ensures r@ == a@;
//@trusted T2 <BytesMut as AsRef<[u8]>>::as_ref is the content (as an inherent method: method-call syntax resolves to it)
impl BytesMut {
    #[verifier::external_body]
    pub fn as_ref(&self) -> (r: &[u8]) ensures r@ == self@ { unimplemented!() }
}
//@trusted T2 <&[u8] as TryInto<[u8; N]>>::try_into succeeds exactly for slices of length N and copies the octets (Verus cannot attach a spec to the std impl; units call it through the shim method try_into_shim)
pub trait TryIntoArrShim {
    fn try_into_shim<const N: usize>(&self) -> (r: core::result::Result<[u8; N], ()>);
}
impl TryIntoArrShim for [u8] {
    #[verifier::external_body]
    fn try_into_shim<const N: usize>(&self) -> (r: core::result::Result<[u8; N], ()>)
        ensures (r is Ok) == (self@.len() == N), r is Ok ==> r->Ok_0@ == self@
    { unimplemented!() }
}
//@trusted T2 bytes::BytesMut derefs to the byte slice of its content
impl core::ops::Deref for BytesMut {
    type Target = [u8];
    #[verifier::external_body]
    fn deref(&self) -> (r: &[u8])
        ensures r@ == self@
    { unimplemented!() }
}
//@trusted T2 <[u8]>::to_vec through BytesMut's Deref: a vector with the same octets (inherent method: method-call syntax resolves to it)
impl BytesMut {
    #[verifier::external_body]
    pub fn to_vec(&self) -> (r: Vec<u8>) ensures r@ == self@ { unimplemented!() }
}
