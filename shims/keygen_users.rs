// ---------------------------------------------------------------------------------
// shims/keygen_users.rs - User IDs / User Attributes as the key-generation units (U95c, U95d) see them.
// Include after shims/keygen_sign_callees.rs inside verus!{}.
// ---------------------------------------------------------------------------------
//@trusted T7 packet::UserId / UserAttribute are opaque serialisable values; tag() is the tag of the packet header (PacketTrait); into_signed(sig) = SignedUser { id, signatures: [sig] } (user_id.rs:169); UserAttribute::sign(rng, key, pub_key, pw) (user_attribute.rs:240, a CertPositive third-party certification by `key` over (pub_key, attribute)) = Ok(s) is abstracted as attribute_signed(s, attribute, signer fingerprint, key serialisation)
#[verifier::external_body] pub struct UserId { v: u8 }
#[verifier::external_body] pub struct UserAttribute { v: u8 }
#[verifier::external_body] pub struct SignedUserAttribute { v: u8 }
pub struct SignedUser { pub id: UserId, pub signatures: Vec<Signature> }
impl Serialize for UserId { uninterp spec fn ser(&self) -> Seq<u8>; #[verifier::external_body] fn write_len(&self) -> (r: usize) { unimplemented!() } }
impl Serialize for UserAttribute { uninterp spec fn ser(&self) -> Seq<u8>; #[verifier::external_body] fn write_len(&self) -> (r: usize) { unimplemented!() } }
pub uninterp spec fn attribute_signed(s: SignedUserAttribute, a: UserAttribute, signer: Fingerprint, key: Seq<u8>) -> bool;
impl UserId {
    pub uninterp spec fn spec_tag(&self) -> Tag;
    #[verifier::external_body] pub fn tag(&self) -> (r: Tag) ensures r == self.spec_tag() { unimplemented!() }
    #[verifier::external_body]
    pub fn into_signed(self, sig: Signature) -> (r: SignedUser) ensures r.id == self, r.signatures@ == seq![sig] { unimplemented!() }
}
impl UserAttribute {
    #[verifier::external_body]
    pub fn sign<R, P, K>(&self, rng: R, signer_sec_key: &P, signer_pub_key: &K, key_pw: &Password) -> (r: errors::Result<SignedUserAttribute>)
        where R: CryptoRng + Rng, P: SigningKey, K: types::KeyDetails + Serialize
        ensures r matches Ok(s) ==> attribute_signed(s, *self, signer_sec_key.spec_fingerprint(), signer_pub_key.ser())
    { unimplemented!() }
}
