// ---------------------------------------------------------------------------------
// shims/keygen_scalars.rs - what unit U95a (fixed-size scalars vs. MPIs) assumes about code that is not its subject.
// Include after shims/io.rs inside verus!{}.
// ---------------------------------------------------------------------------------

//@trusted T4 Mpi (src/types/mpi.rs, contracts PROVED in U15) is an owned octet string mv(): the magnitude as stored/parsed (Mpi::from_slice / try_from_reader strip leading zero octets); as_ref() and len() observe it
#[verifier::external_body] pub struct Mpi { v: Vec<u8> }
impl Mpi {
    pub uninterp spec fn mv(&self) -> Seq<u8>;
    #[verifier::external_body]
    pub fn as_ref(&self) -> (r: &[u8]) ensures r@ == self.mv() { unimplemented!() }
    #[verifier::external_body]
    pub fn len(&self) -> (r: usize) ensures r == self.mv().len() { unimplemented!() }
    #[verifier::external_body]
    pub fn is_empty(&self) -> (r: bool) ensures r == (self.mv().len() == 0) { unimplemented!() }
}

//@trusted T7 HashAlgorithm is an opaque Copy value; digest_size() is a pure function of it (spec_digest_size; its table is not this unit's subject)
#[verifier::external_body] #[derive(Clone, Copy)] pub struct HashAlgorithm { v: u8 }
impl HashAlgorithm {
    pub uninterp spec fn spec_digest_size(&self) -> Option<usize>;
    #[verifier::external_body]
    pub fn digest_size(&self) -> (r: Option<usize>) ensures r == self.spec_digest_size() { unimplemented!() }
}

//@trusted T5 the public-key primitives are uninterpreted verdicts of exactly the values they are given: crypto::ed25519::verify(key, hash, hashed, sig_bytes) is Ok iff accepts(key, hash, hashed, sig_bytes) (it checks the hash strength, needs |sig_bytes| == 64 and asks ed25519_dalek; src/crypto/ed25519.rs:173); <curve>::ecdsa::Signature::try_from(bytes) is Ok(sig) only for |bytes| == 2 * field size and then sig carries exactly these octets; VerifyingKey::from_affine(key.as_affine().to_owned()) is the verifying key of that public key; verify_prehash(hashed, sig) is Ok iff ec_accepts(key, hashed, sig octets).  Nothing is assumed about WHICH values are accepted
pub mod ed25519_dalek {
    #[allow(unused_imports)] use super::*;
    #[verifier::external_body] pub struct VerifyingKey { v: u8 }
}
pub mod crypto {
    #[allow(unused_imports)] use super::*;
    pub mod ed25519 {
        #[allow(unused_imports)] use super::super::*;
        pub uninterp spec fn accepts(key: ed25519_dalek::VerifyingKey, hash: HashAlgorithm, hashed: Seq<u8>, sig: Seq<u8>) -> bool;
        #[verifier::external_body]
        pub fn verify(key: &ed25519_dalek::VerifyingKey, hash: HashAlgorithm, hashed: &[u8], sig_bytes: &[u8]) -> (r: errors::Result<()>)
            ensures (r is Ok) == accepts(*key, hash, hashed@, sig_bytes@)
        { unimplemented!() }
    }
}

/// error of the elliptic-curve crates (only its occurrence is modelled)
#[verifier::external_body] pub struct EcError { v: u8 }
impl core::convert::From<EcError> for errors::Error {
    #[verifier::external_body]
    fn from(e: EcError) -> (r: errors::Error) { unimplemented!() }
}
/// verdict of the ECDSA primitive of curve `c` (0 = P-256, 1 = P-384, 2 = P-521, 3 = secp256k1) for a public key, a prehash and the fixed-size r ++ s
pub uninterp spec fn ec_accepts(c: int, key: EcPublicKey, hashed: Seq<u8>, sig: Seq<u8>) -> bool;
#[verifier::external_body] pub struct EcPublicKey { v: u8 }
#[verifier::external_body] pub struct EcAffine { v: u8 }
impl EcPublicKey {
    pub uninterp spec fn curve(&self) -> int;
    #[verifier::external_body]
    pub fn as_affine(&self) -> (r: &EcAffine) ensures r.of() == *self { unimplemented!() }
}
impl EcAffine {
    pub uninterp spec fn of(&self) -> EcPublicKey;
    #[verifier::external_body]
    pub fn to_owned(&self) -> (r: EcAffine) ensures r.of() == self.of() { unimplemented!() }
}
#[verifier::external_body] pub struct EcSignature { v: u8 }
impl EcSignature {
    pub uninterp spec fn octets(&self) -> Seq<u8>;
}
#[verifier::external_body] pub struct EcVerifyingKey { v: u8 }
impl EcVerifyingKey {
    pub uninterp spec fn of(&self) -> EcPublicKey;
    pub uninterp spec fn curve(&self) -> int;
    #[verifier::external_body]
    pub fn verify_prehash(&self, hashed: &[u8], sig: &EcSignature) -> (r: core::result::Result<(), EcError>)
        ensures (r is Ok) == ec_accepts(self.curve(), self.of(), hashed@, sig.octets())
    { unimplemented!() }
}
pub mod p256 {
    #[allow(unused_imports)] use super::*;
    pub type PublicKey = EcPublicKey;
    pub mod ecdsa {
        #[allow(unused_imports)] use super::super::*;
        pub struct Signature;
        pub struct VerifyingKey;
        impl Signature {
            #[verifier::external_body]
            pub fn try_from(bytes: &[u8]) -> (r: core::result::Result<EcSignature, EcError>)
                ensures r matches Ok(s) ==> bytes@.len() == 2 * 32 && s.octets() == bytes@
            { unimplemented!() }
        }
        impl VerifyingKey {
            #[verifier::external_body]
            pub fn from_affine(a: EcAffine) -> (r: core::result::Result<EcVerifyingKey, EcError>)
                ensures r matches Ok(k) ==> k.of() == a.of() && k.curve() == 0
            { unimplemented!() }
        }
    }
}
pub mod p384 {
    #[allow(unused_imports)] use super::*;
    pub type PublicKey = EcPublicKey;
    pub mod ecdsa {
        #[allow(unused_imports)] use super::super::*;
        pub struct Signature;
        pub struct VerifyingKey;
        impl Signature {
            #[verifier::external_body]
            pub fn try_from(bytes: &[u8]) -> (r: core::result::Result<EcSignature, EcError>)
                ensures r matches Ok(s) ==> bytes@.len() == 2 * 48 && s.octets() == bytes@
            { unimplemented!() }
        }
        impl VerifyingKey {
            #[verifier::external_body]
            pub fn from_affine(a: EcAffine) -> (r: core::result::Result<EcVerifyingKey, EcError>)
                ensures r matches Ok(k) ==> k.of() == a.of() && k.curve() == 1
            { unimplemented!() }
        }
    }
}
pub mod p521 {
    #[allow(unused_imports)] use super::*;
    pub type PublicKey = EcPublicKey;
    pub mod ecdsa {
        #[allow(unused_imports)] use super::super::*;
        pub struct Signature;
        pub struct VerifyingKey;
        impl Signature {
            #[verifier::external_body]
            pub fn try_from(bytes: &[u8]) -> (r: core::result::Result<EcSignature, EcError>)
                ensures r matches Ok(s) ==> bytes@.len() == 2 * 66 && s.octets() == bytes@
            { unimplemented!() }
        }
        impl VerifyingKey {
            #[verifier::external_body]
            pub fn from_affine(a: EcAffine) -> (r: core::result::Result<EcVerifyingKey, EcError>)
                ensures r matches Ok(k) ==> k.of() == a.of() && k.curve() == 2
            { unimplemented!() }
        }
    }
}
pub mod k256 {
    #[allow(unused_imports)] use super::*;
    pub type PublicKey = EcPublicKey;
    pub mod ecdsa {
        #[allow(unused_imports)] use super::super::*;
        pub struct Signature;
        pub struct VerifyingKey;
        impl Signature {
            #[verifier::external_body]
            pub fn try_from(bytes: &[u8]) -> (r: core::result::Result<EcSignature, EcError>)
                ensures r matches Ok(s) ==> bytes@.len() == 2 * 32 && s.octets() == bytes@
            { unimplemented!() }
        }
        impl VerifyingKey {
            #[verifier::external_body]
            pub fn from_affine(a: EcAffine) -> (r: core::result::Result<EcVerifyingKey, EcError>)
                ensures r matches Ok(k) ==> k.of() == a.of() && k.curve() == 3
            { unimplemented!() }
        }
    }
}
