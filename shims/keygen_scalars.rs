// ---------------------------------------------------------------------------------
// shims/keygen_scalars.rs - what unit U95a (fixed-size scalars vs. MPIs) assumes about code that is not its subject.
// Include after shims/io.rs inside verus!{}.
// ---------------------------------------------------------------------------------

//@trusted T4 Mpi (src/types/mpi.rs, contracts PROVED in U15) is an owned octet string mv(): the magnitude as stored/parsed (Mpi::from_slice / try_from_reader strip leading zero octets); as_ref() and len() observe it
#[verifier::external_body] pub struct Mpi { v: Vec<u8> }
impl Mpi {
    pub uninterp spec fn mv(&self) -> Seq<u8>;
    #[verifier::external_body]
    pub fn as_ref(&self) -> (r: &[u8]) ensures r@ == self.mv() { unimplemented!() }
    #[verifier::external_body]
    pub fn len(&self) -> (r: usize) ensures r == self.mv().len() { unimplemented!() }
    #[verifier::external_body]
    pub fn is_empty(&self) -> (r: bool) ensures r == (self.mv().len() == 0) { unimplemented!() }
}

//@trusted T7 HashAlgorithm is an opaque Copy value; digest_size() is a pure function of it (spec_digest_size; its table is not this unit's subject)
#[verifier::external_body] #[derive(Clone, Copy)] pub struct HashAlgorithm { v: u8 }
impl HashAlgorithm {
    pub uninterp spec fn spec_digest_size(&self) -> Option<usize>;
    #[verifier::external_body]
    pub fn digest_size(&self) -> (r: Option<usize>) ensures r == self.spec_digest_size() { unimplemented!() }
}

//@trusted T5 the public-key primitives are uninterpreted verdicts of exactly the values they are given: crypto::ed25519::verify(key, hash, hashed, sig_bytes) is Ok iff accepts(key, hash, hashed, sig_bytes) (it checks the hash strength, needs |sig_bytes| == 64 and asks ed25519_dalek; src/crypto/ed25519.rs:173); <curve>::ecdsa::Signature::try_from(bytes) is Ok(sig) only for |bytes| == 2 * field size and then sig carries exactly these octets; VerifyingKey::from_affine(key.as_affine().to_owned()) is the verifying key of that public key; verify_prehash(hashed, sig) is Ok iff ec_accepts(key, hashed, sig octets).  Nothing is assumed about WHICH values are accepted
pub mod ed25519_dalek {
    #[allow(unused_imports)] use super::*;
    #[verifier::external_body] pub struct VerifyingKey { v: u8 }
}
pub mod crypto {
    #[allow(unused_imports)] use super::*;
    pub mod ed25519 {
        #[allow(unused_imports)] use super::super::*;
        pub uninterp spec fn accepts(key: ed25519_dalek::VerifyingKey, hash: HashAlgorithm, hashed: Seq<u8>, sig: Seq<u8>) -> bool;
        #[verifier::external_body]
        pub fn verify(key: &ed25519_dalek::VerifyingKey, hash: HashAlgorithm, hashed: &[u8], sig_bytes: &[u8]) -> (r: errors::Result<()>)
            ensures (r is Ok) == accepts(*key, hash, hashed@, sig_bytes@)
        { unimplemented!() }
    }
}

/// error of the elliptic-curve crates (only its occurrence is modelled)
#[verifier::external_body] pub struct EcError { v: u8 }
impl core::convert::From<EcError> for errors::Error {
    #[verifier::external_body]
    fn from(e: EcError) -> (r: errors::Error) { unimplemented!() }
}
/// verdict of the ECDSA primitive of curve `c` (0 = P-256, 1 = P-384, 2 = P-521, 3 = secp256k1) for a public key, a prehash and the fixed-size r ++ s
pub uninterp spec fn ec_accepts(c: int, key: EcPublicKey, hashed: Seq<u8>, sig: Seq<u8>) -> bool;
#[verifier::external_body] pub struct EcPublicKey { v: u8 }
#[verifier::external_body] pub struct EcAffine { v: u8 }
impl EcPublicKey {
    pub uninterp spec fn curve(&self) -> int;
    #[verifier::external_body]
    pub fn as_affine(&self) -> (r: &EcAffine) ensures r.of() == *self { unimplemented!() }
}
impl EcAffine {
    pub uninterp spec fn of(&self) -> EcPublicKey;
    #[verifier::external_body]
    pub fn to_owned(&self) -> (r: EcAffine) ensures r.of() == self.of() { unimplemented!() }
}
#[verifier::external_body] pub struct EcSignature { v: u8 }
impl EcSignature {
    pub uninterp spec fn octets(&self) -> Seq<u8>;
}
#[verifier::external_body] pub struct EcVerifyingKey { v: u8 }
impl EcVerifyingKey {
    pub uninterp spec fn of(&self) -> EcPublicKey;
    pub uninterp spec fn curve(&self) -> int;
    #[verifier::external_body]
    pub fn verify_prehash(&self, hashed: &[u8], sig: &EcSignature) -> (r: core::result::Result<(), EcError>)
        ensures (r is Ok) == ec_accepts(self.curve(), self.of(), hashed@, sig.octets())
    { unimplemented!() }
}
pub mod p256 {
    #[allow(unused_imports)] use super::*;
    pub type PublicKey = EcPublicKey;
    #[verifier::external_body] pub struct SecretKey { v: u8 }
    impl SecretKey {
        /// the secret scalar as the curve's fixed-size big-endian field element
        pub uninterp spec fn octets(&self) -> Seq<u8>;
        #[verifier::external_body]
        pub fn from_slice(slice: &[u8]) -> (r: core::result::Result<SecretKey, EcError>)
            ensures
                (r is Ok) == ((slice@.len() == 32 || 24 <= slice@.len() < 32) && ec_valid_scalar(0, lpad(slice@, 32))),
                r matches Ok(k) ==> k.octets() == lpad(slice@, 32),
        { unimplemented!() }
    }
    pub mod ecdsa {
        #[allow(unused_imports)] use super::super::*;
        pub struct Signature;
        pub struct VerifyingKey;
        impl Signature {
            #[verifier::external_body]
            pub fn try_from(bytes: &[u8]) -> (r: core::result::Result<EcSignature, EcError>)
                ensures r matches Ok(s) ==> bytes@.len() == 2 * 32 && s.octets() == bytes@
            { unimplemented!() }
        }
        impl VerifyingKey {
            #[verifier::external_body]
            pub fn from_affine(a: EcAffine) -> (r: core::result::Result<EcVerifyingKey, EcError>)
                ensures r matches Ok(k) ==> k.of() == a.of() && k.curve() == 0
            { unimplemented!() }
        }
    }
}
pub mod p384 {
    #[allow(unused_imports)] use super::*;
    pub type PublicKey = EcPublicKey;
    #[verifier::external_body] pub struct SecretKey { v: u8 }
    impl SecretKey {
        /// the secret scalar as the curve's fixed-size big-endian field element
        pub uninterp spec fn octets(&self) -> Seq<u8>;
        #[verifier::external_body]
        pub fn from_slice(slice: &[u8]) -> (r: core::result::Result<SecretKey, EcError>)
            ensures
                (r is Ok) == ((slice@.len() == 48 || 24 <= slice@.len() < 48) && ec_valid_scalar(1, lpad(slice@, 48))),
                r matches Ok(k) ==> k.octets() == lpad(slice@, 48),
        { unimplemented!() }
    }
    pub mod ecdsa {
        #[allow(unused_imports)] use super::super::*;
        pub struct Signature;
        pub struct VerifyingKey;
        impl Signature {
            #[verifier::external_body]
            pub fn try_from(bytes: &[u8]) -> (r: core::result::Result<EcSignature, EcError>)
                ensures r matches Ok(s) ==> bytes@.len() == 2 * 48 && s.octets() == bytes@
            { unimplemented!() }
        }
        impl VerifyingKey {
            #[verifier::external_body]
            pub fn from_affine(a: EcAffine) -> (r: core::result::Result<EcVerifyingKey, EcError>)
                ensures r matches Ok(k) ==> k.of() == a.of() && k.curve() == 1
            { unimplemented!() }
        }
    }
}
pub mod p521 {
    #[allow(unused_imports)] use super::*;
    pub type PublicKey = EcPublicKey;
    #[verifier::external_body] pub struct SecretKey { v: u8 }
    impl SecretKey {
        /// the secret scalar as the curve's fixed-size big-endian field element
        pub uninterp spec fn octets(&self) -> Seq<u8>;
        #[verifier::external_body]
        pub fn from_slice(slice: &[u8]) -> (r: core::result::Result<SecretKey, EcError>)
            ensures
                (r is Ok) == ((slice@.len() == 66 || 24 <= slice@.len() < 66) && ec_valid_scalar(2, lpad(slice@, 66))),
                r matches Ok(k) ==> k.octets() == lpad(slice@, 66),
        { unimplemented!() }
    }
    pub mod ecdsa {
        #[allow(unused_imports)] use super::super::*;
        pub struct Signature;
        pub struct VerifyingKey;
        impl Signature {
            #[verifier::external_body]
            pub fn try_from(bytes: &[u8]) -> (r: core::result::Result<EcSignature, EcError>)
                ensures r matches Ok(s) ==> bytes@.len() == 2 * 66 && s.octets() == bytes@
            { unimplemented!() }
        }
        impl VerifyingKey {
            #[verifier::external_body]
            pub fn from_affine(a: EcAffine) -> (r: core::result::Result<EcVerifyingKey, EcError>)
                ensures r matches Ok(k) ==> k.of() == a.of() && k.curve() == 2
            { unimplemented!() }
        }
    }
}
pub mod k256 {
    #[allow(unused_imports)] use super::*;
    pub type PublicKey = EcPublicKey;
    #[verifier::external_body] pub struct SecretKey { v: u8 }
    impl SecretKey {
        /// the secret scalar as the curve's fixed-size big-endian field element
        pub uninterp spec fn octets(&self) -> Seq<u8>;
        #[verifier::external_body]
        pub fn from_slice(slice: &[u8]) -> (r: core::result::Result<SecretKey, EcError>)
            ensures
                (r is Ok) == ((slice@.len() == 32 || 24 <= slice@.len() < 32) && ec_valid_scalar(3, lpad(slice@, 32))),
                r matches Ok(k) ==> k.octets() == lpad(slice@, 32),
        { unimplemented!() }
    }
    pub mod ecdsa {
        #[allow(unused_imports)] use super::super::*;
        pub struct Signature;
        pub struct VerifyingKey;
        impl Signature {
            #[verifier::external_body]
            pub fn try_from(bytes: &[u8]) -> (r: core::result::Result<EcSignature, EcError>)
                ensures r matches Ok(s) ==> bytes@.len() == 2 * 32 && s.octets() == bytes@
            { unimplemented!() }
        }
        impl VerifyingKey {
            #[verifier::external_body]
            pub fn from_affine(a: EcAffine) -> (r: core::result::Result<EcVerifyingKey, EcError>)
                ensures r matches Ok(k) ==> k.of() == a.of() && k.curve() == 3
            { unimplemented!() }
        }
    }
}

//@trusted T7 const_oid::ObjectIdentifier and bytes::Bytes are opaque values here (only carried in the Unknown / Unsupported variants)
#[verifier::external_body] pub struct ObjectIdentifier { v: u8 }
#[verifier::external_body] pub struct Bytes { v: Vec<u8> }

//@trusted T5 elliptic_curve::SecretKey::<C>::from_slice (elliptic-curve 0.13.8, src/secret_key.rs:161, read there): Ok exactly for a slice of the field size, or of MIN_SIZE = 24 .. field size - 1 octets which it left-pads with zeros, whose value is a valid scalar of the curve (ec_valid_scalar: non-zero and below the group order - uninterpreted); the key holds that padded value
pub uninterp spec fn ec_valid_scalar(c: int, octets: Seq<u8>) -> bool;

//@trusted T5 x25519_dalek::StaticSecret::from([u8; 32]) stores the 32 octets as given (little-endian scalar, clamped only when used); T2 `s.iter().rev().copied().collect::<Vec<u8>>()` is the reversed octet string
pub mod x25519_dalek {
    #[allow(unused_imports)] use super::*;
    #[verifier::external_body] pub struct StaticSecret { v: u8 }
    impl StaticSecret {
        pub uninterp spec fn octets(&self) -> Seq<u8>;
        #[verifier::external_body]
        pub fn from(raw: [u8; 32]) -> (r: StaticSecret) ensures r.octets() == raw@ { unimplemented!() }
    }
}
pub use x25519_dalek::StaticSecret;
pub fn slice_rev_collect(s: &[u8]) -> (r: Vec<u8>)
    ensures r@ == s@.reverse()
{
    let mut out: Vec<u8> = Vec::new();
    let mut i: usize = s.len();
    while i > 0
        invariant i <= s@.len(), out@.len() == s@.len() - i, forall|j: int| 0 <= j < out@.len() ==> out@[j] == s@[s@.len() - 1 - j],
        decreases i
    {
        i -= 1;
        out.push(s[i]);
    }
    proof { assert(out@ =~= s@.reverse()); }
    out
}
pub fn slice_fwd_collect(s: &[u8]) -> (r: Vec<u8>)
    ensures r@ == s@
{
    let mut out: Vec<u8> = Vec::new();
    let mut i: usize = 0;
    while i < s.len()
        invariant i <= s@.len(), out@ == s@.subrange(0, i as int),
        decreases s@.len() - i
    {
        out.push(s[i]);
        proof { assert(s@.subrange(0, i as int).push(s@[i as int]) =~= s@.subrange(0, i + 1)); }
        i += 1;
    }
    proof { assert(s@.subrange(0, s@.len() as int) =~= s@); }
    out
}
//@trusted T2 <[T]>::to_vec returns a vector of element-wise clones (for u8: the same bytes)
pub assume_specification<T: Clone>[<[T]>::to_vec](s: &[T]) -> (r: Vec<T>)
    ensures r@.len() == s@.len(), forall|i: int| 0 <= i < s@.len() ==> cloned::<T>(s@[i], #[trigger] r@[i]);
//@trusted T2 BytesMut::from(&[u8]) copies the octets
#[verifier::external_body] pub struct BytesMut { v: Vec<u8> }
impl BytesMut {
    pub uninterp spec fn view(&self) -> Seq<u8>;
    #[verifier::external_body]
    pub fn from(s: &[u8]) -> (r: BytesMut) ensures r.view() == s@ { unimplemented!() }
}
impl Clone for ECCCurve {
    #[verifier::external_body]
    fn clone(&self) -> (r: ECCCurve) ensures r == *self { unimplemented!() }
}

//@trusted T7 EcdhPublicParams (types/params/public/ecdh.rs:62) is re-declared with all its variants and opaque payloads (only the variant matters to the secret-key readers)
#[verifier::external_body] pub struct EcdhPayload { v: u8 }
pub enum EcdhPublicParams {
    Curve25519Legacy { p: EcdhPayload }, P256 { p: EcdhPayload }, P384 { p: EcdhPayload }, P521 { p: EcdhPayload },
    Brainpool256 { p: EcdhPayload }, Brainpool384 { p: EcdhPayload }, Brainpool512 { p: EcdhPayload }, Unsupported { p: EcdhPayload },
}
