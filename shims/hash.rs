// ---------------------------------------------------------------------------------
// shims/hash.rs - std::hash::Hasher as a ghost byte accumulator.
// ---------------------------------------------------------------------------------
//@trusted T2 std::hash::Hasher::write(bytes) feeds exactly `bytes` to the hasher: modelled as appending to a ghost accumulator seen(); the hash value (finish()) is an uninterpreted function of seen()
pub mod hash {
    use super::*;
    pub trait Hasher {
        spec fn seen(&self) -> Seq<u8>;
        fn write(&mut self, bytes: &[u8])
            ensures final(self).seen() == old(self).seen() + bytes@;
    }
}
