// ---------------------------------------------------------------------------------
// shims/packet_parser_ref.rs - PacketParser::{new, next_ref} (src/packet/many.rs), PacketBodyReader::packet_header and
// std's default Read::read_to_end on a PacketBodyReader<&mut R0>, as *assumed* contracts for units whose
// subject merely calls them (U49 check_trailing_data).
// The unit extracts `struct PacketParser` verbatim (Verus must see where the reader lives to resolve the borrow
// handed out by next_ref).  Include after shims/packet_body_reader_ref.rs, shims/packet_parsers.rs and the
// extracted struct.
// ---------------------------------------------------------------------------------
//@trusted T4 PacketParser::{new, next_ref}: contracts copied from the ensures PROVED on the real code in units/U46_packet_many.vu
impl<R: io::BufRead> PacketParser<R> {
    pub closed spec fn done(&self) -> bool { self.is_done }
    /// what the underlying reader still holds
    pub closed spec fn stream(&self) -> Seq<u8> { self.reader.rest() }

    #[verifier::external_body]
    pub fn new(source: R) -> (r: PacketParser<R>)
        ensures !r.done(), r.stream() == source.rest()
    { unimplemented!() }

    #[verifier::external_body]
    pub fn next_ref(&mut self) -> (r: Option<errors::Result<PacketBodyReader<&'_ mut R>>>)
        ensures
            old(self).done() ==> final(self).done(),
            final(self).done() && !old(self).done() ==> r is Some && r->Some_0 is Err,
            old(self).done() ==> r is None && final(self).stream() == old(self).stream(),
            r is None && !old(self).done() ==> !final(self).done() && hdr_err(old(self).stream(), io::ErrorKind::UnexpectedEof),
            r is Some && r->Some_0 is Ok ==> ({
                let p = r->Some_0->Ok_0;
                let s = old(self).stream();
                &&& dec_hdr(s) is Some && dec_hdr(s)->Some_0.0 == p.header().hv()
                &&& first_len_legal(hdr_tag(p.header().hv()), hdr_len(p.header().hv()))
                &&& p.framing() == body_framing(Seq::<u8>::empty(), chunk_of(hdr_len(p.header().hv())), s.skip(dec_hdr(s)->Some_0.1 as int))
                &&& p.inv() && !p.is_done_state() && !p.is_error_state() && p.buffered_len() == 0
                &&& p.src_fut() is Some && p.src_fut()->Some_0.rest() == final(self).stream()
            }),
            r is Some && !final(self).done() ==> dec_hdr(old(self).stream()) is Some,
    { unimplemented!() }
}

//@trusted T4 PacketBodyReader::packet_header returns the header the reader was built with (a field read, src/composed/message/reader/packet_body.rs:157)
//@trusted T2+T4 std::io::Read::read_to_end (default method, not overridden by PacketBodyReader) calls read until it answers Ok(0) and appends everything read to the Vec; with the read contract proved in U07 this gives: Ok(n) = all deliverable body octets were appended (n of them), the reader is in state Done, same source reference; Err = a read failed, the reader is in its error state
impl<'a, R0: io::BufRead> PacketBodyReader<&'a mut R0> {
    #[verifier::external_body]
    pub fn packet_header(&self) -> (r: PacketHeader) ensures r == self.header() { unimplemented!() }

    #[verifier::external_body]
    pub fn read_to_end(&mut self, buf: &mut Vec<u8>) -> (r: io::Result<usize>)
        ensures
            final(self).header() == old(self).header(),
            old(self).inv() ==> final(self).inv(),
            r is Err ==> final(self).is_error_state(),
            r is Ok ==> final(self).is_done_state() && !final(self).is_error_state(),
            r is Ok ==> r->Ok_0 == old(self).deliverable().len() && final(buf)@ == old(buf)@ + old(self).deliverable(),
            r is Ok ==> final(self).framing() == framing_skip(old(self).framing(), old(self).deliverable().len()),
            r is Ok ==> final(self).src_fut() == old(self).src_fut(),
    { unimplemented!() }
}
