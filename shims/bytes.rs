// ---------------------------------------------------------------------------------
// shims/bytes.rs - assumed contracts for bytes::{BytesMut, Bytes, Buf, BufMut}.
// A BytesMut is modelled by its readable content view(): Seq<u8>.  `with_capacity(n)`
// records the *requested* capacity in a ghost field so that allocation-request bounds
// (C19) are ordinary postconditions.
// ---------------------------------------------------------------------------------
//@trusted T2 bytes::BytesMut/Bytes behave as a byte sequence: extend/put append, advance/split_to drop a prefix, truncate/split_off cut the tail, copy_to_slice copies and advances; capacity is not modelled except for the size requested from with_capacity
#[verifier::external_body]
pub struct BytesMut { v: Vec<u8> }

impl View for BytesMut {
    type V = Seq<u8>;
    uninterp spec fn view(&self) -> Seq<u8>;
}

impl BytesMut {
    pub uninterp spec fn requested(&self) -> nat;

    #[verifier::external_body]
    pub fn with_capacity(n: usize) -> (r: BytesMut) ensures r@ == Seq::<u8>::empty(), r.requested() == n { unimplemented!() }
    #[verifier::external_body]
    pub fn new() -> (r: BytesMut) ensures r@ == Seq::<u8>::empty(), r.requested() == 0 { unimplemented!() }
    #[verifier::external_body]
    pub fn zeroed(n: usize) -> (r: BytesMut) ensures r@.len() == n, forall|i: int| 0 <= i < n ==> r@[i] == 0u8, r.requested() == n { unimplemented!() }
    #[verifier::external_body]
    pub fn len(&self) -> (r: usize) ensures r == self@.len() { unimplemented!() }
    //@trusted T2 BytesMut::capacity() is at least len(); reserve(additional) is an explicit allocation REQUEST for len()+additional bytes and is recorded in requested(); implicit growth through extend_from_slice/put_* (proportional to data actually supplied) is not a request
    #[verifier::external_body]
    pub fn capacity(&self) -> (r: usize) ensures r >= self@.len() { unimplemented!() }
    #[verifier::external_body]
    pub fn reserve(&mut self, additional: usize)
        ensures final(self)@ == old(self)@,
            final(self).requested() == (if old(self).requested() >= old(self)@.len() + additional { old(self).requested() } else { (old(self)@.len() + additional) as nat }),
    { unimplemented!() }
    #[verifier::external_body]
    pub fn is_empty(&self) -> (r: bool) ensures r == (self@.len() == 0) { unimplemented!() }
    #[verifier::external_body]
    pub fn remaining(&self) -> (r: usize) ensures r == self@.len() { unimplemented!() }
    #[verifier::external_body]
    pub fn has_remaining(&self) -> (r: bool) ensures r == (self@.len() > 0) { unimplemented!() }
    #[verifier::external_body]
    pub fn clear(&mut self) ensures final(self)@ == Seq::<u8>::empty(), final(self).requested() == old(self).requested() { unimplemented!() }
    #[verifier::external_body]
    pub fn extend_from_slice(&mut self, s: &[u8]) ensures final(self)@ == old(self)@ + s@, final(self).requested() == old(self).requested() { unimplemented!() }
    #[verifier::external_body]
    pub fn put_slice(&mut self, s: &[u8]) ensures final(self)@ == old(self)@ + s@, final(self).requested() == old(self).requested() { unimplemented!() }
    #[verifier::external_body]
    pub fn put_u8(&mut self, b: u8) ensures final(self)@ == old(self)@.push(b), final(self).requested() == old(self).requested() { unimplemented!() }
    //@trusted T2 Buf::advance / copy_to_slice / split_to panic when asked for more than remaining(): modelled as preconditions
    #[verifier::external_body]
    pub fn advance(&mut self, n: usize) requires n <= old(self)@.len() ensures final(self)@ == old(self)@.skip(n as int), final(self).requested() == old(self).requested() { unimplemented!() }
    #[verifier::external_body]
    pub fn copy_to_slice(&mut self, dst: &mut [u8])
        requires old(dst)@.len() <= old(self)@.len()
        ensures final(dst)@ == old(self)@.subrange(0, old(dst)@.len() as int), final(self)@ == old(self)@.skip(old(dst)@.len() as int),
                final(self).requested() == old(self).requested() { unimplemented!() }
    #[verifier::external_body]
    pub fn split_to(&mut self, n: usize) -> (r: BytesMut)
        requires n <= old(self)@.len()
        ensures r@ == old(self)@.subrange(0, n as int), final(self)@ == old(self)@.skip(n as int) { unimplemented!() }
    #[verifier::external_body]
    pub fn split_off(&mut self, n: usize) -> (r: BytesMut)
        requires n <= old(self)@.len()
        ensures final(self)@ == old(self)@.subrange(0, n as int), r@ == old(self)@.skip(n as int) { unimplemented!() }
    #[verifier::external_body]
    pub fn split(&mut self) -> (r: BytesMut)
        ensures r@ == old(self)@, final(self)@ == Seq::<u8>::empty() { unimplemented!() }
    #[verifier::external_body]
    pub fn unsplit(&mut self, other: BytesMut) ensures final(self)@ == old(self)@ + other@ { unimplemented!() }
    #[verifier::external_body]
    pub fn truncate(&mut self, n: usize) ensures final(self)@ == (if n <= old(self)@.len() { old(self)@.subrange(0, n as int) } else { old(self)@ }),
        final(self).requested() == old(self).requested() { unimplemented!() }
    #[verifier::external_body]
    pub fn resize(&mut self, n: usize, b: u8)
        ensures final(self)@.len() == n,
            forall|i: int| 0 <= i < n ==> final(self)@[i] == (if i < old(self)@.len() { old(self)@[i] } else { b }) { unimplemented!() }
    #[verifier::external_body]
    pub fn as_slice(&self) -> (r: &[u8]) ensures r@ == self@ { unimplemented!() }
    #[verifier::external_body]
    pub fn as_mut_slice(&mut self) -> (r: &mut [u8]) ensures r@ == old(self)@ { unimplemented!() }
    #[verifier::external_body]
    pub fn freeze(self) -> (r: Bytes) ensures r@ == self@ { unimplemented!() }
    #[verifier::external_body]
    pub fn get_u8(&mut self) -> (r: u8) requires old(self)@.len() >= 1 ensures r == old(self)@[0], final(self)@ == old(self)@.skip(1) { unimplemented!() }
}

#[verifier::external_body]
pub struct Bytes { v: Vec<u8> }
impl View for Bytes {
    type V = Seq<u8>;
    uninterp spec fn view(&self) -> Seq<u8>;
}
impl Bytes {
    #[verifier::external_body]
    pub fn new() -> (r: Bytes) ensures r@ == Seq::<u8>::empty() { unimplemented!() }
    #[verifier::external_body]
    pub fn len(&self) -> (r: usize) ensures r == self@.len() { unimplemented!() }
    #[verifier::external_body]
    pub fn is_empty(&self) -> (r: bool) ensures r == (self@.len() == 0) { unimplemented!() }
    #[verifier::external_body]
    pub fn remaining(&self) -> (r: usize) ensures r == self@.len() { unimplemented!() }
    #[verifier::external_body]
    pub fn has_remaining(&self) -> (r: bool) ensures r == (self@.len() > 0) { unimplemented!() }
    #[verifier::external_body]
    pub fn as_slice(&self) -> (r: &[u8]) ensures r@ == self@ { unimplemented!() }
    #[verifier::external_body]
    pub fn advance(&mut self, n: usize) requires n <= old(self)@.len() ensures final(self)@ == old(self)@.skip(n as int) { unimplemented!() }
    #[verifier::external_body]
    pub fn split_to(&mut self, n: usize) -> (r: Bytes)
        requires n <= old(self)@.len()
        ensures r@ == old(self)@.subrange(0, n as int), final(self)@ == old(self)@.skip(n as int) { unimplemented!() }
    #[verifier::external_body]
    pub fn copy_to_slice(&mut self, dst: &mut [u8])
        requires old(dst)@.len() <= old(self)@.len()
        ensures final(dst)@ == old(self)@.subrange(0, old(dst)@.len() as int), final(self)@ == old(self)@.skip(old(dst)@.len() as int) { unimplemented!() }
    #[verifier::external_body]
    pub fn from_vec(v: Vec<u8>) -> (r: Bytes) ensures r@ == v@ { unimplemented!() }
}
