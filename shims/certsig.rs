// ---------------------------------------------------------------------------------
// shims/certsig.rs - abstract model of everything around the certificate-forming
// signature functions (Signature::verify_* / SignatureConfig::sign_*) that is NOT their
// subject: the dynamically typed hasher, keys as VerifyingKey / SigningKey / KeyDetails
// trait objects, Serialize, the signature-field tail (hash_signature_data + trailer, whose
// byte-level contract is the subject of U30) and the small enums.
// Include AFTER shims/io.rs and lemmas/keyhash.rs.
// ---------------------------------------------------------------------------------

// ---- std bits --------------------------------------------------------------------------
//@trusted T2 a failed integer conversion (TryFromIntError) and an unsupported hash algorithm convert into the opaque crate error via `?`
impl core::convert::From<core::num::TryFromIntError> for errors::Error {
    #[verifier::external_body]
    fn from(e: core::num::TryFromIntError) -> (r: errors::Error) { unimplemented!() }
}
pub mod hash {
    pub struct Error { pub tag: u8 }
}
impl core::convert::From<hash::Error> for errors::Error {
    #[verifier::external_body]
    fn from(e: hash::Error) -> (r: errors::Error) { unimplemented!() }
}
//@trusted T2 <Vec<T> as AsRef<[T]>>::as_ref is the slice of all elements (the unit file must start with `#![feature(allocator_api)]`: the spec names Vec's allocator parameter)
pub assume_specification<T, A: core::alloc::Allocator>[ <Vec<T, A> as AsRef<[T]>>::as_ref ](v: &Vec<T, A>) -> (r: &[T])
    ensures r@ == v@;
//@trusted T2 <[T]>::contains(x) is true iff some element equals x (PartialEq)
pub assume_specification<T: PartialEq>[ <[T]>::contains ](s: &[T], x: &T) -> (r: bool)
    ensures <T as vstd::std_specs::cmp::PartialEqSpec>::obeys_eq_spec() ==> r == (exists|i: int| 0 <= i < s@.len() && #[trigger] vstd::std_specs::cmp::PartialEqSpec::eq_spec(&s@[i], x));
//@trusted T2 `&[u8; 2] == &[u8]` (core::array::equality) holds iff both have the same elements
pub mod certsig_axioms {
    use vstd::prelude::*;
    //@trusted T7 #[derive(PartialEq)] on SignatureType is structural equality (also for the PartialEqSpec view that <[T]>::contains is specified with)
    #[verifier::external_body]
    pub proof fn axiom_signature_type_eq()
        ensures <super::SignatureType as vstd::std_specs::cmp::PartialEqSpec>::obeys_eq_spec(),
            forall|a: super::SignatureType, b: super::SignatureType| (#[trigger] vstd::std_specs::cmp::PartialEqSpec::eq_spec(&a, &b)) == (a == b)
    {}
    #[verifier::external_body]
    pub proof fn axiom_array_slice_eq_u8<const N: usize>()
        ensures forall|a: &[u8; N], b: &[u8]| (#[trigger] vstd::std_specs::cmp::PartialEqSpec::eq_spec(a, b)) == (a@ == b@)
    {}
}

//@trusted T2 byteorder::BigEndian::write_u32(buf, n) overwrites buf[0..4] with the big-endian encoding of n, panics if buf is shorter than 4 (precondition)
impl BigEndian {
    #[verifier::external_body]
    pub fn write_u32(buf: &mut [u8], n: u32)
        requires old(buf)@.len() >= 4
        ensures final(buf)@ == be32(n) + old(buf)@.skip(4)
    { unimplemented!() }
}

// ---- enums (same variants as the source; derive(PartialEq) is structural equality) ------
//@trusted T7 KeyVersion / SignatureVersion / SignatureType / Tag are re-declared by hand with the variants the functions under contract mention; every other variant is collapsed into Other(..)
#[derive(PartialEq, Eq, Clone, Copy, Structural)]
pub enum KeyVersion { V2, V3, V4, V5, V6, Other(u8) }
#[derive(PartialEq, Eq, Clone, Copy, Structural)]
pub enum SignatureVersion { V2, V3, V4, V5, V6, Other(u8) }
#[derive(PartialEq, Eq, Clone, Copy, Structural)]
pub enum SignatureType {
    Binary, Text, Standalone, CertGeneric, CertPersona, CertCasual, CertPositive, SubkeyBinding, KeyBinding,
    Key, KeyRevocation, SubkeyRevocation, CertRevocation, Timestamp, ThirdParty, Other(u8),
}
#[derive(PartialEq, Eq, Clone, Copy, Structural)]
pub enum Tag { UserId, UserAttribute, PublicKey, PublicSubkey, SecretKey, SecretSubkey, Signature, Other(u8) }

//@trusted T7 HashAlgorithm, PublicKeyAlgorithm, KeyId, Fingerprint, Password, SignatureBytes, Subpacket, PacketHeader are opaque values here
#[derive(PartialEq, Eq, Clone, Copy, Structural)]
pub struct HashAlgorithm { pub id: u8 }
#[derive(PartialEq, Eq, Clone, Copy, Structural)]
pub struct PublicKeyAlgorithm { pub id: u8 }
#[derive(PartialEq, Eq, Clone, Copy, Structural)]
pub struct Timestamp(pub u32);
#[derive(PartialEq, Eq, Clone, Copy, Structural)]
pub struct KeyId(pub [u8; 8]);
#[verifier::external_body] pub struct Fingerprint { _x: u8 }
#[verifier::external_body] pub struct Password { _x: u8 }
#[verifier::external_body] pub struct SignatureBytes { _x: u8 }
#[verifier::external_body] pub struct Subpacket { _x: u8 }
#[verifier::external_body] pub struct PacketHeader { _x: u8 }
#[verifier::external_body] pub struct Bytes { _x: u8 }

// ---- serialisation ----------------------------------------------------------------------
//@trusted T4 crate::ser::Serialize is a function: every value has one wire image ser(); to_writer(w) = Ok appends exactly ser() to w and does not replace w (nothing is known about w after Err); it fails only if the value itself cannot be serialised (!ser_ok()) or the writer fails - a WriteHasher never does; write_len() == |ser()|
pub uninterp spec fn sink_may_fail<W>() -> bool;
pub trait Serialize {
    spec fn ser(&self) -> Seq<u8>;
    spec fn ser_ok(&self) -> bool;
    fn to_writer<W: io::Write>(&self, w: &mut W) -> (r: errors::Result<()>)
        ensures match r {
            Ok(_) => final(w).out() == old(w).out() + self.ser() && same_sink(*final(w), *old(w)),
            Err(_) => !self.ser_ok() || sink_may_fail::<W>(),
        };
    fn write_len(&self) -> (n: usize)
        ensures n == self.ser().len();
}
impl<T: Serialize> Serialize for &T {
    open spec fn ser(&self) -> Seq<u8> { (**self).ser() }
    open spec fn ser_ok(&self) -> bool { (**self).ser_ok() }
    #[verifier::external_body]
    fn to_writer<W: io::Write>(&self, w: &mut W) -> (r: errors::Result<()>) { unimplemented!() }
    #[verifier::external_body]
    fn write_len(&self) -> (n: usize) { unimplemented!() }
}
//@trusted T2 impl io::Write for Vec<u8>: out() is the content of the vector
impl io::Write for Vec<u8> {
    open spec fn out(&self) -> Seq<u8> { self@ }
    #[verifier::external_body]
    fn write(&mut self, buf: &[u8]) -> (r: io::Result<usize>) { unimplemented!() }
    #[verifier::external_body]
    fn write_all(&mut self, buf: &[u8]) -> (r: io::Result<()>) { unimplemented!() }
    #[verifier::external_body]
    fn flush(&mut self) -> (r: io::Result<()>) { unimplemented!() }
}

// ---- hashing ----------------------------------------------------------------------------
//@trusted T2 digest::DynDigest is a ghost byte accumulator for one fixed hash algorithm alg(): update(d) appends d to view() and keeps alg(); finalize() returns the uninterpreted digest H(alg(), view()), at least 2 octets long; HashAlgorithm::new_hasher yields an empty accumulator for that algorithm or Err (same model as shims/sigtypes.rs)
pub uninterp spec fn H(alg: HashAlgorithm, s: Seq<u8>) -> Seq<u8>;
pub trait DynDigest {
    spec fn view(&self) -> Seq<u8>;
    spec fn alg(&self) -> HashAlgorithm;
    fn update(&mut self, data: &[u8])
        ensures final(self).view() == old(self).view() + data@, final(self).alg() == old(self).alg();
    fn finalize(self: Box<Self>) -> (r: Box<[u8]>)
        ensures r@ == H(self.alg(), self.view()), r@.len() >= 2;
}
impl HashAlgorithm {
    #[verifier::external_body]
    pub fn new_hasher(self) -> (r: core::result::Result<Box<dyn DynDigest>, hash::Error>)
        ensures match r { Ok(h) => h.view() == Seq::<u8>::empty() && h.alg() == self, Err(_) => true }
    { unimplemented!() }
}
//@trusted T2 crypto::hash::WriteHasher (src/crypto/hash.rs:127) is io::Write over the hasher: every write appends to the hasher's view() and never fails.  byteorder's write_u8/u16/u32 on it (= write_all of the big-endian bytes) are given as inherent methods.  same_sink(a, b) = "a and b are the same writer at different times": for a WriteHasher that means the wrapped reference still points to the same hasher object, whose algorithm never changes (axiom_same_sink_wh)
pub struct WriteHasher<'a>(pub &'a mut Box<dyn DynDigest>);
impl<'a> io::Write for WriteHasher<'a> {
    open spec fn out(&self) -> Seq<u8> { (*self.0).view() }
    #[verifier::external_body]
    fn write(&mut self, buf: &[u8]) -> (r: io::Result<usize>) { unimplemented!() }
    #[verifier::external_body]
    fn write_all(&mut self, buf: &[u8]) -> (r: io::Result<()>) { unimplemented!() }
    #[verifier::external_body]
    fn flush(&mut self) -> (r: io::Result<()>) { unimplemented!() }
}
/// a generic frame condition for code that is handed `&mut W`: it may write to the sink but not replace it
#[verifier::prophetic]
pub uninterp spec fn same_sink<W>(a: W, b: W) -> bool;
#[verifier::external_body]
pub proof fn axiom_same_sink_wh()
    ensures forall|a: WriteHasher, b: WriteHasher| #[trigger] same_sink(a, b) ==> *final(a.0) == *final(b.0) && (*a.0).alg() == (*b.0).alg(),
        !sink_may_fail::<WriteHasher>(),
{}
impl<'a> WriteHasher<'a> {
    #[verifier::external_body]
    pub fn write_u8(&mut self, n: u8) -> (r: io::Result<()>)
        ensures r is Ok, (*final(self).0).view() == (*old(self).0).view() + seq![n], same_sink(*final(self), *old(self))
    { unimplemented!() }
    #[verifier::external_body]
    pub fn write_u16<T: ByteOrder>(&mut self, n: u16) -> (r: io::Result<()>)
        ensures r is Ok, T::big() ==> (*final(self).0).view() == (*old(self).0).view() + be16(n), same_sink(*final(self), *old(self))
    { unimplemented!() }
    #[verifier::external_body]
    pub fn write_u32<T: ByteOrder>(&mut self, n: u32) -> (r: io::Result<()>)
        ensures r is Ok, T::big() ==> (*final(self).0).view() == (*old(self).0).view() + be32(n), same_sink(*final(self), *old(self))
    { unimplemented!() }
}

// ---- keys ---------------------------------------------------------------------------------
//@trusted T7 keys are abstract: KeyDetails gives the version (version_spec()), VerifyingKey::verify(alg, digest, sig) = Ok only if the public-key primitive accepts (accepts()), SigningKey::sign(pw, alg, digest) = Ok(s) only if s was produced over exactly that digest (produced()); `&T` forwards to `T` (src/types/key_traits.rs:71,100)
pub trait KeyDetails {
    spec fn version_spec(&self) -> KeyVersion;
    fn version(&self) -> (r: KeyVersion) ensures r == self.version_spec();
    fn legacy_key_id(&self) -> (r: KeyId);
    fn fingerprint(&self) -> (r: Fingerprint);
}
impl<T: KeyDetails> KeyDetails for &T {
    open spec fn version_spec(&self) -> KeyVersion { (**self).version_spec() }
    #[verifier::external_body]
    fn version(&self) -> (r: KeyVersion) { unimplemented!() }
    #[verifier::external_body]
    fn legacy_key_id(&self) -> (r: KeyId) { unimplemented!() }
    #[verifier::external_body]
    fn fingerprint(&self) -> (r: Fingerprint) { unimplemented!() }
}
pub trait VerifyingKey: KeyDetails {
    spec fn accepts(&self, alg: HashAlgorithm, digest: Seq<u8>, sig: &SignatureBytes) -> bool;
    fn verify(&self, hash: HashAlgorithm, data: &[u8], sig: &SignatureBytes) -> (r: errors::Result<()>)
        ensures r is Ok ==> self.accepts(hash, data@, sig);
}
impl<T: VerifyingKey> VerifyingKey for &T {
    open spec fn accepts(&self, alg: HashAlgorithm, digest: Seq<u8>, sig: &SignatureBytes) -> bool { (**self).accepts(alg, digest, sig) }
    #[verifier::external_body]
    fn verify(&self, hash: HashAlgorithm, data: &[u8], sig: &SignatureBytes) -> (r: errors::Result<()>) { unimplemented!() }
}
pub trait SigningKey: KeyDetails {
    spec fn produced(&self, alg: HashAlgorithm, digest: Seq<u8>, sig: SignatureBytes) -> bool;
    fn sign(&self, key_pw: &Password, hash: HashAlgorithm, data: &[u8]) -> (r: errors::Result<SignatureBytes>)
        ensures r is Ok ==> self.produced(hash, data@, r->Ok_0);
}
