// ---------------------------------------------------------------------------------
// shims/io_errsrc.rs - use INSTEAD of shims/io.rs in units whose subject only PASSES errors on and where it matters
// WHO made an error (completeness: "the code under contract fails only for these reasons"): the two opaque error
// types of shims/io.rs (same names, same constructors, so shims/mem.rs can be included after it; the Read / BufRead /
// Write traits are not in here) plus a ghost label on every error value:
//   errors::Error::from_env() / io::Error::env()  -  this error value was REPORTED BY A CALLEE of the code under
//   contract (the underlying source, packet framing, a per-type packet parser, a reader constructor); it was not made
//   by the code under contract itself.
// std::io::Error and crate::errors::Error are modelled by ONE opaque type (io::Error is a re-export of errors::Error): this
// Verus version does not apply the contract of From::from at a `?` (the converted error would be unconstrained and lose its
// label), so the snafu conversion io::Error -> Error::IO { source } is the identity on the model.
// Shims of callees state `Err(e) ==> e.from_env()`; the constructors the engine's R4 rewrites produce for the code's
// own bail!/ensure!/format_err!/io::Error::other (Error::opaque(), io::Error::new_opaque(), io::Error::new_kind()) state
// nothing, so a contract clause `r matches Err(e) ==> e.from_env() || <reason>` fails at every `return Err(..)` of the
// code under contract for which <reason> cannot be proved.
// Include AFTER `use vstd::prelude::*;` inside verus!{}.
// ---------------------------------------------------------------------------------

//@trusted T2 std::io::Error / crate::errors::Error are opaque values, modelled by one type (the snafu conversion From<io::Error> for errors::Error is the identity on the model, so that a `?` keeps the value); only the occurrence of an error, the variant PacketTooLarge { size }, (for io) its ErrorKind and the ghost label "reported by a callee" (from_env / env) are modelled, never the message
#[derive(PartialEq, Eq, Clone, Copy, Structural)]
pub enum IoErrorKind { Interrupted, UnexpectedEof, InvalidInput, InvalidData, Other }

pub mod errors {
    use super::*;
    /// crate::errors::Error restricted to the one variant the code under contract constructs by name (PacketTooLarge);
    /// every other error value - io::Error included - is `Other`
    pub enum Error { PacketTooLarge { size: u64 }, Other { tag: u8, k: IoErrorKind } }
    impl Error {
        /// reported by a callee of the code under contract (not made by that code itself)
        pub uninterp spec fn from_env(&self) -> bool;
        /// the same label under the name used for io::Error values
        pub open spec fn env(&self) -> bool { self.from_env() }
        pub open spec fn spec_kind(&self) -> IoErrorKind {
            match *self { Error::Other { k, .. } => k, Error::PacketTooLarge { .. } => IoErrorKind::Other }
        }
        /// what R4 turns bail!(..) / format_err!(..) into
        #[verifier::external_body]
        pub fn opaque() -> (e: Error) { unimplemented!() }
        /// what R4 turns io::Error::other(..) / io::Error::new(kind, ..) into
        #[verifier::external_body]
        pub fn new_opaque() -> (e: Error) ensures e.spec_kind() == IoErrorKind::Other { unimplemented!() }
        #[verifier::external_body]
        pub fn new_kind(k: IoErrorKind) -> (e: Error) ensures e.spec_kind() == k { unimplemented!() }
        #[verifier::external_body]
        pub fn kind(&self) -> (k: IoErrorKind) ensures k == self.spec_kind() { unimplemented!() }
    }
    pub type Result<T> = core::result::Result<T, Error>;
}

pub mod io {
    pub use super::errors::Error;
    pub use super::errors::Result;
    pub use super::IoErrorKind as ErrorKind;
}

//@trusted T2 Result::unwrap_or(default) is the Ok value, or `default` for an Err (std; not specified by this vstd: without it a rewrite of the code under contract that swallows an error this way would leave the verifier's reach)
pub assume_specification<T, E>[core::result::Result::<T, E>::unwrap_or](r: core::result::Result<T, E>, default: T) -> (v: T)
    ensures v == (match r { core::result::Result::Ok(x) => x, core::result::Result::Err(_) => default });
