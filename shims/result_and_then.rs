// shims/result_and_then.rs - core::result::Result::and_then
//@trusted T2 Result::and_then(self, f): Ok(x) => f(x) (f is called exactly then, so its precondition is only needed for Ok), Err(e) => Err(e)
pub assume_specification<T, E, U, F: FnOnce(T) -> core::result::Result<U, E>> [core::result::Result::<T, E>::and_then] (s: core::result::Result<T, E>, f: F) -> (r: core::result::Result<U, E>)
    requires s is Ok ==> f.requires((s->Ok_0,)),
    ensures match s { Ok(x) => f.ensures((x,), r), Err(e) => r == Err::<U, E>(e) };
