// ---------------------------------------------------------------------------------
// shims/sigkeys.rs - the key traits seen by the signature units (U31, U33, U32).
// Include after shims/sigtypes.rs; the unit must extract `enum Fingerprint` (types/fingerprint.rs).
// ---------------------------------------------------------------------------------

//@trusted T3 KeyDetails: version(), legacy_key_id(), fingerprint() are pure observers of the key (spec_version / spec_key_id / spec_fingerprint); nothing is assumed about their values.  `impl KeyDetails for &T` forwards to T
pub trait KeyDetails {
    spec fn spec_version(&self) -> KeyVersion;
    spec fn spec_key_id(&self) -> KeyId;
    spec fn spec_fingerprint(&self) -> Fingerprint;
    fn version(&self) -> (r: KeyVersion) ensures r == self.spec_version();
    fn legacy_key_id(&self) -> (r: KeyId) ensures r == self.spec_key_id();
    fn fingerprint(&self) -> (r: Fingerprint) ensures r == self.spec_fingerprint();
}
impl<T: KeyDetails> KeyDetails for &T {
    open spec fn spec_version(&self) -> KeyVersion { (**self).spec_version() }
    open spec fn spec_key_id(&self) -> KeyId { (**self).spec_key_id() }
    open spec fn spec_fingerprint(&self) -> Fingerprint { (**self).spec_fingerprint() }
    #[verifier::external_body]
    fn version(&self) -> (r: KeyVersion) { unimplemented!() }
    #[verifier::external_body]
    fn legacy_key_id(&self) -> (r: KeyId) { unimplemented!() }
    #[verifier::external_body]
    fn fingerprint(&self) -> (r: Fingerprint) { unimplemented!() }
}

//@trusted T3 VerifyingKey::verify(hash_alg, digest, sig) is the public-key primitive: it returns Ok exactly when the uninterpreted predicate accepts(key, hash_alg, digest, sig) holds; it has no other effect
pub trait VerifyingKey: KeyDetails {
    spec fn accepts(&self, hash: HashAlgorithm, digest: Seq<u8>, sig: SignatureBytes) -> bool;
    fn verify(&self, hash: HashAlgorithm, data: &[u8], sig: &SignatureBytes) -> (r: errors::Result<()>)
        ensures r is Ok == self.accepts(hash, data@, *sig);
}

//@trusted T7 derive(PartialEq) on Fingerprint is equality of values
impl PartialEq for Fingerprint {
    #[verifier::external_body]
    fn eq(&self, o: &Fingerprint) -> (r: bool) ensures r == (*self == *o) { unimplemented!() }
}
impl vstd::std_specs::cmp::PartialEqSpecImpl for Fingerprint {
    open spec fn obeys_eq_spec() -> bool { true }
    open spec fn eq_spec(&self, o: &Fingerprint) -> bool { *self == *o }
}
