// shims/nom.rs - nom::Input::position on byte slices
//@trusted T2 nom::Input::position on &[u8] returns the first index whose byte satisfies the predicate, None if there is none
pub trait Input {
    spec fn sv(&self) -> Seq<u8>;
    fn position<P: Fn(u8) -> bool>(&self, p: P) -> (r: Option<usize>)
        requires forall|c: u8| p.requires((c,)),
        ensures match r {
            Some(i) => i < self.sv().len() && p.ensures((self.sv()[i as int],), true)
                && forall|j: int| 0 <= j < i ==> p.ensures((#[trigger] self.sv()[j],), false),
            None => forall|j: int| 0 <= j < self.sv().len() ==> p.ensures((#[trigger] self.sv()[j],), false),
        };
}
impl Input for &[u8] {
    open spec fn sv(&self) -> Seq<u8> { self@ }
    #[verifier::external_body]
    fn position<P: Fn(u8) -> bool>(&self, p: P) -> (r: Option<usize>) { unimplemented!() }
}
