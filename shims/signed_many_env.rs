// ---------------------------------------------------------------------------------
// shims/signed_many_env.rs - what the SignatureManyReader unit (U25) assumes about code that is not
// its subject.  Include after shims/io.rs, shims/bytes.rs, shims/sigtypes.rs, lemmas/canon.rs,
// lemmas/sigdigest.rs, lemmas/sigspec.rs, lemmas/sigcontent.rs and after the extraction of the
// real data types (SignatureConfig .. OnePassSignature, NormalizingHasher, SignaturePacket,
// FullSignaturePacket), inside verus!{}.
// ---------------------------------------------------------------------------------

//@trusted T2 std::mem::replace(dest, src) stores src in *dest and returns the old *dest
pub assume_specification<T> [core::mem::replace::<T>] (dest: &mut T, src: T) -> (r: T)
    ensures r == *old(dest), *final(dest) == src;

//@trusted T2 bytes::BytesMut / Bytes deref to the byte slice of their content; Bytes::as_ref likewise
impl core::ops::Deref for BytesMut {
    type Target = [u8];
    #[verifier::external_body]
    fn deref(&self) -> (r: &[u8]) ensures r@ == self@ { unimplemented!() }
}
impl Bytes {
    #[verifier::external_body]
    pub fn as_ref(&self) -> (r: &[u8]) ensures r@ == self@ { unimplemented!() }
}

// ---- the message source -------------------------------------------------------------------------------
//@trusted T4 composed::Message<'a> (the literal-data source under the signature layer) is an opaque BufRead whose remaining content rest() is the not yet delivered part of the signed body; into_parts() hands out the packet-level reader positioned behind the body, whose packet parser will yield the sequence trailing(); MessageParts::into_message(reader) rebuilds a message (not looked into)
#[verifier::external_body]
pub struct Message<'a> { _p: core::marker::PhantomData<&'a u8> }
#[verifier::external_body]
pub struct MessageParts { _p: u8 }
#[verifier::external_body]
pub struct BodyReader<'a> { _p: core::marker::PhantomData<&'a u8> }
/// one result of PacketParser::next()
pub type ParseItem = core::result::Result<Packet, errors::Error>;
impl<'a> Message<'a> {
    pub uninterp spec fn body_rest(&self) -> Seq<u8>;
    pub uninterp spec fn body_buffered(&self) -> nat;
    /// what the packet parser yields behind the body (fixed by the input, not by how far the body has been read)
    pub uninterp spec fn trailing(&self) -> Seq<ParseItem>;
    #[verifier::external_body]
    pub fn into_parts(self) -> (r: (BodyReader<'a>, MessageParts))
        ensures r.0.items() == self.trailing()
    { unimplemented!() }
}
impl MessageParts {
    #[verifier::external_body]
    pub fn into_message<'a>(self, reader: BodyReader<'a>) -> (r: Message<'a>) { unimplemented!() }
}
impl<'a> BodyReader<'a> { pub uninterp spec fn items(&self) -> Seq<ParseItem>; }
impl<'a> io::Read for Box<Message<'a>> {
    open spec fn rest(&self) -> Seq<u8> { (**self).body_rest() }
    #[verifier::external_body]
    fn read(&mut self, buf: &mut [u8]) -> (r: io::Result<usize>) { unimplemented!() }
}
impl<'a> io::BufRead for Box<Message<'a>> {
    open spec fn buffered(&self) -> nat { (**self).body_buffered() }
    #[verifier::external_body]
    proof fn buffered_le_rest(&self) {}
    #[verifier::external_body]
    fn fill_buf(&mut self) -> (r: io::Result<&[u8]>) { unimplemented!() }
    #[verifier::external_body]
    fn consume(&mut self, amt: usize) { unimplemented!() }
}
//@trusted T4 reading the body does not change what follows it: trailing() of the source is the same before and after fill_buffer_bytes (the packet stream is fixed input)
//@trusted T4 util::fill_buffer_bytes (contract PROVED in U23/U70): Ok(n) appends the next n source bytes to the buffer, stops when the buffer holds `len` bytes or the source is exhausted, for every short-read schedule (for sources honouring std's error contract, std_err(); proved under that precondition)
#[verifier::external_body]
pub fn fill_buffer_bytes<'a>(source: &mut Box<Message<'a>>, buffer: &mut BytesMut, len: usize) -> (r: io::Result<usize>)
    ensures match r {
        Ok(n) => n <= old(source).rest().len()
            && final(buffer)@ == old(buffer)@ + old(source).rest().subrange(0, n as int)
            && (*final(source)).rest() == old(source).rest().skip(n as int)
            && (old(buffer)@.len() >= len ==> n == 0)
            && (old(buffer)@.len() < len ==> final(buffer)@.len() <= len)
            && (final(buffer)@.len() < len ==> (*final(source)).rest().len() == 0)
            && (**final(source)).trailing() == (**old(source)).trailing(),
        Err(_) => true }
{ unimplemented!() }

// ---- packets behind the body ------------------------------------------------------------------------------
//@trusted T4 packet::Packet is reduced to the four cases fill_inner distinguishes (Marker, Padding, Signature, anything else); PacketParser::next() yields the parser's results in stream order and ends (items() shrinks by one per call); "soft" parse errors (Error::InvalidPacketContent wrapping Error::Unsupported, i.e. unknown non-critical packets) are an uninterpreted predicate of the error value
#[verifier::external_body] pub struct Marker { _p: u8 }
#[verifier::external_body] pub struct Padding { _p: u8 }
#[verifier::external_body] pub struct OtherPacket { _p: u8 }
pub enum Packet { Marker(Marker), Padding(Padding), Signature(Signature), Other(OtherPacket) }
pub uninterp spec fn soft_error(e: errors::Error) -> bool;
/// `if let Err(Error::InvalidPacketContent { ref source }) = res { if let Error::Unsupported { .. } = &**source { continue; } }`
#[verifier::external_body]
pub fn is_soft_parse_error(res: &ParseItem) -> (r: bool)
    ensures r == (*res matches Err(e) && soft_error(e))
{ unimplemented!() }
#[verifier::external_body]
pub struct PacketParser<'a> { _p: core::marker::PhantomData<&'a u8> }
impl<'a> PacketParser<'a> {
    pub uninterp spec fn items(&self) -> Seq<ParseItem>;
    #[verifier::external_body]
    pub fn new(reader: BodyReader<'a>) -> (r: PacketParser<'a>) ensures r.items() == reader.items() { unimplemented!() }
    #[verifier::external_body]
    pub fn next(&mut self) -> (r: Option<ParseItem>)
        ensures match r {
            Some(x) => old(self).items().len() > 0 && x == old(self).items()[0] && final(self).items() == old(self).items().skip(1),
            None => old(self).items().len() == 0 && final(self).items() == old(self).items(),
        }
    { unimplemented!() }
    #[verifier::external_body]
    pub fn into_inner(self) -> (r: BodyReader<'a>) { unimplemented!() }
}

// ---- signatures -----------------------------------------------------------------------------------------------
//@trusted T4 OnePassSignature::matches (contract PROVED in U34): true exactly when the trailing signature is of known version and agrees with the header in type, hash algorithm, public-key algorithm, version pairing (OPS v3 / sig v4, OPS v6 / sig v6) and, for v6, salt
pub open spec fn ops_version_pair_ok(o: OpsVersionSpecific, s: SignatureVersionSpecific) -> bool {
    match (o, s) {
        (OpsVersionSpecific::V3 { .. }, SignatureVersionSpecific::V4) => true,
        (OpsVersionSpecific::V6 { salt: os, .. }, SignatureVersionSpecific::V6 { salt: ss }) => os@ == ss@,
        _ => false,
    }
}
pub closed spec fn ops_agrees(o: OnePassSignature, s: Signature) -> bool {
    match sig_config(s) {
        None => false,
        Some(c) => {
            &&& o.typ == c.typ
            &&& o.hash_algorithm == c.hash_alg
            &&& o.pub_algorithm == c.pub_alg
            &&& ops_version_pair_ok(o.version_specific, c.version_specific)
        },
    }
}
pub closed spec fn ops_hash(o: OnePassSignature) -> HashAlgorithm { o.hash_algorithm }
pub closed spec fn ops_typ(o: OnePassSignature) -> SignatureType { o.typ }
pub closed spec fn ops_vs(o: OnePassSignature) -> OpsVersionSpecific { o.version_specific }
impl OnePassSignature {
    #[verifier::external_body]
    pub fn matches(&self, sig: &Signature) -> (r: bool)
        ensures r == ops_agrees(*self, *sig)
    { unimplemented!() }
}
//@trusted T4 Signature::typ() is config().map(|c| c.typ); SignatureConfig::{hash_signature_data, trailer} satisfy the contracts PROVED in U30 (as restated in U32)
impl Signature {
    #[verifier::external_body]
    pub fn typ(&self) -> (r: Option<SignatureType>)
        ensures r == (match sig_config(*self) { Some(c) => Some(c.typ), None => None::<SignatureType> })
    { unimplemented!() }
}
impl SignatureConfig {
    #[verifier::external_body]
    pub fn hash_signature_data(&self, hasher: &mut Box<dyn DynDigest>) -> (r: errors::Result<usize>)
        ensures
            final(hasher).alg() == old(hasher).alg(),
            match r {
                Ok(n) => {
                    let ver = ver_of(self.version_specific);
                    &&& (ver is V2 || ver is V3) ==> n == 0
                            && final(hasher).view() == old(hasher).view() + sig_fields_v3(self.typ.id(), created_of(self.version_specific))
                    &&& (ver is V4 || ver is V6) ==> final(hasher).view() == old(hasher).view() + cfg_fields(*self)
                            && n == cfg_fields(*self).len()
                },
                Err(_) => final(hasher).view() == old(hasher).view(),
            },
    { unimplemented!() }
    #[verifier::external_body]
    pub fn trailer(&self, len: usize) -> (r: errors::Result<Vec<u8>>)
        ensures match r {
            Ok(t) => {
                let ver = ver_of(self.version_specific);
                &&& (ver is V2 || ver is V3) ==> t@ == Seq::<u8>::empty()
                &&& (ver is V4 || ver is V6) ==> len <= 0xffff_ffff && t@ == trailer(ver.id(), len as nat)
            },
            Err(_) => true,
        }
    { unimplemented!() }
}
//@trusted T4 NormalizingHasher::hash_buf satisfies the contract PROVED in unit U50 (plus: the algorithm of the inner hasher is unchanged)
impl NormalizingHasher {
    #[verifier::external_body]
    pub(crate) fn hash_buf(&mut self, buffer: &[u8])
        ensures
            final(self).text_mode == old(self).text_mode,
            final(self).hasher.alg() == old(self).hasher.alg(),
            old(self).text_mode ==> final(self).hasher.view() == old(self).hasher.view() + canon(buffer@, old(self).last_was_cr),
            old(self).text_mode ==> final(self).last_was_cr == end_cr(buffer@, old(self).last_was_cr),
            !old(self).text_mode ==> final(self).hasher.view() == old(self).hasher.view() + buffer@,
            !old(self).text_mode ==> final(self).last_was_cr == old(self).last_was_cr,
    { unimplemented!() }
}

// ---- iterator chains of fill_inner, as functions -----------------------------------------------------
//@trusted T2 Iterator semantics: `v.into_iter().map(f).collect::<Vec<_>>()` applies f to every element in order; `v.iter().filter(p).count()` counts the elements satisfying p; `a.into_iter().zip(b)` yields the pairs (a[i], b[i]) for i < min(|a|, |b|) in order.  The three functions below are what these chains are replaced with (their bodies / contracts say exactly that)
/// `hashers.into_iter().map(|h| h.map(|h| h.done())).collect()`
fn hashers_done(hashers: Vec<Option<NormalizingHasher>>) -> (r: Vec<Option<Box<dyn DynDigest>>>)
    ensures r@.len() == hashers@.len(),
        forall|i: int| 0 <= i < r@.len() ==> (#[trigger] r@[i] is Some) == (hashers@[i] is Some),
        forall|i: int| 0 <= i < r@.len() && hashers@[i] is Some ==> (#[trigger] r@[i])->Some_0 == hashers@[i]->Some_0.hasher,
{
    let mut hashers = hashers;
    let mut out: Vec<Option<Box<dyn DynDigest>>> = Vec::new();
    let ghost orig = hashers@;
    let n = hashers.len();
    let mut k: usize = 0;
    // (moves the elements out back to front, then restores the order)
    let mut rev: Vec<Option<Box<dyn DynDigest>>> = Vec::new();
    while hashers.len() > 0
        invariant
            hashers@.len() + rev@.len() == orig.len(),
            hashers@ == orig.subrange(0, hashers@.len() as int),
            forall|j: int| 0 <= j < rev@.len() ==> (#[trigger] rev@[j] is Some) == (orig[orig.len() - 1 - j] is Some),
            forall|j: int| 0 <= j < rev@.len() && orig[orig.len() - 1 - j] is Some ==> (#[trigger] rev@[j])->Some_0 == orig[orig.len() - 1 - j]->Some_0.hasher,
        decreases hashers@.len()
    {
        let h = hashers.pop().unwrap();
        let d = match h { Some(h) => Some(h.done()), None => None };
        rev.push(d);
    }
    while rev.len() > 0
        invariant
            out@.len() + rev@.len() == orig.len(),
            forall|j: int| 0 <= j < rev@.len() ==> (#[trigger] rev@[j] is Some) == (orig[orig.len() - 1 - j] is Some),
            forall|j: int| 0 <= j < rev@.len() && orig[orig.len() - 1 - j] is Some ==> (#[trigger] rev@[j])->Some_0 == orig[orig.len() - 1 - j]->Some_0.hasher,
            forall|i: int| 0 <= i < out@.len() ==> (#[trigger] out@[i] is Some) == (orig[i] is Some),
            forall|i: int| 0 <= i < out@.len() && orig[i] is Some ==> (#[trigger] out@[i])->Some_0 == orig[i]->Some_0.hasher,
        decreases rev@.len()
    {
        let d = rev.pop().unwrap();
        out.push(d);
    }
    out
}
/// number of one-pass headers among the first n packets
pub open spec fn ops_count(p: Seq<SignaturePacket>, n: int) -> nat
    decreases n
{
    if n <= 0 { 0 } else { ops_count(p, n - 1) + (if p[n - 1] is Ops { 1nat } else { 0nat }) }
}
/// `packets.iter().filter(|p| matches!(p, SignaturePacket::Ops { .. })).count()`
pub fn count_ops(packets: &Vec<SignaturePacket>) -> (r: usize)
    ensures r == ops_count(packets@, packets@.len() as int)
{
    let mut k: usize = 0;
    let mut c: usize = 0;
    while k < packets.len()
        invariant k <= packets@.len(), c == ops_count(packets@, k as int), c <= k
        decreases packets@.len() - k
    {
        if matches!(packets[k], SignaturePacket::Ops { .. }) { c += 1; }
        k += 1;
    }
    c
}
/// `hashers.into_iter().zip(packets)`
#[verifier::external_body]
pub struct ZipHP { h: Vec<Option<Box<dyn DynDigest>>>, p: Vec<SignaturePacket> }
impl ZipHP {
    pub uninterp spec fn rem(&self) -> Seq<(Option<Box<dyn DynDigest>>, SignaturePacket)>;
}
#[verifier::external_body]
pub fn zip_hashers_packets(hashers: Vec<Option<Box<dyn DynDigest>>>, packets: Vec<SignaturePacket>) -> (r: ZipHP)
    ensures
        r.rem().len() == (if hashers@.len() <= packets@.len() { hashers@.len() } else { packets@.len() }),
        forall|i: int| 0 <= i < r.rem().len() ==> (#[trigger] r.rem()[i]).0 == hashers@[i] && r.rem()[i].1 == packets@[i],
{ unimplemented!() }
impl Iterator for ZipHP {
    type Item = (Option<Box<dyn DynDigest>>, SignaturePacket);
    #[verifier::external_body]
    fn next(&mut self) -> (r: Option<(Option<Box<dyn DynDigest>>, SignaturePacket)>) { unimplemented!() }
}
impl vstd::std_specs::iter::IteratorSpecImpl for ZipHP {
    open spec fn obeys_prophetic_iter_laws(&self) -> bool { true }
    open spec fn remaining(&self) -> Seq<(Option<Box<dyn DynDigest>>, SignaturePacket)> { self.rem() }
    open spec fn will_return_none(&self) -> bool { true }
    open spec fn decrease(&self) -> Option<nat> { Some(self.rem().len()) }
    open spec fn peek(&self, index: int) -> Option<(Option<Box<dyn DynDigest>>, SignaturePacket)> {
        if 0 <= index < self.rem().len() { Some(self.rem()[index]) } else { None }
    }
}
