// ---------------------------------------------------------------------------------
// shims/secret_std.rs - std / bytes items used by the MPI, S2K-derivation and session-key
// units that neither vstd nor shims/bytes.rs specify.  Include after shims/bytes.rs and
// shims/secret_reader.rs inside verus!{}.
// ---------------------------------------------------------------------------------
//@trusted T2 <[T]>::to_vec returns a vector of element-wise clones (for u8: the same bytes); Bytes::from(Vec<u8>) keeps the content
pub assume_specification<T: Clone>[<[T]>::to_vec](s: &[T]) -> (r: Vec<T>)
    ensures r@.len() == s@.len(), forall|i: int| 0 <= i < s@.len() ==> cloned::<T>(s@[i], #[trigger] r@[i]);

impl core::convert::From<Vec<u8>> for Bytes {
    #[verifier::external_body]
    fn from(v: Vec<u8>) -> (r: Bytes) ensures r@ == v@ { unimplemented!() }
}

//@trusted T2 Iterator::position on slice::Iter<u8>: `s.iter().position(p)` returns the first index whose element satisfies p, None if there is none (std documentation); the closure is called with a reference to the element
pub fn slice_iter_position<P: Fn(&u8) -> bool>(s: &[u8], p: P) -> (r: Option<usize>)
    requires forall|c: &u8| p.requires((c,)),
    ensures match r {
        Some(i) => i < s@.len() && p.ensures((&s@[i as int],), true)
            && forall|j: int| 0 <= j < i ==> p.ensures((&#[trigger] s@[j],), false),
        None => forall|j: int| 0 <= j < s@.len() ==> p.ensures((&#[trigger] s@[j],), false),
    }
{
    let mut k: usize = 0;
    while k < s.len()
        invariant k <= s@.len(), forall|c: &u8| p.requires((c,)),
            forall|j: int| 0 <= j < k ==> p.ensures((&#[trigger] s@[j],), false),
        decreases s@.len() - k
    {
        if p(&s[k]) { return Some(k); }
        k += 1;
    }
    None
}

//@trusted T1 no in-memory byte string is longer than 2^56 octets (virtual address space of every supported 64-bit target), so 8 * len fits usize
#[verifier::external_body]
pub proof fn axiom_addr_space_bytes(b: &Bytes)
    ensures b@.len() < 0x0100_0000_0000_0000
{}
#[verifier::external_body]
pub proof fn axiom_addr_space_slice(b: &[u8])
    ensures b@.len() < 0x0100_0000_0000_0000
{}
