// ---------------------------------------------------------------------------------
// shims/keyversion_ord.rs - `==` and `<` on crate::types::KeyVersion.
// The unit must extract the REAL `enum KeyVersion` (src/types/packet.rs:414) with
//   //@sub /pub enum KeyVersion/ => "#[repr(u8)] #[derive(PartialEq, Eq, Copy, Clone, Structural)] pub enum KeyVersion"
// and include this file afterwards (inside verus!{}).
// ---------------------------------------------------------------------------------
//@trusted T7 derive(PartialEq, PartialOrd) on KeyVersion (src/types/packet.rs:411): `==` is equality of values; the derived order compares variants in declaration order V2 < V3 < V4 < V5 < V6 < Other(_) (for this enum also the order of the discriminants 2..6) and two Other(_) by their payload
pub open spec fn key_version_rank(v: KeyVersion) -> int {
    match v {
        KeyVersion::V2 => 0, KeyVersion::V3 => 1, KeyVersion::V4 => 2, KeyVersion::V5 => 3, KeyVersion::V6 => 4,
        KeyVersion::Other(_) => 5,
    }
}
impl vstd::std_specs::cmp::PartialEqSpecImpl for KeyVersion {
    open spec fn obeys_eq_spec() -> bool { true }
    open spec fn eq_spec(&self, o: &KeyVersion) -> bool { *self == *o }
}
impl vstd::std_specs::cmp::PartialOrdSpecImpl for KeyVersion {
    open spec fn obeys_partial_cmp_spec() -> bool { true }
    open spec fn partial_cmp_spec(&self, o: &KeyVersion) -> Option<core::cmp::Ordering> {
        if key_version_rank(*self) < key_version_rank(*o) { Some(core::cmp::Ordering::Less) }
        else if key_version_rank(*self) > key_version_rank(*o) { Some(core::cmp::Ordering::Greater) }
        else {
            match (*self, *o) {
                (KeyVersion::Other(a), KeyVersion::Other(b)) =>
                    if a < b { Some(core::cmp::Ordering::Less) } else if a > b { Some(core::cmp::Ordering::Greater) } else { Some(core::cmp::Ordering::Equal) },
                _ => Some(core::cmp::Ordering::Equal),
            }
        }
    }
}
impl PartialOrd for KeyVersion {
    #[verifier::external_body]
    fn partial_cmp(&self, o: &KeyVersion) -> (r: Option<core::cmp::Ordering>) { unimplemented!() }
}
