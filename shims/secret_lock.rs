// ---------------------------------------------------------------------------------
// shims/secret_lock.rs - what the secret-key lock/unlock unit (U16) assumes about code that is
// not its subject.  Include after shims/io.rs, shims/bytes.rs, shims/secret_algos.rs inside
// verus!{}; the unit must extract the REAL `enum StringToKey`, `enum S2kParams` (src/types/s2k.rs)
// BEFORE including this file.  NO cryptography is verified: CFB, AEAD, MD5, SHA-1, HKDF and the
// S2K derivation are uninterpreted functions with the single laws dec(enc(x)) == x /
// open(seal(x)) == Some(x).
// ---------------------------------------------------------------------------------

// ---- the ciphers behind SymmetricKeyAlgorithm::{en,de}crypt_with_iv_regular ------------------------
//@trusted T3 cfb_mode::{Decryptor, Encryptor}<C> (one-shot full-block CFB, RFC 9580 5.5.3 "regular CFB") are UNINTERPRETED length-preserving functions cfbr_dec / cfbr_enc of (cipher, key, iv, data) with the single law cfbr_dec(c, k, iv, cfbr_enc(c, k, iv, x)) == x; new_from_slices stores key and iv (it fails for a key / iv length the cipher does not take; which lengths those are is not modelled), decrypt / encrypt transform the buffer in place.  The eleven cipher types are markers; cid() is the RFC 9580 9.3 algorithm id the type implements
pub trait CfbCipher { spec fn cid() -> u8; }
pub struct Idea;        impl CfbCipher for Idea        { open spec fn cid() -> u8 { 1 } }
pub struct TdesEde3;    impl CfbCipher for TdesEde3    { open spec fn cid() -> u8 { 2 } }
pub struct Cast5;       impl CfbCipher for Cast5       { open spec fn cid() -> u8 { 3 } }
pub struct Blowfish;    impl CfbCipher for Blowfish    { open spec fn cid() -> u8 { 4 } }
pub struct Aes128;      impl CfbCipher for Aes128      { open spec fn cid() -> u8 { 7 } }
pub struct Aes192;      impl CfbCipher for Aes192      { open spec fn cid() -> u8 { 8 } }
pub struct Aes256;      impl CfbCipher for Aes256      { open spec fn cid() -> u8 { 9 } }
pub struct Twofish;     impl CfbCipher for Twofish     { open spec fn cid() -> u8 { 10 } }
pub struct Camellia128; impl CfbCipher for Camellia128 { open spec fn cid() -> u8 { 11 } }
pub struct Camellia192; impl CfbCipher for Camellia192 { open spec fn cid() -> u8 { 12 } }
pub struct Camellia256; impl CfbCipher for Camellia256 { open spec fn cid() -> u8 { 13 } }

/// the key / IV lengths cipher `cid` accepts (not modelled further)
pub uninterp spec fn cfb_params_ok(cid: u8, key_len: nat, iv_len: nat) -> bool;
pub uninterp spec fn cfbr_enc(cid: u8, key: Seq<u8>, iv: Seq<u8>, pt: Seq<u8>) -> Seq<u8>;
pub uninterp spec fn cfbr_dec(cid: u8, key: Seq<u8>, iv: Seq<u8>, ct: Seq<u8>) -> Seq<u8>;
#[verifier::external_body]
pub proof fn axiom_cfbr_len(cid: u8, key: Seq<u8>, iv: Seq<u8>, x: Seq<u8>)
    ensures cfbr_enc(cid, key, iv, x).len() == x.len(), cfbr_dec(cid, key, iv, x).len() == x.len() {}
#[verifier::external_body]
pub proof fn axiom_cfbr_dec_enc(cid: u8, key: Seq<u8>, iv: Seq<u8>, x: Seq<u8>)
    ensures cfbr_dec(cid, key, iv, cfbr_enc(cid, key, iv, x)) == x {}

//@trusted T2 Result::expect needs E: Debug; the Debug text of the opaque error type is not modelled
#[verifier::external]
impl core::fmt::Debug for errors::Error {
    fn fmt(&self, f: &mut core::fmt::Formatter<'_>) -> core::fmt::Result { Ok(()) }
}
pub struct InvalidLength;
impl core::convert::From<InvalidLength> for errors::Error {
    #[verifier::external_body]
    fn from(e: InvalidLength) -> (r: errors::Error) { unimplemented!() }
}
#[verifier::external_body]
#[verifier::accept_recursive_types(C)]
pub struct Decryptor<C> { _c: core::marker::PhantomData<C> }
impl<C: CfbCipher> Decryptor<C> {
    pub uninterp spec fn key(&self) -> Seq<u8>;
    pub uninterp spec fn iv(&self) -> Seq<u8>;
    #[verifier::external_body]
    pub fn new_from_slices(key: &[u8], iv: &[u8]) -> (r: core::result::Result<Self, InvalidLength>)
        ensures r matches Ok(d) ==> d.key() == key@ && d.iv() == iv@,
            (r is Ok) == cfb_params_ok(C::cid(), key@.len(), iv@.len())
    { unimplemented!() }
    #[verifier::external_body]
    pub fn decrypt(self, buf: &mut [u8])
        ensures final(buf)@ == cfbr_dec(C::cid(), self.key(), self.iv(), old(buf)@)
    { unimplemented!() }
}
#[verifier::external_body]
#[verifier::accept_recursive_types(C)]
pub struct Encryptor<C> { _c: core::marker::PhantomData<C> }
impl<C: CfbCipher> Encryptor<C> {
    pub uninterp spec fn key(&self) -> Seq<u8>;
    pub uninterp spec fn iv(&self) -> Seq<u8>;
    #[verifier::external_body]
    pub fn new_from_slices(key: &[u8], iv: &[u8]) -> (r: core::result::Result<Self, InvalidLength>)
        ensures r matches Ok(d) ==> d.key() == key@ && d.iv() == iv@,
            (r is Ok) == cfb_params_ok(C::cid(), key@.len(), iv@.len())
    { unimplemented!() }
    #[verifier::external_body]
    pub fn encrypt(self, buf: &mut [u8])
        ensures final(buf)@ == cfbr_enc(C::cid(), self.key(), self.iv(), old(buf)@)
    { unimplemented!() }
}

// ---- AEAD (same contracts as shims/aead.rs, over the enums of shims/secret_algos.rs) -----------------
pub open spec fn spec_tag_size(a: AeadAlgorithm) -> Option<usize> {
    match a { AeadAlgorithm::Eax => Some(16usize), AeadAlgorithm::Ocb => Some(16usize), AeadAlgorithm::Gcm => Some(16usize), _ => None }
}
pub open spec fn spec_aead_nonce_size(a: AeadAlgorithm) -> nat {
    match a { AeadAlgorithm::Eax => 16, AeadAlgorithm::Ocb => 15, AeadAlgorithm::Gcm => 12, _ => 0 }
}
pub open spec fn spec_key_size(s: SymmetricKeyAlgorithm) -> nat {
    match s {
        SymmetricKeyAlgorithm::IDEA | SymmetricKeyAlgorithm::CAST5 | SymmetricKeyAlgorithm::Blowfish | SymmetricKeyAlgorithm::AES128 | SymmetricKeyAlgorithm::Camellia128 => 16,
        SymmetricKeyAlgorithm::TripleDES | SymmetricKeyAlgorithm::AES192 | SymmetricKeyAlgorithm::Camellia192 => 24,
        SymmetricKeyAlgorithm::AES256 | SymmetricKeyAlgorithm::Twofish | SymmetricKeyAlgorithm::Camellia256 => 32,
        _ => 0,
    }
}
pub open spec fn aead_pair_supported(a: AeadAlgorithm, s: SymmetricKeyAlgorithm) -> bool {
    (a == AeadAlgorithm::Eax || a == AeadAlgorithm::Ocb || a == AeadAlgorithm::Gcm)
    && (s == SymmetricKeyAlgorithm::AES128 || s == SymmetricKeyAlgorithm::AES192 || s == SymmetricKeyAlgorithm::AES256)
}
//@trusted T3 aead_seal / aead_open(alg, sym, key, nonce, ad, data) are uninterpreted; the single law is open(seal(x)) == Some(x) under the same (alg, sym, key, nonce, ad) for a supported pair; Some(pt) implies |ct| == |pt| + 16.  Authenticity (no other ciphertext / AD opens) is NOT assumed
pub uninterp spec fn aead_seal(a: AeadAlgorithm, s: SymmetricKeyAlgorithm, key: Seq<u8>, nonce: Seq<u8>, ad: Seq<u8>, pt: Seq<u8>) -> Seq<u8>;
pub uninterp spec fn aead_open(a: AeadAlgorithm, s: SymmetricKeyAlgorithm, key: Seq<u8>, nonce: Seq<u8>, ad: Seq<u8>, ct: Seq<u8>) -> Option<Seq<u8>>;
#[verifier::external_body]
pub proof fn axiom_aead_open_seal(a: AeadAlgorithm, s: SymmetricKeyAlgorithm, key: Seq<u8>, nonce: Seq<u8>, ad: Seq<u8>, pt: Seq<u8>)
    requires aead_pair_supported(a, s), key.len() >= spec_key_size(s), nonce.len() == spec_aead_nonce_size(a)
    ensures aead_open(a, s, key, nonce, ad, aead_seal(a, s, key, nonce, ad, pt)) == Some(pt),
        aead_seal(a, s, key, nonce, ad, pt).len() == pt.len() + 16 {}
#[verifier::external_body]
pub proof fn axiom_aead_open_len(a: AeadAlgorithm, s: SymmetricKeyAlgorithm, key: Seq<u8>, nonce: Seq<u8>, ad: Seq<u8>, ct: Seq<u8>)
    ensures aead_open(a, s, key, nonce, ad, ct) is Some ==> ct.len() >= 16 && aead_open(a, s, key, nonce, ad, ct)->Some_0.len() == ct.len() - 16 && aead_pair_supported(a, s) {}

pub mod aead_err {
    pub struct Error { pub k: u8 }
}
impl core::convert::From<aead_err::Error> for errors::Error {
    #[verifier::external_body]
    fn from(e: aead_err::Error) -> (r: errors::Error) { unimplemented!() }
}
//@trusted T3 AeadAlgorithm::decrypt_in_place: Ok => buf' == aead_open(..).unwrap(); Err => aead_open(..) is None.  encrypt_in_place: Ok => buf' == aead_seal(..) and the pair is supported.  PRECONDITION (real panics in the RustCrypto crates): for a supported pair |key| >= key_size(sym) and |nonce| == nonce_size(alg)
impl AeadAlgorithm {
    #[verifier::external_body]
    pub fn decrypt_in_place(&self, sym_algorithm: &SymmetricKeyAlgorithm, key: &[u8], nonce: &[u8], associated_data: &[u8], buffer: &mut BytesMut) -> (r: core::result::Result<(), aead_err::Error>)
        requires aead_pair_supported(*self, *sym_algorithm) ==> key@.len() >= spec_key_size(*sym_algorithm) && nonce@.len() == spec_aead_nonce_size(*self),
        ensures match r {
            Ok(_) => aead_open(*self, *sym_algorithm, key@, nonce@, associated_data@, old(buffer)@) == Some(final(buffer)@),
            Err(_) => aead_open(*self, *sym_algorithm, key@, nonce@, associated_data@, old(buffer)@) is None,
        }
    { unimplemented!() }
    #[verifier::external_body]
    pub fn encrypt_in_place(&self, sym_algorithm: &SymmetricKeyAlgorithm, key: &[u8], nonce: &[u8], associated_data: &[u8], buffer: &mut BytesMut) -> (r: core::result::Result<(), aead_err::Error>)
        requires aead_pair_supported(*self, *sym_algorithm) ==> key@.len() >= spec_key_size(*sym_algorithm) && nonce@.len() == spec_aead_nonce_size(*self),
        ensures match r {
            Ok(_) => final(buffer)@ == aead_seal(*self, *sym_algorithm, key@, nonce@, associated_data@, old(buffer)@) && aead_pair_supported(*self, *sym_algorithm),
            Err(_) => true,
        }
    { unimplemented!() }
}

// ---- hashes -----------------------------------------------------------------------------------------
//@trusted T3 md5::Md5::digest(d) is an uninterpreted function md5(d) into 16 octets; the result derefs to its octets
pub uninterp spec fn md5(m: Seq<u8>) -> Seq<u8>;
pub mod md5 {
    use super::*;
    #[verifier::external_body]
    pub struct Md5Output { _p: u8 }
    impl View for Md5Output { type V = Seq<u8>; uninterp spec fn view(&self) -> Seq<u8>; }
    impl core::ops::Deref for Md5Output {
        type Target = [u8];
        #[verifier::external_body]
        fn deref(&self) -> (r: &[u8]) ensures r@ == self@ { unimplemented!() }
    }
    pub struct Md5;
    impl Md5 {
        #[verifier::external_body]
        pub fn digest(data: Zeroizing<Vec<u8>>) -> (r: Md5Output) ensures r@ == super::md5(data.v@), r@.len() == 16 { unimplemented!() }
    }
}
//@trusted T4 crypto::checksum (contracts proved in U17): calculate_sha1([d]) is Ok(sha1(d)) unless the collision detector fires (uninterpreted predicate sha1_collision(d)); SimpleChecksum absorbs everything written to it (any chunking, U17 lemma_add16_concat) and finish()/finalize() report sum16 of ALL absorbed octets.  U17's finding simple-sum-u32-overflow (a single write of >= 16_843_010 octets can overflow the u32 accumulator) is NOT repeated here: this shim's write has no precondition
pub uninterp spec fn sha1(m: Seq<u8>) -> Seq<u8>;
pub uninterp spec fn sha1_collision(m: Seq<u8>) -> bool;
#[verifier::external_body]
pub proof fn axiom_sha1_len(m: Seq<u8>) ensures sha1(m).len() == 20 {}
pub open spec fn byte_sum(s: Seq<u8>) -> nat
    decreases s.len()
{
    if s.len() == 0 { 0 } else { byte_sum(s.drop_last()) + s.last() as nat }
}
pub open spec fn sum16(s: Seq<u8>) -> u16 { (byte_sum(s) % 65536) as u16 }
pub mod checksum {
    use super::*;
    pub struct Sha1HashCollision;
    #[verifier::external_body]
    pub fn calculate_sha1(data: [&[u8]; 1]) -> (r: core::result::Result<[u8; 20], Sha1HashCollision>)
        ensures match r {
            Ok(h) => h@ == sha1(data@[0]@) && !sha1_collision(data@[0]@),
            Err(_) => sha1_collision(data@[0]@),
        }
    { unimplemented!() }
    #[verifier::external_body]
    pub struct SimpleChecksum { s: u16 }
    impl SimpleChecksum {
        pub uninterp spec fn absorbed(&self) -> Seq<u8>;
        #[verifier::external_body]
        pub fn default() -> (r: SimpleChecksum) ensures r.absorbed() == Seq::<u8>::empty() { unimplemented!() }
        #[verifier::external_body]
        pub fn finalize(&self) -> (r: [u8; 2]) ensures r@ == be16(sum16(self.absorbed())) { unimplemented!() }
        #[verifier::external_body]
        pub fn to_writer<W: io::Write>(&self, writer: &mut W) -> (r: io::Result<()>)
            ensures r is Ok ==> (*final(writer)).out() == (*old(writer)).out() + be16(sum16(self.absorbed()))
        { unimplemented!() }
    }
    impl io::Write for SimpleChecksum {
        open spec fn out(&self) -> Seq<u8> { self.absorbed() }
        #[verifier::external_body]
        fn write(&mut self, buf: &[u8]) -> (r: io::Result<usize>) { unimplemented!() }
        #[verifier::external_body]
        fn write_all(&mut self, buf: &[u8]) -> (r: io::Result<()>) { unimplemented!() }
        #[verifier::external_body]
        fn flush(&mut self) -> (r: io::Result<()>) { unimplemented!() }
    }
    impl hash_shim::Hasher for SimpleChecksum {
        open spec fn habs(&self) -> Seq<u8> { self.absorbed() }
        #[verifier::external_body]
        fn finish(&self) -> (r: u64) { unimplemented!() }
    }
}
impl core::convert::From<checksum::Sha1HashCollision> for errors::Error {
    #[verifier::external_body]
    fn from(e: checksum::Sha1HashCollision) -> (r: errors::Error) { unimplemented!() }
}
pub mod hash_shim {
    use super::*;
    pub trait Hasher {
        spec fn habs(&self) -> Seq<u8>;
        fn finish(&self) -> (r: u64) ensures r == sum16(self.habs());
    }
}
//@trusted T2 byteorder::BigEndian::read_u16(buf) decodes buf[0..2] big-endian (panics if buf is shorter: precondition)
impl BigEndian {
    #[verifier::external_body]
    pub fn read_u16(buf: &[u8]) -> (r: u16)
        requires buf@.len() >= 2
        ensures be16(r) == buf@.subrange(0, 2)
    { unimplemented!() }
}
pub proof fn lemma_be16_inj(a: u16, b: u16)
    ensures be16(a) == be16(b) ==> a == b
{
    if be16(a) == be16(b) {
        assert(be16(a)[0] == be16(b)[0] && be16(a)[1] == be16(b)[1]);
        assert(((a >> 8) as u8 == (b >> 8) as u8 && (a & 0xff) as u8 == (b & 0xff) as u8) ==> a == b) by (bit_vector);
    }
}

// ---- bytes / zeroize / std ------------------------------------------------------------------------
//@trusted T2 bytes: Bytes::clone copies the content; BytesMut::from(Bytes), Bytes::from(BytesMut) and Bytes::from(Vec<u8>) keep it; Bytes / BytesMut deref to the slice of their content; AsRef<[u8]> likewise; Buf::reader() of a BytesMut / byte slice is an in-memory reader over exactly those bytes that never fails; BytesMut::writer() appends what is written and never fails, into_inner() gives the buffer back
impl Clone for Bytes {
    #[verifier::external_body]
    fn clone(&self) -> (r: Bytes) ensures r@ == self@ { unimplemented!() }
}
pub mod lock_bytes_ax {
    use super::*;
    pub uninterp spec fn bytes_of(s: Seq<u8>) -> Bytes;
    pub uninterp spec fn bytesmut_of(s: Seq<u8>) -> BytesMut;
    #[verifier::external_body]
    pub broadcast proof fn axiom_bytes_of(s: Seq<u8>) ensures (#[trigger] bytes_of(s))@ == s {}
    #[verifier::external_body]
    pub broadcast proof fn axiom_bytesmut_of(s: Seq<u8>) ensures (#[trigger] bytesmut_of(s))@ == s {}
}
pub use lock_bytes_ax::*;
// (no module-level `broadcast use`: the axioms mention Bytes::view of the root module, which Verus reports as a cycle;
//  proofs call axiom_bytes_of / axiom_bytesmut_of explicitly)
impl vstd::std_specs::convert::FromSpecImpl<Bytes> for BytesMut {
    open spec fn obeys_from_spec() -> bool { true }
    open spec fn from_spec(b: Bytes) -> BytesMut { bytesmut_of(b@) }
}
impl core::convert::From<Bytes> for BytesMut {
    #[verifier::external_body]
    fn from(b: Bytes) -> (r: BytesMut) { unimplemented!() }
}
impl vstd::std_specs::convert::FromSpecImpl<BytesMut> for Bytes {
    open spec fn obeys_from_spec() -> bool { true }
    open spec fn from_spec(b: BytesMut) -> Bytes { bytes_of(b@) }
}
impl core::convert::From<BytesMut> for Bytes {
    #[verifier::external_body]
    fn from(b: BytesMut) -> (r: Bytes) { unimplemented!() }
}
impl vstd::std_specs::convert::FromSpecImpl<Vec<u8>> for Bytes {
    open spec fn obeys_from_spec() -> bool { true }
    open spec fn from_spec(b: Vec<u8>) -> Bytes { bytes_of(b@) }
}
impl core::convert::From<Vec<u8>> for Bytes {
    #[verifier::external_body]
    fn from(b: Vec<u8>) -> (r: Bytes) { unimplemented!() }
}
impl core::ops::Deref for BytesMut {
    type Target = [u8];
    #[verifier::external_body]
    fn deref(&self) -> (r: &[u8]) ensures r@ == self@ { unimplemented!() }
}
impl core::ops::Deref for Bytes {
    type Target = [u8];
    #[verifier::external_body]
    fn deref(&self) -> (r: &[u8]) ensures r@ == self@ { unimplemented!() }
}
impl io::Write for Vec<u8> {
    open spec fn out(&self) -> Seq<u8> { self@ }
    #[verifier::external_body]
    fn write(&mut self, buf: &[u8]) -> (r: io::Result<usize>) { unimplemented!() }
    #[verifier::external_body]
    fn write_all(&mut self, buf: &[u8]) -> (r: io::Result<()>) { unimplemented!() }
    #[verifier::external_body]
    fn flush(&mut self) -> (r: io::Result<()>) { unimplemented!() }
}
//@trusted T2 snafu context selector InvalidInputSnafu.build() is an opaque crate::errors::Error value
pub struct InvalidInputSnafu;
impl InvalidInputSnafu {
    #[verifier::external_body]
    pub fn build(self) -> (e: errors::Error) { unimplemented!() }
}
//@trusted T4 BufReadParsing::{read_arr::<C>, has_remaining} (src/parsing_reader.rs; Ok side proved in U71): Ok means the stream held enough bytes, the value is exactly the next C bytes and exactly those are consumed / has_remaining reports whether bytes remain and consumes nothing.  BEYOND U71 (needed for the round-trip direction only): they fail only if fewer than C octets remain, resp. only if the underlying reader fails
pub trait BufReadParsing: io::BufRead + Sized {
    fn has_remaining(&mut self) -> (r: io::Result<bool>)
        ensures match r {
            Ok(v) => v == ((*old(self)).rest().len() > 0) && (*final(self)).rest() == (*old(self)).rest(),
            Err(_) => reader_may_fail::<Self>() };
    fn read_arr<const C: usize>(&mut self) -> (r: io::Result<[u8; C]>)
        ensures match r {
            Ok(a) => (*old(self)).rest().len() >= C && a@ == (*old(self)).rest().subrange(0, C as int) && (*final(self)).rest() == (*old(self)).rest().skip(C as int),
            Err(e) => (*old(self)).rest().len() < C || reader_may_fail::<Self>() };
}
impl<B: io::BufRead> BufReadParsing for B {
    #[verifier::external_body]
    fn has_remaining(&mut self) -> (r: io::Result<bool>) { unimplemented!() }
    #[verifier::external_body]
    fn read_arr<const C: usize>(&mut self) -> (r: io::Result<[u8; C]>) { unimplemented!() }
}
//@trusted T4 crate::ser::Serialize of the PUBLIC key: wire() names the octets to_writer appends (public key packet fields starting with the version octet)
pub trait Serialize {
    spec fn wire(&self) -> Seq<u8>;
}
impl core::ops::DerefMut for BytesMut {
    #[verifier::external_body]
    fn deref_mut(&mut self) -> (r: &mut [u8]) ensures r@ == old(self)@, final(r)@ == final(self)@ { unimplemented!() }
}
impl BytesMut {
    #[verifier::external_body]
    pub fn as_ref(&self) -> (r: &[u8]) ensures r@ == self@ { unimplemented!() }
    #[verifier::external_body]
    pub fn writer(self) -> (r: BytesWriter) ensures r.content() == self@ { unimplemented!() }
}
pub uninterp spec fn reader_may_fail<B>() -> bool;
pub uninterp spec fn writer_may_fail<W>() -> bool;
#[verifier::external_body]
pub proof fn axiom_mem_io_never_fails()
    ensures !reader_may_fail::<MemReader>(), !reader_may_fail::<&mut MemReader>(), !writer_may_fail::<Vec<u8>>(), !writer_may_fail::<BytesWriter>(),
        !writer_may_fail::<checksum::SimpleChecksum>() {}
/// bytes::buf::Reader<BytesMut> / Reader<&[u8]>
#[verifier::external_body]
pub struct MemReader { v: Vec<u8> }
impl MemReader { pub uninterp spec fn content(&self) -> Seq<u8>; }
impl io::Read for MemReader {
    open spec fn rest(&self) -> Seq<u8> { self.content() }
    #[verifier::external_body]
    fn read(&mut self, buf: &mut [u8]) -> (r: io::Result<usize>) { unimplemented!() }
}
impl io::BufRead for MemReader {
    uninterp spec fn buffered(&self) -> nat;
    #[verifier::external_body]
    proof fn buffered_le_rest(&self) {}
    #[verifier::external_body]
    fn fill_buf(&mut self) -> (r: io::Result<&[u8]>) { unimplemented!() }
    #[verifier::external_body]
    fn consume(&mut self, amt: usize) { unimplemented!() }
}
pub trait Buf: Sized {
    spec fn bview(&self) -> Seq<u8>;
    fn reader(self) -> (r: MemReader) ensures r.content() == self.bview();
}
impl Buf for BytesMut {
    open spec fn bview(&self) -> Seq<u8> { self@ }
    #[verifier::external_body]
    fn reader(self) -> (r: MemReader) { unimplemented!() }
}
impl Buf for &[u8] {
    open spec fn bview(&self) -> Seq<u8> { (*self)@ }
    #[verifier::external_body]
    fn reader(self) -> (r: MemReader) { unimplemented!() }
}
/// bytes::buf::Writer<BytesMut>
#[verifier::external_body]
pub struct BytesWriter { v: Vec<u8> }
impl BytesWriter {
    pub uninterp spec fn content(&self) -> Seq<u8>;
    #[verifier::external_body]
    pub fn into_inner(self) -> (r: BytesMut) ensures r@ == self.content() { unimplemented!() }
}
impl io::Write for BytesWriter {
    open spec fn out(&self) -> Seq<u8> { self.content() }
    #[verifier::external_body]
    fn write(&mut self, buf: &[u8]) -> (r: io::Result<usize>) { unimplemented!() }
    #[verifier::external_body]
    fn write_all(&mut self, buf: &[u8]) -> (r: io::Result<()>) { unimplemented!() }
    #[verifier::external_body]
    fn flush(&mut self) -> (r: io::Result<()>) { unimplemented!() }
}
//@trusted T2 zeroize::Zeroizing<T> is a transparent wrapper (wiping is not modelled)
pub struct Zeroizing<T> { pub v: T }
impl<T> core::ops::Deref for Zeroizing<T> {
    type Target = T;
    fn deref(&self) -> (r: &T) ensures *r == self.v { &self.v }
}
//@trusted T2 `&[u8] != [u8; 20]` (core::array::equality) compares contents; <[u8]>::split_at(mid) requires mid <= len (panics otherwise) and returns the two halves
pub fn slice_ne_arr20(a: &[u8], b: &[u8; 20]) -> (r: bool)
    ensures r == (a@ != b@)
{
    if a.len() != 20 { return true; }
    let mut i: usize = 0;
    while i < 20
        invariant i <= 20, a@.len() == 20, forall|j: int| 0 <= j < i ==> a@[j] == b@[j]
        decreases 20 - i
    {
        if a[i] != b[i] { return true; }
        i += 1;
    }
    proof { assert(a@ =~= b@); }
    false
}
pub assume_specification<T: Clone>[<[T]>::to_vec](s: &[T]) -> (r: Vec<T>)
    ensures r@.len() == s@.len(), forall|i: int| 0 <= i < s@.len() ==> cloned::<T>(s@[i], #[trigger] r@[i]);

// ---- key material that is only passed through ---------------------------------------------------------
//@trusted T4 Password::read() yields the password octets (a Dynamic password is assumed to yield the same octets on every call); Tag is an opaque packet-type value; composed::RawSessionKey is a byte string
#[verifier::external_body]
pub struct Password { v: u8 }
impl Password {
    pub uninterp spec fn bytes(&self) -> Seq<u8>;
    #[verifier::external_body]
    pub fn read(&self) -> (r: Zeroizing<Vec<u8>>) ensures r.v@ == self.bytes() { unimplemented!() }
}
#[verifier::external_body]
#[derive(Clone, Copy)]
pub struct Tag { v: u8 }
#[verifier::external_body]
pub struct RawSessionKey { v: Vec<u8> }
impl View for RawSessionKey { type V = Seq<u8>; uninterp spec fn view(&self) -> Seq<u8>; }
impl RawSessionKey {
    #[verifier::external_body]
    pub fn as_ref(&self) -> (r: &[u8]) ensures r@ == self@ { unimplemented!() }
}

//@trusted T4 KeyDetails / Serialize of the public key are pure observers: version(), algorithm(), public_params() and the serialisation wire() of shims/secret_reader.rs' Serialize (public key packet fields starting with the version octet) are functions of the key; nothing is assumed about their values
pub trait KeyDetails {
    spec fn spec_version(&self) -> KeyVersion;
    spec fn spec_algorithm(&self) -> PublicKeyAlgorithm;
    spec fn spec_pp(&self) -> PublicParams;
    fn version(&self) -> (r: KeyVersion) ensures r == self.spec_version();
    fn algorithm(&self) -> (r: PublicKeyAlgorithm) ensures r == self.spec_algorithm();
    fn public_params(&self) -> (r: &PublicParams) ensures *r == self.spec_pp();
}

//@trusted T4 StringToKey::derive_key(pw, n) (unit U12) is a deterministic partial function s2k_derive(s2k, pw, n) of its three inputs returning n octets; Err exactly where it is undefined (unsupported specifier / hash, Argon2 parameter ceilings)
pub uninterp spec fn s2k_derive(s: StringToKey, pw: Seq<u8>, n: nat) -> Option<Seq<u8>>;
impl StringToKey {
    #[verifier::external_body]
    pub fn derive_key(&self, passphrase: &[u8], key_size: usize) -> (r: errors::Result<RawSessionKey>)
        ensures match r {
            Ok(k) => s2k_derive(*self, passphrase@, key_size as nat) == Some(k@) && k@.len() == key_size,
            Err(_) => s2k_derive(*self, passphrase@, key_size as nat) is None,
        }
    { unimplemented!() }
}
impl PartialEq for HashAlgorithm {
    #[verifier::external_body]
    fn eq(&self, o: &HashAlgorithm) -> (r: bool) ensures r == (*self == *o) { unimplemented!() }
}
impl vstd::std_specs::cmp::PartialEqSpecImpl for HashAlgorithm {
    open spec fn obeys_eq_spec() -> bool { true }
    open spec fn eq_spec(&self, o: &HashAlgorithm) -> bool { *self == *o }
}

//@trusted T4 s2k_usage_aead(derived, tag, key, sym, aead) (byte layout: unit U91) returns the HKDF output keying material aead_okm(derived, tag, version, sym, aead) - 32 octets - and the associated data aead_ad(tag, wire(key)): both uninterpreted here; it fails only if the key cannot be serialised
pub uninterp spec fn aead_okm(derived: Seq<u8>, tag: Tag, ver: KeyVersion, sym: SymmetricKeyAlgorithm, aead: AeadAlgorithm) -> Seq<u8>;
pub uninterp spec fn aead_ad(tag: Tag, kwire: Seq<u8>) -> Seq<u8>;
#[verifier::external_body]
pub proof fn axiom_aead_okm_len(derived: Seq<u8>, tag: Tag, ver: KeyVersion, sym: SymmetricKeyAlgorithm, aead: AeadAlgorithm)
    ensures aead_okm(derived, tag, ver, sym, aead).len() == 32 {}
pub uninterp spec fn key_serialisable(kwire: Seq<u8>) -> bool;
#[verifier::external_body]
pub fn s2k_usage_aead<K: KeyDetails + Serialize>(derived: &[u8], secret_tag: Tag, pub_key: &K, sym_alg: SymmetricKeyAlgorithm, aead_mode: AeadAlgorithm) -> (r: errors::Result<([u8; 32], Vec<u8>)>)
    ensures match r {
        Ok((okm, ad)) => okm@ == aead_okm(derived@, secret_tag, pub_key.spec_version(), sym_alg, aead_mode) && ad@ == aead_ad(secret_tag, pub_key.wire()) && key_serialisable(pub_key.wire()),
        Err(_) => !key_serialisable(pub_key.wire()),
    }
{ unimplemented!() }
