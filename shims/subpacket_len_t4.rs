// ---------------------------------------------------------------------------------
// shims/subpacket_len_t4.rs - packet::signature::SubpacketLength as *assumed* contracts for units
// whose subject merely stores / calls it (U66s user attribute).  Every clause here is PROVED on the
// real code in units/U60s_subpacket_len.vu (same spec vocabulary: lemmas/packet_wire.rs splen_dec /
// splen_enc, lemmas/subpacket_wire.rs splen_w / splen_n / splen_wf / splen_wire).
// Include after the extracted `enum SubpacketLength`, lemmas/packet_wire.rs, lemmas/subpacket_wire.rs
// and shims/codec_reader.rs (trait Serialize).
// ---------------------------------------------------------------------------------
//@trusted T4 SubpacketLength::{try_from_reader (given as try_from_reader_ref: the instance B := &mut B0 every caller uses), encode, len, is_empty, to_writer, write_len}: RFC 9580 5.2.3.7 length codec that keeps the encoding width read from the wire in the variant; encode() picks the minimal width; write_len() is the width of the STORED variant (contracts proved in U60s)
impl SubpacketLength {
    #[verifier::external_body]
    pub fn try_from_reader_ref<B: io::BufRead>(i: &mut B) -> (r: errors::Result<SubpacketLength>)
        ensures match r {
            Ok(l) => ({
                let inp = (*old(i)).rest();
                &&& splen_dec(inp) == Some((splen_w(l), splen_n(l)))
                &&& splen_wf(l)
                &&& inp == splen_wire(l) + (*final(i)).rest()
                &&& (*final(i)).rest() == inp.skip(splen_w(l))
            }),
            Err(_) => true }
    { unimplemented!() }
    #[verifier::external_body]
    pub fn encode(len: u32) -> (r: SubpacketLength)
        ensures splen_wf(r), splen_n(r) == len, splen_w(r) == splen_min_width(len as nat)
    { unimplemented!() }
    #[verifier::external_body]
    pub fn len(&self) -> (r: usize)
        ensures r == splen_n(*self)
    { unimplemented!() }
    #[verifier::external_body]
    pub fn is_empty(&self) -> (r: bool)
        ensures r == (splen_n(*self) == 0)
    { unimplemented!() }
}
impl Serialize for SubpacketLength {
    open spec fn wire(&self) -> Seq<u8> { splen_wire(*self) }
    open spec fn ser_inv(&self) -> bool { splen_wf(*self) }
    open spec fn len_inv(&self) -> bool { true }
    /// the debug assertions of to_writer (One < 192, first octet of Two in 192..=254)
    open spec fn wr_inv(&self) -> bool { splen_wf(*self) }
    #[verifier::external_body]
    fn to_writer<W: io::Write>(&self, writer: &mut W) -> (r: errors::Result<()>) { unimplemented!() }
    #[verifier::external_body]
    fn write_len(&self) -> (r: usize)
        ensures r == splen_w(*self)
    { unimplemented!() }
}
