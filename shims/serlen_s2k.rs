// ---------------------------------------------------------------------------------
// shims/serlen_s2k.rs - the S2K specifier codec as an *assumed* component of EncryptedSecretParams (U75e), for the
// Serialize trait of shims/serlen_sink.rs, and derive(PartialEq) on S2kParams.  Include after the unit has
// extracted `enum StringToKey`, `enum S2kParams` (src/types/s2k.rs) and included lemmas/s2k_wire.rs.
// ---------------------------------------------------------------------------------
//@trusted T4 StringToKey::{to_writer, write_len, len}: to_writer appends s2k_wire, write_len() is its length, len() is Ok(n) exactly for the sized types with n == wire length (proved in U13); PARAMETRICITY as for crate::ser::Serialize (same_dest)
impl StringToKey {
    #[verifier::external_body]
    pub(crate) fn len(&self) -> (r: errors::Result<u8>)
        ensures match r {
            Ok(n) => s2k_sized(*self) && n == s2k_wire(*self).len(),
            Err(_) => !s2k_sized(*self) }
    { unimplemented!() }
}
impl Serialize for StringToKey {
    open spec fn wire(&self) -> Seq<u8> { s2k_wire(*self) }
    open spec fn ser_inv(&self) -> bool { true }
    #[verifier::external_body]
    fn to_writer<W: io::Write>(&self, writer: &mut W) -> (r: errors::Result<()>) { unimplemented!() }
    #[verifier::external_body]
    fn write_len(&self) -> (r: usize) { unimplemented!() }
}
//@trusted T7 derive(PartialEq) on S2kParams: comparing with the field-less variant Unprotected is a variant test
pub open spec fn s2k_params_eq(a: S2kParams, b: S2kParams) -> bool;
impl PartialEqSpecImpl for S2kParams {
    open spec fn obeys_eq_spec() -> bool { true }
    open spec fn eq_spec(&self, other: &S2kParams) -> bool { s2k_params_eq(*self, *other) }
}
impl PartialEq for S2kParams {
    #[verifier::external_body]
    fn eq(&self, other: &S2kParams) -> (r: bool) { unimplemented!() }
}
#[verifier::external_body]
pub proof fn axiom_s2k_params_eq_unprotected(a: S2kParams)
    ensures s2k_params_eq(a, S2kParams::Unprotected) == (a is Unprotected)
{}

