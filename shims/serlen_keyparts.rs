// ---------------------------------------------------------------------------------
// shims/serlen_keyparts.rs - the components of a key packet body as *assumed* contracts for U75f
// (PubKeyInner, PublicKey, PublicSubkey, packet::SecretKey, packet::SecretSubkey): types::PublicParams and
// types::SecretParams as opaque values with a wire image, packet::PacketHeader as an opaque value.
// Include after shims/io_sink.rs, shims/serlen_sink.rs (Serialize) and shims/serlen_algos.rs (KeyVersion).
// ---------------------------------------------------------------------------------
//@trusted T4 types::PublicParams `impl Serialize`: to_writer appends wire(), write_len() == |wire()| (proved in U75b for every variant)
//@trusted T1 the wire image of in-memory public key material is shorter than 2^60 octets
#[verifier::external_body]
pub struct PublicParams { _x: u8 }
impl PublicParams {
    pub uninterp spec fn pp_wire(&self) -> Seq<u8>;
    #[verifier::external_body]
    pub proof fn axiom_len(&self) ensures self.pp_wire().len() < 0x1000_0000_0000_0000 {}
}
impl Serialize for PublicParams {
    open spec fn wire(&self) -> Seq<u8> { self.pp_wire() }
    open spec fn ser_inv(&self) -> bool { true }
    #[verifier::external_body]
    fn to_writer<W: io::Write>(&self, writer: &mut W) -> (r: errors::Result<()>) { unimplemented!() }
    #[verifier::external_body]
    fn write_len(&self) -> (r: usize) { unimplemented!() }
}
//@trusted T4 types::SecretParams::{to_writer(w, version), write_len(version)}: to_writer appends secret_wire(self, version) (usage octet, S2K fields, material, v3/v4 checksum), write_len(version) is its length, under the type invariant "an Encrypted value does not carry S2kParams::Unprotected" (EncryptedSecretParams::new asserts it) (proved in U75e, and in U11 modulo EncryptedSecretParams::to_writer)
//@trusted T1 the secret part of an in-memory key is shorter than 2^60 octets
#[verifier::external_body]
pub struct SecretParams { _x: u8 }
impl SecretParams {
    pub uninterp spec fn inv(&self) -> bool;
    pub uninterp spec fn secret_wire(&self, version: KeyVersion) -> Seq<u8>;
    #[verifier::external_body]
    pub proof fn axiom_len(&self, version: KeyVersion) ensures self.secret_wire(version).len() < 0x1000_0000_0000_0000 {}
    #[verifier::external_body]
    pub fn to_writer<W: io::Write>(&self, writer: &mut W, version: KeyVersion) -> (r: errors::Result<()>)
        requires self.inv()
        ensures r is Ok ==> (*final(writer)).out() == (*old(writer)).out() + self.secret_wire(version) && (*old(writer)).same_dest(&*final(writer))
    { unimplemented!() }
    #[verifier::external_body]
    pub fn write_len(&self, version: KeyVersion) -> (r: usize)
        requires self.inv()
        ensures r == self.secret_wire(version).len()
    { unimplemented!() }
}
/// packet::PacketHeader: stored next to the body, not part of it
#[verifier::external_body]
pub struct PacketHeader { _x: u8 }

