// ---------------------------------------------------------------------------------
// shims/checksum_env.rs - what the checksum unit (U17) assumes about code that is not its
// subject: std::hash::Hasher (trait shape only), Iterator::sum::<u32> over the octets of a
// slice, u16::to_be_bytes, byteorder::BigEndian::write_u16, `[u8; 2] != [u8; 2]`, the snafu
// selectors of the two error structs, derive(Default), and the sha1_checked crate.
// Include after shims/io.rs inside verus!{}.
// ---------------------------------------------------------------------------------

/// mathematical sum of the octets
pub open spec fn byte_sum(s: Seq<u8>) -> nat
    decreases s.len()
{
    if s.len() == 0 { 0 } else { byte_sum(s.drop_last()) + s.last() as nat }
}
/// RFC 9580 5.5.3 / 5.1: "sum of all octets, mod 65536"
pub open spec fn sum16(s: Seq<u8>) -> u16 { (byte_sum(s) % 65536) as u16 }
/// the running 16-bit state after absorbing `s` on top of `acc`
pub open spec fn add16(acc: u16, s: Seq<u8>) -> u16 { ((acc as nat + byte_sum(s)) % 65536) as u16 }

pub proof fn lemma_byte_sum_concat(a: Seq<u8>, b: Seq<u8>)
    ensures byte_sum(a + b) == byte_sum(a) + byte_sum(b)
    decreases b.len()
{
    if b.len() == 0 {
        assert(a + b =~= a);
    } else {
        assert((a + b).drop_last() =~= a + b.drop_last());
        lemma_byte_sum_concat(a, b.drop_last());
    }
}
pub proof fn lemma_byte_sum_bound(s: Seq<u8>)
    ensures byte_sum(s) <= 255 * s.len()
    decreases s.len()
{
    if s.len() > 0 { lemma_byte_sum_bound(s.drop_last()); }
}

//@trusted T2 std::hash::Hasher: only the two required methods write/finish are used; the trait has no contract of its own
pub mod hash_shim {
    pub trait Hasher {
        fn write(&mut self, buf: &[u8]);
        fn finish(&self) -> u64;
    }
}

//@trusted T2 `buf.iter().map(|v| u32::from(*v)).sum::<u32>()` is the sum of the octets of buf.  Iterator::sum (std documentation): "When calling sum() and a primitive integer type is being returned, this method will panic if the computation overflows and overflow checks are enabled" - modelled as the PRECONDITION byte_sum(buf) <= u32::MAX (with overflow checks disabled the result wraps modulo 2^32, which the `& 0xffff` that follows would absorb)
#[verifier::external_body]
pub fn iter_sum_u32_of_octets(buf: &[u8]) -> (r: u32)
    requires byte_sum(buf@) <= u32::MAX
    ensures r == byte_sum(buf@)
{ buf.iter().map(|v| u32::from(*v)).sum::<u32>() }

//@trusted T2 u16::to_be_bytes is the big-endian encoder (free-function form, as in shims/sigtypes.rs)
#[verifier::external_body]
pub fn u16_to_be_bytes(x: u16) -> (r: [u8; 2]) ensures r@ == be16(x) { x.to_be_bytes() }

//@trusted T2 byteorder::BigEndian::write_u16(buf, n) overwrites buf[0..2] with the big-endian encoding of n (panics if buf is shorter: precondition); read_u16(buf) decodes buf[0..2]
impl BigEndian {
    #[verifier::external_body]
    pub fn write_u16(buf: &mut [u8], n: u16)
        requires old(buf)@.len() >= 2
        ensures final(buf)@ == be16(n) + old(buf)@.skip(2)
    { unimplemented!() }
    #[verifier::external_body]
    pub fn read_u16(buf: &[u8]) -> (r: u16)
        requires buf@.len() >= 2
        ensures be16(r) == buf@.subrange(0, 2)
    { unimplemented!() }
}

//@trusted T2 `a != b` on [u8; 2] (core::array::equality) is inequality of the two octet pairs
pub fn arr2_ne(a: &[u8; 2], b: &[u8; 2]) -> (r: bool)
    ensures r == (a@ != b@)
{
    let r = a[0] != b[0] || a[1] != b[1];
    proof {
        if !r { assert(a@ =~= b@); }
    }
    r
}

//@trusted T2 snafu context selectors: `ChecksumMismatchSnafu { actual, expected }.build()` / `Sha1HashCollisionSnafu {}.build()` construct the error struct (field values are not modelled beyond what is stored)
pub struct ChecksumMismatchSnafu { pub actual: [u8; 2], pub expected: [u8; 2] }
pub struct Sha1HashCollisionSnafu {}

//@trusted T3 sha1_checked::Sha1 (SHA-1 with collision detection) is a ghost byte accumulator: new() is empty, update(d) appends d, try_finalize() is CollisionResult::Ok(sha1(view())) unless the detector fires; whether it fires is an UNINTERPRETED predicate sha1_collision(view()) of the hashed bytes; sha1 is an uninterpreted function into 20 octets
pub uninterp spec fn sha1(m: Seq<u8>) -> Seq<u8>;
pub uninterp spec fn sha1_collision(m: Seq<u8>) -> bool;
#[verifier::external_body]
pub proof fn axiom_sha1_len(m: Seq<u8>) ensures sha1(m).len() == 20 {}
pub mod sha1_checked {
    use super::*;
    #[verifier::external_body]
    pub struct Sha1 { _p: u8 }
    #[verifier::external_body]
    pub struct Output { _p: u8 }
    impl View for Output { type V = Seq<u8>; uninterp spec fn view(&self) -> Seq<u8>; }
    impl Output {
        #[verifier::external_body]
        pub fn into(self) -> (r: [u8; 20]) ensures r@ == self@ { unimplemented!() }
    }
    pub enum CollisionResult { Ok(Output), Mitigated(Output), Collision(Output) }
    impl Sha1 {
        pub uninterp spec fn view(&self) -> Seq<u8>;
        #[verifier::external_body]
        pub fn new() -> (r: Sha1) ensures r.view() == Seq::<u8>::empty() { unimplemented!() }
        #[verifier::external_body]
        pub fn update(&mut self, data: &[u8]) ensures final(self).view() == old(self).view() + data@ { unimplemented!() }
        #[verifier::external_body]
        pub fn try_finalize(self) -> (r: CollisionResult)
            ensures match r {
                CollisionResult::Ok(o) => o@ == sha1(self.view()) && o@.len() == 20 && !sha1_collision(self.view()),
                _ => sha1_collision(self.view()),
            }
        { unimplemented!() }
    }
}
