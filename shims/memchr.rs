// ---------------------------------------------------------------------------------
// shims/memchr.rs - memchr::memchr_iter(needle, haystack) and the std Peekable adaptor over it.
// The iterator is modelled by rem(): the positions it has not yielded yet.  The `for` loop
// support comes from vstd's IteratorSpecImpl (remaining() = rem()).
// ---------------------------------------------------------------------------------

/// ps lists exactly the indices of `needle` in `hay`, in ascending order
pub open spec fn is_positions(hay: Seq<u8>, needle: u8, ps: Seq<usize>) -> bool {
    &&& forall|i: int| 0 <= i < ps.len() ==> (#[trigger] ps[i]) < hay.len() && hay[ps[i] as int] == needle
    &&& forall|i: int, j: int| 0 <= i < j < ps.len() ==> (#[trigger] ps[i]) < (#[trigger] ps[j])
    &&& forall|k: int| 0 <= k < hay.len() && #[trigger] hay[k] == needle ==> exists|i: int| 0 <= i < ps.len() && #[trigger] ps[i] == k
}

//@trusted T2 memchr::memchr_iter(needle, haystack) yields exactly the positions of `needle` in `haystack` in ascending order, then None; Iterator::peekable()/Peekable::peek() look at the next item without consuming it (std)
pub mod memchr {
    use super::*;

    #[verifier::external_body]
    pub struct Memchr<'a> { hay: &'a [u8], pos: usize, needle: u8 }

    /// std::iter::Peekable<Memchr>
    #[verifier::external_body]
    pub struct PeekableMemchr<'a> { inner: Memchr<'a>, peeked: Option<Option<usize>> }

    impl<'a> Memchr<'a> {
        /// positions still to be yielded
        pub uninterp spec fn rem(&self) -> Seq<usize>;

        /// Iterator::peekable
        #[verifier::external_body]
        pub fn peekable(self) -> (r: PeekableMemchr<'a>)
            ensures r.rem() == self.rem()
        { unimplemented!() }
    }

    #[verifier::external_body]
    pub fn memchr_iter<'a>(needle: u8, haystack: &'a [u8]) -> (r: Memchr<'a>)
        ensures is_positions(haystack@, needle, r.rem())
    { unimplemented!() }

    impl<'a> PeekableMemchr<'a> {
        pub uninterp spec fn rem(&self) -> Seq<usize>;

        /// Peekable::peek: the next item, not consumed
        #[verifier::external_body]
        pub fn peek(&mut self) -> (r: Option<&usize>)
            ensures
                final(self).rem() == old(self).rem(),
                match r { Some(p) => old(self).rem().len() > 0 && *p == old(self).rem()[0], None => old(self).rem().len() == 0 },
        { unimplemented!() }
    }

    impl<'a> Iterator for PeekableMemchr<'a> {
        type Item = usize;
        // the contract of `next` is the one vstd attaches to Iterator::next in terms of the
        // IteratorSpecImpl functions below (returns remaining()[0] and drops it; None iff empty)
        #[verifier::external_body]
        fn next(&mut self) -> (r: Option<usize>) { unimplemented!() }
    }

    impl<'a> vstd::std_specs::iter::IteratorSpecImpl for PeekableMemchr<'a> {
        open spec fn obeys_prophetic_iter_laws(&self) -> bool { true }
        open spec fn remaining(&self) -> Seq<usize> { self.rem() }
        open spec fn will_return_none(&self) -> bool { true }
        open spec fn decrease(&self) -> Option<nat> { Some(self.rem().len()) }
        open spec fn peek(&self, index: int) -> Option<usize> {
            if 0 <= index < self.rem().len() { Some(self.rem()[index]) } else { None }
        }
    }
}
