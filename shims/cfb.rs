// ---------------------------------------------------------------------------------
// shims/cfb.rs - assumed contracts for the primitives below the SEIPDv1 stream machines:
// cipher block-size traits, cfb_mode::{BufDecryptor, BufEncryptor}, sha1::Sha1, subtle::
// {Choice, ConstantTimeEq}, zeroize::Zeroizing, and thin views of a BytesMut/Bytes as a slice.
// Include AFTER shims/io.rs, shims/bytes.rs, shims/digest.rs.  NO cryptography is verified:
// the ciphers and SHA-1 are uninterpreted functions; only the way rpgp *composes* them is.
// ---------------------------------------------------------------------------------

//@trusted T3 cipher::{BlockCipher, BlockDecrypt, BlockEncryptMut, BlockSizeUser, KeyIvInit} are marker traits; block_size() is a per-cipher constant between 8 and 16 octets (true for all eleven ciphers StreamDecryptor/StreamEncryptor instantiate)
pub trait BlockSizeUser {
    spec fn bs() -> nat;
    proof fn bs_bounds() ensures 8 <= Self::bs() <= 16;
    fn block_size() -> (r: usize) ensures r == Self::bs(), 8 <= r <= 16;
}
pub trait BlockCipher: BlockSizeUser {}
pub trait BlockDecrypt {}
pub trait BlockEncryptMut {}
pub trait KeyIvInit {}

//@trusted T3 OpenPGP-CFB decryption is an UNINTERPRETED length-preserving function cfb_dec(bs, key, iv, ciphertext) of the whole ciphertext fed so far whose output byte i depends only on ciphertext[0..=i] (prefix law: cfb_dec(ct1 ++ ct2) starts with cfb_dec(ct1)); nothing else about the cipher is assumed
//@trusted T3 CFB encryption likewise: cfb_enc(bs, key, iv, plaintext) is uninterpreted, length preserving and prefix-stable

pub mod cfb_ax {
    use super::*;
    pub uninterp spec fn cfb_dec(bs: nat, key: Seq<u8>, iv: Seq<u8>, ct: Seq<u8>) -> Seq<u8>;
    pub uninterp spec fn cfb_enc(bs: nat, key: Seq<u8>, iv: Seq<u8>, pt: Seq<u8>) -> Seq<u8>;
    pub uninterp spec fn sha1(m: Seq<u8>) -> Seq<u8>;
    #[verifier::external_body]
    pub broadcast proof fn axiom_cfb_dec_len(bs: nat, key: Seq<u8>, iv: Seq<u8>, ct: Seq<u8>)
        ensures #[trigger] cfb_dec(bs, key, iv, ct).len() == ct.len() {}
    #[verifier::external_body]
    pub broadcast proof fn axiom_cfb_dec_prefix(bs: nat, key: Seq<u8>, iv: Seq<u8>, a: Seq<u8>, b: Seq<u8>)
        ensures (#[trigger] cfb_dec(bs, key, iv, a + b)).subrange(0, a.len() as int) == cfb_dec(bs, key, iv, a) {}
    #[verifier::external_body]
    pub broadcast proof fn axiom_cfb_enc_len(bs: nat, key: Seq<u8>, iv: Seq<u8>, pt: Seq<u8>)
        ensures #[trigger] cfb_enc(bs, key, iv, pt).len() == pt.len() {}
    #[verifier::external_body]
    pub broadcast proof fn axiom_cfb_enc_prefix(bs: nat, key: Seq<u8>, iv: Seq<u8>, a: Seq<u8>, b: Seq<u8>)
        ensures (#[trigger] cfb_enc(bs, key, iv, a + b)).subrange(0, a.len() as int) == cfb_enc(bs, key, iv, a) {}
    #[verifier::external_body]
    pub broadcast proof fn axiom_sha1_len(m: Seq<u8>)
        ensures #[trigger] sha1(m).len() == 20 {}
}
pub use cfb_ax::*;
pub use bytes_ax::*;
broadcast use cfb_ax::axiom_cfb_dec_len, cfb_ax::axiom_cfb_enc_len, cfb_ax::axiom_sha1_len;

/// what a piecewise decryptor emits for the chunk `c` after having been fed `fed`
pub open spec fn cfb_dec_chunk(bs: nat, key: Seq<u8>, iv: Seq<u8>, fed: Seq<u8>, c: Seq<u8>) -> Seq<u8> {
    cfb_dec(bs, key, iv, fed + c).skip(fed.len() as int)
}
pub open spec fn cfb_enc_chunk(bs: nat, key: Seq<u8>, iv: Seq<u8>, fed: Seq<u8>, c: Seq<u8>) -> Seq<u8> {
    cfb_enc(bs, key, iv, fed + c).skip(fed.len() as int)
}

pub struct InvalidLength;
impl core::convert::From<InvalidLength> for errors::Error {
    #[verifier::external_body]
    fn from(e: InvalidLength) -> (r: errors::Error) { unimplemented!() }
}

//@trusted T3 cfb_mode::BufDecryptor<M> is a ghost stream transformer: it carries (key, iv, fed = all ciphertext fed so far); decrypt(buf) replaces buf by the bytes of cfb_dec(key, iv, fed ++ buf) that follow position |fed| and appends the old buf to fed (so piecewise decryption equals one-shot decryption by construction); new_from_slices(key, iv) starts with fed = [] and fails only for a wrong key/iv length
#[verifier::external_body]
#[verifier::accept_recursive_types(M)]
pub struct BufDecryptor<M> { _m: core::marker::PhantomData<M> }
impl<M: BlockSizeUser> BufDecryptor<M> {
    pub uninterp spec fn key(&self) -> Seq<u8>;
    pub uninterp spec fn iv(&self) -> Seq<u8>;
    pub uninterp spec fn fed(&self) -> Seq<u8>;
    /// total plaintext produced so far
    pub open spec fn out(&self) -> Seq<u8> { cfb_dec(M::bs(), self.key(), self.iv(), self.fed()) }
    #[verifier::external_body]
    pub fn new_from_slices(key: &[u8], iv: &[u8]) -> (r: core::result::Result<Self, InvalidLength>)
        ensures match r {
            Ok(d) => d.key() == key@ && d.iv() == iv@ && d.fed() == Seq::<u8>::empty() && iv@.len() == M::bs(),
            Err(_) => true }
    { unimplemented!() }
    #[verifier::external_body]
    pub fn decrypt(&mut self, buf: &mut [u8])
        ensures final(self).key() == old(self).key(), final(self).iv() == old(self).iv(),
            final(self).fed() == old(self).fed() + old(buf)@,
            final(buf)@ == cfb_dec_chunk(M::bs(), old(self).key(), old(self).iv(), old(self).fed(), old(buf)@),
            final(buf)@.len() == old(buf)@.len()
    { unimplemented!() }
}
impl<M> KeyIvInit for BufDecryptor<M> {}

//@trusted T3 cfb_mode::BufEncryptor<M> is the same ghost transformer for cfb_enc, fed = all plaintext fed so far
#[verifier::external_body]
#[verifier::accept_recursive_types(M)]
pub struct BufEncryptor<M> { _m: core::marker::PhantomData<M> }
impl<M: BlockSizeUser> BufEncryptor<M> {
    pub uninterp spec fn key(&self) -> Seq<u8>;
    pub uninterp spec fn iv(&self) -> Seq<u8>;
    pub uninterp spec fn fed(&self) -> Seq<u8>;
    pub open spec fn out(&self) -> Seq<u8> { cfb_enc(M::bs(), self.key(), self.iv(), self.fed()) }
    #[verifier::external_body]
    pub fn new_from_slices(key: &[u8], iv: &[u8]) -> (r: core::result::Result<Self, InvalidLength>)
        ensures match r {
            Ok(d) => d.key() == key@ && d.iv() == iv@ && d.fed() == Seq::<u8>::empty() && iv@.len() == M::bs(),
            Err(_) => true }
    { unimplemented!() }
    #[verifier::external_body]
    pub fn encrypt(&mut self, buf: &mut [u8])
        ensures final(self).key() == old(self).key(), final(self).iv() == old(self).iv(),
            final(self).fed() == old(self).fed() + old(buf)@,
            final(buf)@ == cfb_enc_chunk(M::bs(), old(self).key(), old(self).iv(), old(self).fed(), old(buf)@),
            final(buf)@.len() == old(buf)@.len()
    { unimplemented!() }
}
impl<M> KeyIvInit for BufEncryptor<M> {}

//@trusted T2 `impl AsRef<[u8]>` arguments (Digest::update) are modelled by the trait AsBytes: slices, arrays, Vec<u8>, BytesMut and references to them denote their byte content
pub trait AsBytes { spec fn bytes(&self) -> Seq<u8>; }
impl AsBytes for &[u8] { open spec fn bytes(&self) -> Seq<u8> { (*self)@ } }
impl<const N: usize> AsBytes for [u8; N] { open spec fn bytes(&self) -> Seq<u8> { self@ } }
impl<const N: usize> AsBytes for &[u8; N] { open spec fn bytes(&self) -> Seq<u8> { (*self)@ } }
impl AsBytes for &Vec<u8> { open spec fn bytes(&self) -> Seq<u8> { (*self)@ } }
impl AsBytes for &BytesMut { open spec fn bytes(&self) -> Seq<u8> { (*self)@ } }
impl AsBytes for &&mut BytesMut { open spec fn bytes(&self) -> Seq<u8> { (**self)@ } }

//@trusted T3 sha1::Sha1 is a ghost byte accumulator (shims/digest.rs style): default() starts empty, update(d) appends d, finalize() returns sha1(view()) where sha1 is an UNINTERPRETED function into 20 octets

#[verifier::external_body]
pub struct Sha1 { _p: u8 }
impl Sha1 {
    pub uninterp spec fn view(&self) -> Seq<u8>;
    #[verifier::external_body]
    pub fn default() -> (r: Sha1) ensures r.view() == Seq::<u8>::empty() { unimplemented!() }
    #[verifier::external_body]
    pub fn update<A: AsBytes>(&mut self, data: A) ensures final(self).view() == old(self).view() + data.bytes() { unimplemented!() }
    #[verifier::external_body]
    pub fn finalize(self) -> (r: Sha1Output) ensures r@ == sha1(self.view()), r@.len() == 20 { unimplemented!() }
}
/// GenericArray<u8, U20>
#[verifier::external_body]
pub struct Sha1Output { _p: u8 }
impl View for Sha1Output { type V = Seq<u8>; uninterp spec fn view(&self) -> Seq<u8>; }
impl core::ops::Deref for Sha1Output {
    type Target = [u8];
    #[verifier::external_body]
    fn deref(&self) -> (r: &[u8]) ensures r@ == self@ { unimplemented!() }
}
impl Sha1Output {
    #[verifier::external_body]
    pub fn into(self) -> (r: [u8; 20]) ensures r@ == self@ { unimplemented!() }
    #[verifier::external_body]
    pub fn as_slice(&self) -> (r: &[u8]) ensures r@ == self@ { unimplemented!() }
}

//@trusted T2 subtle: a.ct_eq(b) yields a Choice that is true iff the operands are equal (u8: same value; slices: same length and same bytes); `&` on Choice is logical and, `!` logical not, bool::from(c) reads it
pub struct Choice { pub b: bool }
impl vstd::std_specs::ops::BitAndSpecImpl for Choice {
    open spec fn obeys_bitand_spec() -> bool { true }
    open spec fn bitand_req(self, rhs: Choice) -> bool { true }
    open spec fn bitand_spec(self, rhs: Choice) -> Choice { Choice { b: self.b && rhs.b } }
}
impl core::ops::BitAnd for Choice {
    type Output = Choice;
    fn bitand(self, rhs: Choice) -> (r: Choice) { Choice { b: self.b && rhs.b } }
}
impl vstd::std_specs::ops::BitOrSpecImpl for Choice {
    open spec fn obeys_bitor_spec() -> bool { true }
    open spec fn bitor_req(self, rhs: Choice) -> bool { true }
    open spec fn bitor_spec(self, rhs: Choice) -> Choice { Choice { b: self.b || rhs.b } }
}
impl core::ops::BitOr for Choice {
    type Output = Choice;
    fn bitor(self, rhs: Choice) -> (r: Choice) { Choice { b: self.b || rhs.b } }
}
impl vstd::std_specs::ops::NotSpecImpl for Choice {
    open spec fn obeys_not_spec() -> bool { true }
    open spec fn not_req(self) -> bool { true }
    open spec fn not_spec(self) -> Choice { Choice { b: !self.b } }
}
impl core::ops::Not for Choice {
    type Output = Choice;
    fn not(self) -> (r: Choice) { Choice { b: !self.b } }
}
impl vstd::std_specs::convert::FromSpecImpl<Choice> for bool {
    open spec fn obeys_from_spec() -> bool { true }
    open spec fn from_spec(c: Choice) -> bool { c.b }
}
impl core::convert::From<Choice> for bool {
    fn from(c: Choice) -> (r: bool) { c.b }
}
pub trait ConstantTimeEq {
    spec fn ct_same(&self, other: &Self) -> bool;
    fn ct_eq(&self, other: &Self) -> (r: Choice) ensures r.b == self.ct_same(other);
}
impl ConstantTimeEq for u8 {
    open spec fn ct_same(&self, other: &u8) -> bool { *self == *other }
    fn ct_eq(&self, other: &u8) -> (r: Choice) { Choice { b: *self == *other } }
}
impl ConstantTimeEq for [u8] {
    open spec fn ct_same(&self, other: &[u8]) -> bool { self@ == other@ }
    #[verifier::external_body]
    fn ct_eq(&self, other: &[u8]) -> (r: Choice) { unimplemented!() }
}

//@trusted T2 bytes::BytesMut / Bytes deref to the byte slice of their content: &b[..], &mut b[a..], b[i], and passing &b / &mut b where a slice is expected read / write view() in place (length preserved)
impl core::ops::Deref for BytesMut {
    type Target = [u8];
    #[verifier::external_body]
    fn deref(&self) -> (r: &[u8]) ensures r@ == self@ { unimplemented!() }
}
impl core::ops::DerefMut for BytesMut {
    #[verifier::external_body]
    fn deref_mut(&mut self) -> (r: &mut [u8]) ensures r@ == old(self)@, final(self)@ == final(r)@ { unimplemented!() }
}
impl core::ops::Deref for Bytes {
    type Target = [u8];
    #[verifier::external_body]
    fn deref(&self) -> (r: &[u8]) ensures r@ == self@ { unimplemented!() }
}

//@trusted T2 std::mem::replace(dest, src) stores src in *dest and returns the old *dest; <[u8]>::to_vec copies the slice
pub assume_specification<T> [core::mem::replace::<T>] (dest: &mut T, src: T) -> (r: T)
    ensures r == *old(dest), *final(dest) == src;
pub assume_specification<T: Clone> [<[T]>::to_vec] (s: &[T]) -> (r: Vec<T>)
    ensures r@.len() == s@.len(), forall|i: int| 0 <= i < s@.len() ==> cloned(#[trigger] s@[i], r@[i]);

//@trusted T2 Bytes::from(Vec<u8>) / Vec<u8>::into() keeps the content
pub mod bytes_ax {
    use super::*;
    pub uninterp spec fn bytes_of(s: Seq<u8>) -> Bytes;
    #[verifier::external_body]
    pub broadcast proof fn axiom_bytes_of(s: Seq<u8>) ensures (#[trigger] bytes_of(s))@ == s {}
}
impl vstd::std_specs::convert::FromSpecImpl<Vec<u8>> for Bytes {
    open spec fn obeys_from_spec() -> bool { true }
    open spec fn from_spec(v: Vec<u8>) -> Bytes { bytes_of(v@) }
}
impl core::convert::From<Vec<u8>> for Bytes {
    #[verifier::external_body]
    fn from(v: Vec<u8>) -> (r: Bytes) { unimplemented!() }
}

//@trusted T3 rand::{Rng, CryptoRng}: fill_bytes overwrites the slice with arbitrary octets (length preserved); nothing is assumed about their values
pub trait CryptoRng {}
pub trait Rng {
    fn fill_bytes(&mut self, dest: &mut [u8]) ensures final(dest)@.len() == old(dest)@.len();
}

//@trusted T2 zeroize::Zeroizing<Vec<u8>> is a transparent wrapper (wiping on drop is not modelled)
pub struct Zeroizing<T> { pub v: T }
impl<T> core::ops::Deref for Zeroizing<T> {
    type Target = T;
    fn deref(&self) -> (r: &T) ensures *r == self.v { &self.v }
}
impl vstd::std_specs::convert::FromSpecImpl<Vec<u8>> for Zeroizing<Vec<u8>> {
    open spec fn obeys_from_spec() -> bool { true }
    open spec fn from_spec(v: Vec<u8>) -> Zeroizing<Vec<u8>> { Zeroizing { v } }
}
impl core::convert::From<Vec<u8>> for Zeroizing<Vec<u8>> {
    fn from(v: Vec<u8>) -> (r: Zeroizing<Vec<u8>>) { Zeroizing { v } }
}
