// ---------------------------------------------------------------------------------
// shims/serlen_seckeys.rs - the ten `crypto::<alg>::SecretKey` types as *assumed* component contracts of
// PlainSecretParams (U75e): each is an opaque value with a wire image.  The modules carry the names the
// real code uses (`rsa::SecretKey`, ...), so do NOT combine with shims/serlen_ext.rs (foreign crates `rsa`,
// `dsa` of the same names).  Include after a Serialize trait (shims/serlen_sink.rs or shims/secret_reader.rs).
// ---------------------------------------------------------------------------------
//@trusted T4 `impl Serialize for crypto::{rsa, dsa, elgamal, ecdsa, ecdh}::SecretKey` (proved in U75c; rsa: under the type invariant `p invertible modulo q`, which crypto::rsa::SecretKey::try_from_mpi - the only constructor fed from parsed input - establishes since /repo commit e1accb3, also proved in U75c; key generation: random distinct primes) and `crypto::{ed25519, eddsa_legacy, ed448, x25519, x448}::SecretKey` (proved in U75d): to_writer appends wire() and preserves same_dest, write_len() == |wire()|
//@trusted T1 the wire image of in-memory secret key material (a few MPIs / fixed arrays held in memory) is shorter than 2^58 octets
pub mod rsa {
    use super::*;
    #[verifier::external_body]
    pub struct SecretKey { _x: u8 }
    impl SecretKey {
        pub uninterp spec fn sk_wire(&self) -> Seq<u8>;
        pub open spec fn spec_write_len(&self) -> nat { self.sk_wire().len() }
        #[verifier::external_body]
        pub proof fn axiom_len(&self) ensures self.sk_wire().len() < 0x0400_0000_0000_0000 {}
    }
    impl Serialize for SecretKey {
        open spec fn wire(&self) -> Seq<u8> { self.sk_wire() }
        open spec fn ser_inv(&self) -> bool { true }
        #[verifier::external_body]
        fn to_writer<W: io::Write>(&self, writer: &mut W) -> (r: errors::Result<()>) { unimplemented!() }
        #[verifier::external_body]
        fn write_len(&self) -> (r: usize) { unimplemented!() }
    }
}
pub mod dsa {
    use super::*;
    #[verifier::external_body]
    pub struct SecretKey { _x: u8 }
    impl SecretKey {
        pub uninterp spec fn sk_wire(&self) -> Seq<u8>;
        pub open spec fn spec_write_len(&self) -> nat { self.sk_wire().len() }
        #[verifier::external_body]
        pub proof fn axiom_len(&self) ensures self.sk_wire().len() < 0x0400_0000_0000_0000 {}
    }
    impl Serialize for SecretKey {
        open spec fn wire(&self) -> Seq<u8> { self.sk_wire() }
        open spec fn ser_inv(&self) -> bool { true }
        #[verifier::external_body]
        fn to_writer<W: io::Write>(&self, writer: &mut W) -> (r: errors::Result<()>) { unimplemented!() }
        #[verifier::external_body]
        fn write_len(&self) -> (r: usize) { unimplemented!() }
    }
}
pub mod elgamal {
    use super::*;
    #[verifier::external_body]
    pub struct SecretKey { _x: u8 }
    impl SecretKey {
        pub uninterp spec fn sk_wire(&self) -> Seq<u8>;
        pub open spec fn spec_write_len(&self) -> nat { self.sk_wire().len() }
        #[verifier::external_body]
        pub proof fn axiom_len(&self) ensures self.sk_wire().len() < 0x0400_0000_0000_0000 {}
    }
    impl Serialize for SecretKey {
        open spec fn wire(&self) -> Seq<u8> { self.sk_wire() }
        open spec fn ser_inv(&self) -> bool { true }
        #[verifier::external_body]
        fn to_writer<W: io::Write>(&self, writer: &mut W) -> (r: errors::Result<()>) { unimplemented!() }
        #[verifier::external_body]
        fn write_len(&self) -> (r: usize) { unimplemented!() }
    }
}
pub mod ecdsa {
    use super::*;
    #[verifier::external_body]
    pub struct SecretKey { _x: u8 }
    impl SecretKey {
        pub uninterp spec fn sk_wire(&self) -> Seq<u8>;
        pub open spec fn spec_write_len(&self) -> nat { self.sk_wire().len() }
        #[verifier::external_body]
        pub proof fn axiom_len(&self) ensures self.sk_wire().len() < 0x0400_0000_0000_0000 {}
    }
    impl Serialize for SecretKey {
        open spec fn wire(&self) -> Seq<u8> { self.sk_wire() }
        open spec fn ser_inv(&self) -> bool { true }
        #[verifier::external_body]
        fn to_writer<W: io::Write>(&self, writer: &mut W) -> (r: errors::Result<()>) { unimplemented!() }
        #[verifier::external_body]
        fn write_len(&self) -> (r: usize) { unimplemented!() }
    }
}
pub mod ecdh {
    use super::*;
    #[verifier::external_body]
    pub struct SecretKey { _x: u8 }
    impl SecretKey {
        pub uninterp spec fn sk_wire(&self) -> Seq<u8>;
        pub open spec fn spec_write_len(&self) -> nat { self.sk_wire().len() }
        #[verifier::external_body]
        pub proof fn axiom_len(&self) ensures self.sk_wire().len() < 0x0400_0000_0000_0000 {}
    }
    impl Serialize for SecretKey {
        open spec fn wire(&self) -> Seq<u8> { self.sk_wire() }
        open spec fn ser_inv(&self) -> bool { true }
        #[verifier::external_body]
        fn to_writer<W: io::Write>(&self, writer: &mut W) -> (r: errors::Result<()>) { unimplemented!() }
        #[verifier::external_body]
        fn write_len(&self) -> (r: usize) { unimplemented!() }
    }
}
pub mod ed25519 {
    use super::*;
    #[verifier::external_body]
    pub struct SecretKey { _x: u8 }
    impl SecretKey {
        pub uninterp spec fn sk_wire(&self) -> Seq<u8>;
        pub open spec fn spec_write_len(&self) -> nat { self.sk_wire().len() }
        #[verifier::external_body]
        pub proof fn axiom_len(&self) ensures self.sk_wire().len() < 0x0400_0000_0000_0000 {}
    }
    impl Serialize for SecretKey {
        open spec fn wire(&self) -> Seq<u8> { self.sk_wire() }
        open spec fn ser_inv(&self) -> bool { true }
        #[verifier::external_body]
        fn to_writer<W: io::Write>(&self, writer: &mut W) -> (r: errors::Result<()>) { unimplemented!() }
        #[verifier::external_body]
        fn write_len(&self) -> (r: usize) { unimplemented!() }
    }
}
pub mod eddsa_legacy {
    use super::*;
    #[verifier::external_body]
    pub struct SecretKey { _x: u8 }
    impl SecretKey {
        pub uninterp spec fn sk_wire(&self) -> Seq<u8>;
        pub open spec fn spec_write_len(&self) -> nat { self.sk_wire().len() }
        #[verifier::external_body]
        pub proof fn axiom_len(&self) ensures self.sk_wire().len() < 0x0400_0000_0000_0000 {}
    }
    impl Serialize for SecretKey {
        open spec fn wire(&self) -> Seq<u8> { self.sk_wire() }
        open spec fn ser_inv(&self) -> bool { true }
        #[verifier::external_body]
        fn to_writer<W: io::Write>(&self, writer: &mut W) -> (r: errors::Result<()>) { unimplemented!() }
        #[verifier::external_body]
        fn write_len(&self) -> (r: usize) { unimplemented!() }
    }
}
pub mod ed448 {
    use super::*;
    #[verifier::external_body]
    pub struct SecretKey { _x: u8 }
    impl SecretKey {
        pub uninterp spec fn sk_wire(&self) -> Seq<u8>;
        pub open spec fn spec_write_len(&self) -> nat { self.sk_wire().len() }
        #[verifier::external_body]
        pub proof fn axiom_len(&self) ensures self.sk_wire().len() < 0x0400_0000_0000_0000 {}
    }
    impl Serialize for SecretKey {
        open spec fn wire(&self) -> Seq<u8> { self.sk_wire() }
        open spec fn ser_inv(&self) -> bool { true }
        #[verifier::external_body]
        fn to_writer<W: io::Write>(&self, writer: &mut W) -> (r: errors::Result<()>) { unimplemented!() }
        #[verifier::external_body]
        fn write_len(&self) -> (r: usize) { unimplemented!() }
    }
}
pub mod x25519 {
    use super::*;
    #[verifier::external_body]
    pub struct SecretKey { _x: u8 }
    impl SecretKey {
        pub uninterp spec fn sk_wire(&self) -> Seq<u8>;
        pub open spec fn spec_write_len(&self) -> nat { self.sk_wire().len() }
        #[verifier::external_body]
        pub proof fn axiom_len(&self) ensures self.sk_wire().len() < 0x0400_0000_0000_0000 {}
    }
    impl Serialize for SecretKey {
        open spec fn wire(&self) -> Seq<u8> { self.sk_wire() }
        open spec fn ser_inv(&self) -> bool { true }
        #[verifier::external_body]
        fn to_writer<W: io::Write>(&self, writer: &mut W) -> (r: errors::Result<()>) { unimplemented!() }
        #[verifier::external_body]
        fn write_len(&self) -> (r: usize) { unimplemented!() }
    }
}
pub mod x448 {
    use super::*;
    #[verifier::external_body]
    pub struct SecretKey { _x: u8 }
    impl SecretKey {
        pub uninterp spec fn sk_wire(&self) -> Seq<u8>;
        pub open spec fn spec_write_len(&self) -> nat { self.sk_wire().len() }
        #[verifier::external_body]
        pub proof fn axiom_len(&self) ensures self.sk_wire().len() < 0x0400_0000_0000_0000 {}
    }
    impl Serialize for SecretKey {
        open spec fn wire(&self) -> Seq<u8> { self.sk_wire() }
        open spec fn ser_inv(&self) -> bool { true }
        #[verifier::external_body]
        fn to_writer<W: io::Write>(&self, writer: &mut W) -> (r: errors::Result<()>) { unimplemented!() }
        #[verifier::external_body]
        fn write_len(&self) -> (r: usize) { unimplemented!() }
    }
}
