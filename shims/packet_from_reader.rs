// ---------------------------------------------------------------------------------
// shims/packet_from_reader.rs - Packet::from_reader (src/packet/single.rs) and parsing::Error::is_incomplete as
// *assumed* contracts, for units whose subject merely calls them (U46 PacketParser).  The contracts are copied
// verbatim from the ensures PROVED on the real code in units/U45b_packet_single_ioclass.vu (and, without the rewrite of `?`, units/U45_packet_single.vu; same instance:
// body = PacketBodyReader<&mut R>).
// Include after shims/packet_parsers.rs, lemmas/packet_body_view.rs, shims/packet_body_reader_ref.rs,
// lemmas/packet_classify.rs.
// ---------------------------------------------------------------------------------
//@trusted T4 Packet::from_reader at body: &mut PacketBodyReader<&mut R>: unless it answers Error::IO (the drain failed) the body reader is left in state Done, all of the body consumed, same source reference; an ill-framed body always ends in Error::IO; the result is classify(parser result, octets left) (proved in U45b/U45).  parsing::Error::is_incomplete is TooShort | UnexpectedEof (proved in U45)
impl Packet {
    #[verifier::external_body]
    pub fn from_reader<'a, R: io::BufRead>(packet_header: PacketHeader, body: &mut PacketBodyReader<&'a mut R>) -> (r: errors::Result<Packet>)
        requires
            old(body).deliverable().len() < u64::MAX,
        ensures
            final(body).header() == old(body).header(),
            old(body).inv() ==> final(body).inv(),
            !(r is Err && r->Err_0 is IO) ==> final(body).is_done_state() && !final(body).is_error_state(),
            !(r is Err && r->Err_0 is IO) ==> final(body).framing() == framing_skip(old(body).framing(), old(body).deliverable().len()),
            !(r is Err && r->Err_0 is IO) ==> final(body).src_fut() == old(body).src_fut(),
            old(body).framing() is None ==> r is Err && r->Err_0 is IO,
            r is Err && r->Err_0 is IO ==> final(body).is_error_state(),
            !(r is Err && r->Err_0 is IO) ==> exists|res: errors::Result<Packet>, k: nat| #[trigger] dispatch_post(packet_header, old(body).deliverable(), res, k) && k <= old(body).deliverable().len() && r == classify(res, (old(body).deliverable().len() - k) as nat),
    { unimplemented!() }
}
impl parsing::Error {
    #[verifier::external_body]
    pub fn is_incomplete(&self) -> (r: bool) ensures r == parsing_incomplete(*self) { unimplemented!() }
}
