// ---------------------------------------------------------------------------------
// shims/certification_issuer_env.rs - what unit U37b (UserId / UserAttribute ::sign, ::sign_third_party) assumes about code
// that is not its subject.  Include after shims/keygen_sign_env.rs, after the extraction of the REAL SignatureConfig /
// SignatureVersionSpecific and after shims/keygen_sign_callees.rs, inside verus!{}.  (shims/keygen_users.rs is NOT included by
// that unit: it shims UserAttribute::sign, which is under contract there.)
// ---------------------------------------------------------------------------------

// ---- the list of certification types -----------------------------------------------------------------------------
//@trusted T7 derive(PartialEq) on SignatureType (packet/signature/types.rs): `==` is equality of values; <[T]>::contains(x) is "some element equals x" (std)
impl vstd::std_specs::cmp::PartialEqSpecImpl for SignatureType {
    open spec fn obeys_eq_spec() -> bool { true }
    open spec fn eq_spec(&self, o: &SignatureType) -> bool { *self == *o }
}
pub open spec fn list_has<T: PartialEq>(s: Seq<T>, x: T) -> bool {
    exists|i: int| 0 <= i < s.len() && #[trigger] s[i].eq_spec(&x)
}
pub assume_specification<T: PartialEq>[ <[T]>::contains ](s: &[T], x: &T) -> (r: bool)
    ensures T::obeys_eq_spec() ==> r == list_has(s@, *x);

/// RFC 9580 5.2.1.5 - 5.2.1.8: the four certification types 0x10 .. 0x13 (what may be requested from sign_third_party;
/// 0x30 certification revocation is made elsewhere)
pub open spec fn is_cert_type(t: SignatureType) -> bool {
    t is CertGeneric || t is CertPersona || t is CertCasual || t is CertPositive
}
/// the list holds the four certification types and nothing else, in any order
pub open spec fn cert_type_members(s: Seq<SignatureType>) -> bool {
    &&& forall|i: int| 0 <= i < s.len() ==> is_cert_type(#[trigger] s[i])
    &&& s.contains(SignatureType::CertGeneric) && s.contains(SignatureType::CertPersona)
    &&& s.contains(SignatureType::CertCasual) && s.contains(SignatureType::CertPositive)
}
/// membership in the list is "is a certification type"
pub open spec fn cert_type_list(s: Seq<SignatureType>) -> bool {
    forall|t: SignatureType| #![trigger list_has(s, t)] list_has(s, t) <==> is_cert_type(t)
}
pub proof fn lemma_cert_type_list(s: Seq<SignatureType>)
    ensures cert_type_members(s) ==> cert_type_list(s)
{
    if cert_type_members(s) {
        assert forall|t: SignatureType| #![trigger list_has(s, t)] list_has(s, t) <==> is_cert_type(t) by {
            if is_cert_type(t) {
                let i = choose|i: int| 0 <= i < s.len() && s[i] == t;
                assert(s[i].eq_spec(&t));
            }
        }
    }
}

// ---- User ID / User Attribute packets and their signed forms ---------------------------------------------------------
//@trusted T7 packet::UserId / UserAttribute are opaque serialisable values (ser() = Serialize::to_writer, U66s / U10); tag() = PacketTrait::tag is the tag of the stored packet header (spec_tag; nothing assumed about its value); derive(Clone): clone() returns the same value; the other accessors exist without postcondition
#[verifier::external_body] pub struct UserId { v: u8 }
#[verifier::external_body] pub struct UserAttribute { v: u8 }
#[verifier::external_body] #[derive(Clone, Copy)] pub struct UserAttributeType { v: u8 }
impl Serialize for UserId { uninterp spec fn ser(&self) -> Seq<u8>; #[verifier::external_body] fn write_len(&self) -> (r: usize) { unimplemented!() } }
impl Serialize for UserAttribute { uninterp spec fn ser(&self) -> Seq<u8>; #[verifier::external_body] fn write_len(&self) -> (r: usize) { unimplemented!() } }
impl Clone for UserId {
    #[verifier::external_body]
    fn clone(&self) -> (r: UserId) ensures r == *self { unimplemented!() }
}
impl Clone for UserAttribute {
    #[verifier::external_body]
    fn clone(&self) -> (r: UserAttribute) ensures r == *self { unimplemented!() }
}
impl UserId {
    pub uninterp spec fn spec_tag(&self) -> Tag;
    #[verifier::external_body] pub fn tag(&self) -> (r: Tag) ensures r == self.spec_tag() { unimplemented!() }
    #[verifier::external_body] pub fn id(&self) -> (r: &[u8]) { unimplemented!() }
    #[verifier::external_body] pub fn into_bytes(self) -> (r: Bytes) { unimplemented!() }
    #[verifier::external_body] pub fn as_str(&self) -> (r: Option<&str>) { unimplemented!() }
}
impl UserAttribute {
    pub uninterp spec fn spec_tag(&self) -> Tag;
    #[verifier::external_body] pub fn tag(&self) -> (r: Tag) ensures r == self.spec_tag() { unimplemented!() }
    #[verifier::external_body] pub fn typ(&self) -> (r: UserAttributeType) { unimplemented!() }
}

/// SignatureConfig::is_certification (config.rs:666): 0x10 .. 0x13 and 0x30
pub open spec fn is_certification_typ(t: SignatureType) -> bool {
    t is CertGeneric || t is CertPersona || t is CertCasual || t is CertPositive || t is CertRevocation
}
/// what SignedUser::new / SignedUserAttribute::new keep of a signature list
pub open spec fn kept_certifications(s: Seq<Signature>) -> Seq<Signature> {
    s.filter(|x: Signature| is_certification_typ(x.cfg().typ))
}
/// (PROVED) a list of certifications is kept as it is
pub proof fn lemma_kept_all(s: Seq<Signature>)
    requires forall|i: int| 0 <= i < s.len() ==> is_certification_typ((#[trigger] s[i]).cfg().typ)
    ensures kept_certifications(s) == s
    decreases s.len()
{
    reveal(Seq::filter);
    let p = |x: Signature| is_certification_typ(x.cfg().typ);
    if s.len() > 0 {
        lemma_kept_all(s.drop_last());
        assert(p(s.last()));
        assert(s.drop_last().push(s.last()) =~= s);
    } else {
        assert(s.filter(p) =~= s);
    }
}
//@trusted T7 types::SignedUser::new(id, sigs) / SignedUserAttribute::new(attr, sigs) (types/user.rs:22 / :105): the struct holds `id` / `attr` and, in order, those of `sigs` whose type is a certification type (Signature::is_certification: 0x10..0x13, 0x30); the second ensures clause is that fact for a list of certifications (lemma_kept_all, PROVED)
pub struct SignedUser { pub id: UserId, pub signatures: Vec<Signature> }
pub struct SignedUserAttribute { pub attr: UserAttribute, pub signatures: Vec<Signature> }
impl SignedUser {
    #[verifier::external_body]
    pub fn new(id: UserId, signatures: Vec<Signature>) -> (r: SignedUser)
        ensures r.id == id, r.signatures@ == kept_certifications(signatures@),
            (forall|i: int| 0 <= i < signatures@.len() ==> is_certification_typ((#[trigger] signatures@[i]).cfg().typ)) ==> r.signatures@ == signatures@,
    { unimplemented!() }
}
impl SignedUserAttribute {
    #[verifier::external_body]
    pub fn new(attr: UserAttribute, signatures: Vec<Signature>) -> (r: SignedUserAttribute)
        ensures r.attr == attr, r.signatures@ == kept_certifications(signatures@),
            (forall|i: int| 0 <= i < signatures@.len() ==> is_certification_typ((#[trigger] signatures@[i]).cfg().typ)) ==> r.signatures@ == signatures@,
    { unimplemented!() }
}

// ---- the signing call ---------------------------------------------------------------------------------------------
//@trusted T4 SignatureConfig::sign_certification_third_party(self, signer, signer_pw, signee, tag, id) (config.rs:267) under the contract PROVED in U36: Ok(sig) carries exactly the configuration `self` (Signature::from_config) and `signer`'s primitive was given the RFC 9580 5.2.4 certification digest over (key = signee, User ID / User Attribute = id of packet type tag) - certification_by(sig, signer fingerprint, signee.ser(), tag, id.ser()): the FIRST key argument signs, the SECOND one is hashed; Err unless the signature version matches the SIGNER's key version (v4/v4, v6/v6), the type is a certification type and tag is UserId / UserAttribute
impl SignatureConfig {
    #[verifier::external_body]
    pub fn sign_certification_third_party<S, K, I>(self, signer: &S, signer_pw: &Password, signee: &K, tag: Tag, id: &I) -> (r: errors::Result<Signature>)
        where S: SigningKey, K: types::KeyDetails + Serialize, I: Serialize
        ensures r matches Ok(sig) ==> sig.cfg() == self && certification_by(sig, signer.spec_fingerprint(), signee.ser(), tag, id.ser())
            && is_certification_typ(self.typ)
            && (tag is UserId || tag is UserAttribute)
            && ((self.version_specific is V4 && signer.spec_version() is V4) || (self.version_specific is V6 && signer.spec_version() is V6))
    { unimplemented!() }
}

// ---- specification vocabulary: whom the subpackets of a signature name ----------------------------------------------------
/// every Issuer Fingerprint (RFC 9580 5.2.3.35) / Issuer Key ID (5.2.3.12) subpacket of the list names `fp` / `id` - nobody else
pub open spec fn issuer_fps_own(s: Seq<Subpacket>, fp: Fingerprint) -> bool {
    forall|i: int| 0 <= i < s.len() && (#[trigger] sp_data(s[i])) is IssuerFingerprint ==> sp_data(s[i]) == SubpacketData::IssuerFingerprint(fp)
}
pub open spec fn issuer_ids_own(s: Seq<Subpacket>, id: KeyId) -> bool {
    forall|i: int| 0 <= i < s.len() && (#[trigger] sp_data(s[i])) is IssuerKeyId ==> sp_data(s[i]) == SubpacketData::IssuerKeyId(id)
}
pub open spec fn no_issuer_id(s: Seq<Subpacket>) -> bool {
    forall|i: int| 0 <= i < s.len() ==> !((#[trigger] sp_data(s[i])) is IssuerKeyId)
}
pub open spec fn no_issuer_fp(s: Seq<Subpacket>) -> bool {
    forall|i: int| 0 <= i < s.len() ==> !((#[trigger] sp_data(s[i])) is IssuerFingerprint)
}
