// ---------------------------------------------------------------------------------
// shims/cleartext_headers.rs - armor::Headers as consumed by composed::cleartext::validate_headers.
// Include after shims/io.rs, inside verus!{}.
// ---------------------------------------------------------------------------------

//@trusted T2 a header name / value (std String) is modelled by its text(): Seq<char>; `name == "Hash"` (impl PartialEq<&str> for String) compares the texts; String::parse::<HashAlgorithm>() (impl FromStr for HashAlgorithm, crypto/hash.rs:82, not under contract) is Ok(h) exactly when hash_of_name(text) == Some(h), an uninterpreted table
#[verifier::external_body]
pub struct HString { s: String }
impl HString {
    pub uninterp spec fn text(&self) -> Seq<char>;
}
impl vstd::std_specs::cmp::PartialEqSpecImpl<&str> for HString {
    open spec fn obeys_eq_spec() -> bool { true }
    open spec fn eq_spec(&self, other: &&str) -> bool { self.text() == (*other)@ }
}
impl PartialEq<&str> for HString {
    #[verifier::external_body]
    fn eq(&self, other: &&str) -> (r: bool) { unimplemented!() }
}

pub enum HashAlgorithm { None, Md5, Sha1, Ripemd160, Sha256, Sha384, Sha512, Sha224, Sha3_256, Sha3_512, Private10, Other(u8) }
pub uninterp spec fn hash_of_name(text: Seq<char>) -> Option<HashAlgorithm>;
pub struct ParseHashError;
impl HString {
    #[verifier::external_body]
    pub fn parse(&self) -> (r: core::result::Result<HashAlgorithm, ParseHashError>)
        ensures match r { Ok(h) => hash_of_name(self.text()) == Some(h), Err(_) => hash_of_name(self.text()) is None }
    { unimplemented!() }
}

//@trusted T2 armor::Headers = BTreeMap<String, Vec<String>>: consuming iteration (`for (name, values) in headers`, i.e. IntoIterator::into_iter) yields the (name, values) entries() of the map, each once, in key order; iteration over the owned Vec<String> is vstd's
#[verifier::external_body]
pub struct Headers { m: std::collections::BTreeMap<String, Vec<String>> }
#[verifier::external_body]
pub struct HeadersIntoIter { it: std::collections::btree_map::IntoIter<String, Vec<String>> }
impl Headers {
    pub uninterp spec fn entries(&self) -> Seq<(HString, Vec<HString>)>;
}
impl IntoIterator for Headers {
    type Item = (HString, Vec<HString>);
    type IntoIter = HeadersIntoIter;
    #[verifier::external_body]
    fn into_iter(self) -> (r: HeadersIntoIter) ensures r.rem() == self.entries() { unimplemented!() }
}
impl HeadersIntoIter {
    pub uninterp spec fn rem(&self) -> Seq<(HString, Vec<HString>)>;
}
impl Iterator for HeadersIntoIter {
    type Item = (HString, Vec<HString>);
    // the contract of `next` is the one vstd attaches to Iterator::next in terms of the IteratorSpecImpl functions below
    #[verifier::external_body]
    fn next(&mut self) -> (r: Option<(HString, Vec<HString>)>) { unimplemented!() }
}
impl vstd::std_specs::iter::IteratorSpecImpl for HeadersIntoIter {
    open spec fn obeys_prophetic_iter_laws(&self) -> bool { true }
    open spec fn remaining(&self) -> Seq<(HString, Vec<HString>)> { self.rem() }
    open spec fn will_return_none(&self) -> bool { true }
    open spec fn decrease(&self) -> Option<nat> { Some(self.rem().len()) }
    open spec fn peek(&self, index: int) -> Option<(HString, Vec<HString>)> {
        if 0 <= index < self.rem().len() { Some(self.rem()[index]) } else { None }
    }
}
