// ---------------------------------------------------------------------------------
// shims/packet_parsers.rs - everything Packet::from_reader (src/packet/single.rs) dispatches to, as
// abstract values and *assumed* contracts: PacketHeader (an opaque Copy record with its accessors), the
// opaque `Packet`, the 19 packet types with their body parsers `X::try_from_reader(header, &mut body)` at
// the instance body: PacketBodyReader<&mut R0>, and the `Into<Packet>` conversions.
// Include after shims/io_pkterr.rs, lemmas/packet_body_view.rs, shims/packet_body_reader_ref.rs and the
// extracted `enum Tag`.
// ---------------------------------------------------------------------------------
//@trusted T4 PacketHeader is a plain Copy record; packet_length() and tag() are its accessors (src/packet/header.rs, subject of U04)
#[verifier::external_body]
pub struct PacketHeader { p: u8 }
impl Clone for PacketHeader { #[verifier::external_body] fn clone(&self) -> (r: Self) ensures r == *self { unimplemented!() } }
impl Copy for PacketHeader {}
impl PacketHeader {
    pub uninterp spec fn length(&self) -> PacketLength;
    pub uninterp spec fn ptag(&self) -> Tag;
    #[verifier::external_body]
    pub fn packet_length(&self) -> (r: PacketLength) ensures r == self.length() { unimplemented!() }
    #[verifier::external_body]
    pub fn tag(&self) -> (r: Tag) ensures r == self.ptag() { unimplemented!() }

    /// the header as RFC 9580 4.2 sees it (lemmas/framing.rs `Hdr`; defined on the real enum in U04 / lemmas/header_view.rs)
    pub uninterp spec fn hv(&self) -> Hdr;
    //@trusted T4 the accessors agree with the RFC view: packet_length() is the length stored in the header, tag() is Tag::from(the Packet Type ID bits) and lemmas/tags.rs tag_id inverts Tag::from on 0..=63 (src/packet/header.rs, src/types/packet.rs `impl From<u8> for Tag`: one match arm per ID)
    #[verifier::external_body]
    pub proof fn axiom_accessors(&self)
        ensures hdr_len(self.hv()) == self.length(), hdr_tag(self.hv()) == tag_id(self.ptag())
    {}
    //@trusted T4 PacketHeader::try_from_reader at R := &mut R0: Ok(h) means h is the RFC 9580 4.2 decoding dec_hdr of the stream, a well-formed header, and exactly its 1..6 octets were consumed (proved in U04 as try_from_reader_ref); on Err nothing is known
    #[verifier::external_body]
    pub fn try_from_reader<R: io::BufRead>(r: &mut R) -> (res: io::Result<PacketHeader>)
        ensures match res {
            Ok(h) => dec_hdr(old(r).rest()) == Some((h.hv(), dec_hdr(old(r).rest()).unwrap().1))
                && (*final(r)).rest() == old(r).rest().skip(dec_hdr(old(r).rest()).unwrap().1 as int)
                && hdr_ok(h.hv()),
            // (provenance only: hdr_err is uninterpreted, see below; nothing is assumed about when a read fails)
            Err(e) => hdr_err(old(r).rest(), e.k) }
    { unimplemented!() }
}
/// PROVENANCE predicate (uninterpreted): reading a packet header from a reader that still held the octets `s` failed with an
/// io::Error of kind k
pub uninterp spec fn hdr_err(s: Seq<u8>, k: io::ErrorKind) -> bool;

//@trusted T2 Packet (src/packet/packet_sum.rs) is an opaque value here
#[verifier::external_body]
pub struct Packet { p: u8 }

/// PROVENANCE predicates (uninterpreted, so they can only be established by the parser that ran):
/// pkt_ok(h, s, p, used): on a body reader that could still deliver the octets `s`, the body parser selected by header h
///   returned the packet p after consuming the first `used` octets of s;
/// pkt_err(h, s, e): that parser returned the error e.
pub uninterp spec fn pkt_ok(h: PacketHeader, s: Seq<u8>, p: Packet, used: nat) -> bool;
pub uninterp spec fn pkt_err(h: PacketHeader, s: Seq<u8>, e: errors::Error) -> bool;

/// What using a PacketBodyReader through its Read/BufRead interface can do to it (the reflexive-transitive closure of
/// the U07 contracts of read / fill_buf / consume): header and 8 KiB invariant are kept, an error is sticky, and as long as
/// no error occurred exactly k octets of the deliverable body were taken, the framing (in particular the position `t`
/// of the end of the packet) and the borrowed source reference being untouched.
#[verifier::prophetic]
pub open spec fn body_used<'a, R0: io::BufRead>(a: PacketBodyReader<&'a mut R0>, b: PacketBodyReader<&'a mut R0>, k: nat) -> bool {
    &&& b.header() == a.header()
    &&& (a.inv() ==> b.inv())
    &&& (a.is_error_state() ==> b.is_error_state())
    &&& (b.is_error_state() || {
            &&& k <= a.deliverable().len()
            &&& b.deliverable() == a.deliverable().skip(k as int)
            &&& b.framing() == framing_skip(a.framing(), k)
            &&& b.src_fut() == a.src_fut()
        })
}

#[verifier::prophetic]
pub open spec fn parser_post<'a, R0: io::BufRead>(h: PacketHeader, a: PacketBodyReader<&'a mut R0>, b: PacketBodyReader<&'a mut R0>, res: core::result::Result<Packet, errors::Error>) -> bool {
    match res {
        Ok(p) => exists|k: nat| body_used(a, b, k) && #[trigger] pkt_ok(h, a.deliverable(), p, k),
        Err(e) => pkt_err(h, a.deliverable(), e) && exists|k: nat| #[trigger] body_used(a, b, k),
    }
}

pub trait IntoPacket: Sized { spec fn as_packet(self) -> Packet; }
//@trusted T2 `Into::<Packet>::into` (the From impls generated in src/packet/packet_sum.rs) wraps the typed packet; as_packet names the result
#[verifier::external_body]
pub fn packet_from<T: IntoPacket>(x: T) -> (p: Packet) ensures p == x.as_packet() { unimplemented!() }

//@trusted T4 the 19 per-type body parsers (Signature::try_from_reader, ... GnupgAeadData::try_from_reader; not under contract here) at the instance body: &mut PacketBodyReader<&mut R0>: each uses the body reader only through Read/BufRead (body_used: some k octets taken, or the reader is in its error state) and returns Ok(packet) or Err(e); nothing else is assumed - which octets, how many, and which error are unconstrained.  The typed packet is modelled by the Packet it converts into
pub struct Signature { pub p: Packet }
impl IntoPacket for Signature { open spec fn as_packet(self) -> Packet { self.p } }
impl Signature {
    #[verifier::external_body]
    pub fn try_from_reader<'a, R0: io::BufRead>(packet_header: PacketHeader, r: &mut PacketBodyReader<&'a mut R0>) -> (res: errors::Result<Signature>)
        ensures parser_post(packet_header, *old(r), *final(r), match res { Ok(x) => Ok(x.p), Err(e) => Err(e) })
    { unimplemented!() }
}
pub struct OnePassSignature { pub p: Packet }
impl IntoPacket for OnePassSignature { open spec fn as_packet(self) -> Packet { self.p } }
impl OnePassSignature {
    #[verifier::external_body]
    pub fn try_from_reader<'a, R0: io::BufRead>(packet_header: PacketHeader, r: &mut PacketBodyReader<&'a mut R0>) -> (res: errors::Result<OnePassSignature>)
        ensures parser_post(packet_header, *old(r), *final(r), match res { Ok(x) => Ok(x.p), Err(e) => Err(e) })
    { unimplemented!() }
}
pub struct SecretKey { pub p: Packet }
impl IntoPacket for SecretKey { open spec fn as_packet(self) -> Packet { self.p } }
impl SecretKey {
    #[verifier::external_body]
    pub fn try_from_reader<'a, R0: io::BufRead>(packet_header: PacketHeader, r: &mut PacketBodyReader<&'a mut R0>) -> (res: errors::Result<SecretKey>)
        ensures parser_post(packet_header, *old(r), *final(r), match res { Ok(x) => Ok(x.p), Err(e) => Err(e) })
    { unimplemented!() }
}
pub struct SecretSubkey { pub p: Packet }
impl IntoPacket for SecretSubkey { open spec fn as_packet(self) -> Packet { self.p } }
impl SecretSubkey {
    #[verifier::external_body]
    pub fn try_from_reader<'a, R0: io::BufRead>(packet_header: PacketHeader, r: &mut PacketBodyReader<&'a mut R0>) -> (res: errors::Result<SecretSubkey>)
        ensures parser_post(packet_header, *old(r), *final(r), match res { Ok(x) => Ok(x.p), Err(e) => Err(e) })
    { unimplemented!() }
}
pub struct PublicKey { pub p: Packet }
impl IntoPacket for PublicKey { open spec fn as_packet(self) -> Packet { self.p } }
impl PublicKey {
    #[verifier::external_body]
    pub fn try_from_reader<'a, R0: io::BufRead>(packet_header: PacketHeader, r: &mut PacketBodyReader<&'a mut R0>) -> (res: errors::Result<PublicKey>)
        ensures parser_post(packet_header, *old(r), *final(r), match res { Ok(x) => Ok(x.p), Err(e) => Err(e) })
    { unimplemented!() }
}
pub struct PublicSubkey { pub p: Packet }
impl IntoPacket for PublicSubkey { open spec fn as_packet(self) -> Packet { self.p } }
impl PublicSubkey {
    #[verifier::external_body]
    pub fn try_from_reader<'a, R0: io::BufRead>(packet_header: PacketHeader, r: &mut PacketBodyReader<&'a mut R0>) -> (res: errors::Result<PublicSubkey>)
        ensures parser_post(packet_header, *old(r), *final(r), match res { Ok(x) => Ok(x.p), Err(e) => Err(e) })
    { unimplemented!() }
}
pub struct PublicKeyEncryptedSessionKey { pub p: Packet }
impl IntoPacket for PublicKeyEncryptedSessionKey { open spec fn as_packet(self) -> Packet { self.p } }
impl PublicKeyEncryptedSessionKey {
    #[verifier::external_body]
    pub fn try_from_reader<'a, R0: io::BufRead>(packet_header: PacketHeader, r: &mut PacketBodyReader<&'a mut R0>) -> (res: errors::Result<PublicKeyEncryptedSessionKey>)
        ensures parser_post(packet_header, *old(r), *final(r), match res { Ok(x) => Ok(x.p), Err(e) => Err(e) })
    { unimplemented!() }
}
pub struct SymKeyEncryptedSessionKey { pub p: Packet }
impl IntoPacket for SymKeyEncryptedSessionKey { open spec fn as_packet(self) -> Packet { self.p } }
impl SymKeyEncryptedSessionKey {
    #[verifier::external_body]
    pub fn try_from_reader<'a, R0: io::BufRead>(packet_header: PacketHeader, r: &mut PacketBodyReader<&'a mut R0>) -> (res: errors::Result<SymKeyEncryptedSessionKey>)
        ensures parser_post(packet_header, *old(r), *final(r), match res { Ok(x) => Ok(x.p), Err(e) => Err(e) })
    { unimplemented!() }
}
pub struct LiteralData { pub p: Packet }
impl IntoPacket for LiteralData { open spec fn as_packet(self) -> Packet { self.p } }
impl LiteralData {
    #[verifier::external_body]
    pub fn try_from_reader<'a, R0: io::BufRead>(packet_header: PacketHeader, r: &mut PacketBodyReader<&'a mut R0>) -> (res: errors::Result<LiteralData>)
        ensures parser_post(packet_header, *old(r), *final(r), match res { Ok(x) => Ok(x.p), Err(e) => Err(e) })
    { unimplemented!() }
}
pub struct CompressedData { pub p: Packet }
impl IntoPacket for CompressedData { open spec fn as_packet(self) -> Packet { self.p } }
impl CompressedData {
    #[verifier::external_body]
    pub fn try_from_reader<'a, R0: io::BufRead>(packet_header: PacketHeader, r: &mut PacketBodyReader<&'a mut R0>) -> (res: errors::Result<CompressedData>)
        ensures parser_post(packet_header, *old(r), *final(r), match res { Ok(x) => Ok(x.p), Err(e) => Err(e) })
    { unimplemented!() }
}
pub struct SymEncryptedData { pub p: Packet }
impl IntoPacket for SymEncryptedData { open spec fn as_packet(self) -> Packet { self.p } }
impl SymEncryptedData {
    #[verifier::external_body]
    pub fn try_from_reader<'a, R0: io::BufRead>(packet_header: PacketHeader, r: &mut PacketBodyReader<&'a mut R0>) -> (res: errors::Result<SymEncryptedData>)
        ensures parser_post(packet_header, *old(r), *final(r), match res { Ok(x) => Ok(x.p), Err(e) => Err(e) })
    { unimplemented!() }
}
pub struct SymEncryptedProtectedData { pub p: Packet }
impl IntoPacket for SymEncryptedProtectedData { open spec fn as_packet(self) -> Packet { self.p } }
impl SymEncryptedProtectedData {
    #[verifier::external_body]
    pub fn try_from_reader<'a, R0: io::BufRead>(packet_header: PacketHeader, r: &mut PacketBodyReader<&'a mut R0>) -> (res: errors::Result<SymEncryptedProtectedData>)
        ensures parser_post(packet_header, *old(r), *final(r), match res { Ok(x) => Ok(x.p), Err(e) => Err(e) })
    { unimplemented!() }
}
pub struct Marker { pub p: Packet }
impl IntoPacket for Marker { open spec fn as_packet(self) -> Packet { self.p } }
impl Marker {
    #[verifier::external_body]
    pub fn try_from_reader<'a, R0: io::BufRead>(packet_header: PacketHeader, r: &mut PacketBodyReader<&'a mut R0>) -> (res: errors::Result<Marker>)
        ensures parser_post(packet_header, *old(r), *final(r), match res { Ok(x) => Ok(x.p), Err(e) => Err(e) })
    { unimplemented!() }
}
pub struct Trust { pub p: Packet }
impl IntoPacket for Trust { open spec fn as_packet(self) -> Packet { self.p } }
impl Trust {
    #[verifier::external_body]
    pub fn try_from_reader<'a, R0: io::BufRead>(packet_header: PacketHeader, r: &mut PacketBodyReader<&'a mut R0>) -> (res: errors::Result<Trust>)
        ensures parser_post(packet_header, *old(r), *final(r), match res { Ok(x) => Ok(x.p), Err(e) => Err(e) })
    { unimplemented!() }
}
pub struct UserId { pub p: Packet }
impl IntoPacket for UserId { open spec fn as_packet(self) -> Packet { self.p } }
impl UserId {
    #[verifier::external_body]
    pub fn try_from_reader<'a, R0: io::BufRead>(packet_header: PacketHeader, r: &mut PacketBodyReader<&'a mut R0>) -> (res: errors::Result<UserId>)
        ensures parser_post(packet_header, *old(r), *final(r), match res { Ok(x) => Ok(x.p), Err(e) => Err(e) })
    { unimplemented!() }
}
pub struct UserAttribute { pub p: Packet }
impl IntoPacket for UserAttribute { open spec fn as_packet(self) -> Packet { self.p } }
impl UserAttribute {
    #[verifier::external_body]
    pub fn try_from_reader<'a, R0: io::BufRead>(packet_header: PacketHeader, r: &mut PacketBodyReader<&'a mut R0>) -> (res: errors::Result<UserAttribute>)
        ensures parser_post(packet_header, *old(r), *final(r), match res { Ok(x) => Ok(x.p), Err(e) => Err(e) })
    { unimplemented!() }
}
pub struct ModDetectionCode { pub p: Packet }
impl IntoPacket for ModDetectionCode { open spec fn as_packet(self) -> Packet { self.p } }
impl ModDetectionCode {
    #[verifier::external_body]
    pub fn try_from_reader<'a, R0: io::BufRead>(packet_header: PacketHeader, r: &mut PacketBodyReader<&'a mut R0>) -> (res: errors::Result<ModDetectionCode>)
        ensures parser_post(packet_header, *old(r), *final(r), match res { Ok(x) => Ok(x.p), Err(e) => Err(e) })
    { unimplemented!() }
}
pub struct Padding { pub p: Packet }
impl IntoPacket for Padding { open spec fn as_packet(self) -> Packet { self.p } }
impl Padding {
    #[verifier::external_body]
    pub fn try_from_reader<'a, R0: io::BufRead>(packet_header: PacketHeader, r: &mut PacketBodyReader<&'a mut R0>) -> (res: errors::Result<Padding>)
        ensures parser_post(packet_header, *old(r), *final(r), match res { Ok(x) => Ok(x.p), Err(e) => Err(e) })
    { unimplemented!() }
}
pub struct GnupgAeadData { pub p: Packet }
impl IntoPacket for GnupgAeadData { open spec fn as_packet(self) -> Packet { self.p } }
impl GnupgAeadData {
    #[verifier::external_body]
    pub fn try_from_reader<'a, R0: io::BufRead>(packet_header: PacketHeader, r: &mut PacketBodyReader<&'a mut R0>) -> (res: errors::Result<GnupgAeadData>)
        ensures parser_post(packet_header, *old(r), *final(r), match res { Ok(x) => Ok(x.p), Err(e) => Err(e) })
    { unimplemented!() }
}
