// ---------------------------------------------------------------------------------
// shims/serlen_ext.rs - the foreign-crate key types whose octets the `impl Serialize` blocks of the
// length-agreement sweep (U75a..) write: ed25519_dalek / x25519_dalek / cx448 keys, num-bigint BigUint,
// rsa / dsa key parts, elliptic_curve (p256, p384, p521, k256) public / secret keys, and crate::crypto::
// ecc_curve::ECCCurve::oid().  Every accessor is modelled as a FUNCTION of the key value (an uninterpreted
// ghost view), which is all a length-agreement proof needs: write_len() and to_writer() both call the
// accessor and must see the same octets.  Include after shims/io.rs (or shims/io_sink.rs), shims/bytes.rs and a Serialize trait (shims/secret_reader.rs or shims/serlen_sink.rs).
// ---------------------------------------------------------------------------------

//@trusted T2 ed25519_dalek::VerifyingKey::as_bytes, ed25519_dalek::SigningKey::as_bytes, x25519_dalek::PublicKey::as_bytes, x25519_dalek::StaticSecret::as_bytes, cx448::VerifyingKey::as_bytes (57 octets), cx448::SigningKey::as_bytes, cx448::x448::{PublicKey, Secret}::as_bytes (56 octets): return a reference to the fixed-size octet array of the key; the octets are a function of the key value
pub mod ed25519_dalek {
    use vstd::prelude::*;
    #[verifier::external_body]
    pub struct VerifyingKey { p: u8 }
    impl VerifyingKey {
        pub uninterp spec fn pk_bytes(&self) -> Seq<u8>;
        #[verifier::external_body]
        pub fn as_bytes(&self) -> (r: &[u8; 32]) ensures r@ == self.pk_bytes() { unimplemented!() }
        /// the return type of as_bytes is `&[u8; 32]`
        #[verifier::external_body]
        pub proof fn axiom_len(&self) ensures self.pk_bytes().len() == 32 {}
    }
    #[verifier::external_body]
    pub struct SigningKey { p: u8 }
    impl SigningKey {
        pub uninterp spec fn sk_bytes(&self) -> Seq<u8>;
        #[verifier::external_body]
        pub fn as_bytes(&self) -> (r: &[u8; 32]) ensures r@ == self.sk_bytes() { unimplemented!() }
        /// the return type of as_bytes is `&[u8; 32]`
        #[verifier::external_body]
        pub proof fn axiom_len(&self) ensures self.sk_bytes().len() == 32 {}
    }
}
pub mod x25519_dalek {
    use vstd::prelude::*;
    #[verifier::external_body]
    pub struct PublicKey { p: u8 }
    impl PublicKey {
        pub uninterp spec fn pk_bytes(&self) -> Seq<u8>;
        #[verifier::external_body]
        pub fn as_bytes(&self) -> (r: &[u8; 32]) ensures r@ == self.pk_bytes() { unimplemented!() }
        /// the return type of as_bytes is `&[u8; 32]`
        #[verifier::external_body]
        pub proof fn axiom_len(&self) ensures self.pk_bytes().len() == 32 {}
    }
    #[verifier::external_body]
    pub struct StaticSecret { p: u8 }
    impl StaticSecret {
        pub uninterp spec fn sk_bytes(&self) -> Seq<u8>;
        #[verifier::external_body]
        pub fn as_bytes(&self) -> (r: &[u8; 32]) ensures r@ == self.sk_bytes() { unimplemented!() }
        /// the return type of as_bytes is `&[u8; 32]`
        #[verifier::external_body]
        pub proof fn axiom_len(&self) ensures self.sk_bytes().len() == 32 {}
    }
}
pub mod cx448 {
    use vstd::prelude::*;
    #[verifier::external_body]
    pub struct VerifyingKey { p: u8 }
    impl VerifyingKey {
        pub uninterp spec fn pk_bytes(&self) -> Seq<u8>;
        #[verifier::external_body]
        pub fn as_bytes(&self) -> (r: &[u8; 57]) ensures r@ == self.pk_bytes() { unimplemented!() }
        /// the return type of as_bytes is `&[u8; 57]`
        #[verifier::external_body]
        pub proof fn axiom_len(&self) ensures self.pk_bytes().len() == 57 {}
    }
    /// cx448::SigningKey::as_bytes returns `&SecretKey` = `&GenericArray<u8, U57>`; modelled as its octets
    #[verifier::external_body]
    pub struct SecretBytes { p: u8 }
    impl SecretBytes {
        pub uninterp spec fn view(&self) -> Seq<u8>;
        #[verifier::external_body]
        pub fn as_ref(&self) -> (r: &[u8]) ensures r@ == self.view() { unimplemented!() }
    }
    #[verifier::external_body]
    pub struct SigningKey { p: u8 }
    impl SigningKey {
        pub uninterp spec fn sk_bytes(&self) -> Seq<u8>;
        #[verifier::external_body]
        pub fn as_bytes(&self) -> (r: &SecretBytes) ensures r.view() == self.sk_bytes() { unimplemented!() }
        /// `SecretKey` = GenericArray<u8, U57>
        #[verifier::external_body]
        pub proof fn axiom_len(&self) ensures self.sk_bytes().len() == 57 {}
    }
    pub mod x448 {
        use vstd::prelude::*;
        #[verifier::external_body]
        pub struct PublicKey { p: u8 }
        impl PublicKey {
            pub uninterp spec fn pk_bytes(&self) -> Seq<u8>;
            #[verifier::external_body]
            pub fn as_bytes(&self) -> (r: &[u8; 56]) ensures r@ == self.pk_bytes() { unimplemented!() }
            /// the return type of as_bytes is `&[u8; 56]`
            #[verifier::external_body]
            pub proof fn axiom_len(&self) ensures self.pk_bytes().len() == 56 {}
        }
        #[verifier::external_body]
        pub struct Secret { p: u8 }
        impl Secret {
            pub uninterp spec fn sk_bytes(&self) -> Seq<u8>;
            #[verifier::external_body]
            pub fn as_bytes(&self) -> (r: &[u8; 56]) ensures r@ == self.sk_bytes() { unimplemented!() }
            /// the return type of as_bytes is `&[u8; 56]`
            #[verifier::external_body]
            pub proof fn axiom_len(&self) ensures self.sk_bytes().len() == 56 {}
        }
    }
}

//@trusted T2 num_bigint::BigUint / rsa::RsaPublicKey::{n,e} / dsa::{VerifyingKey::{components,y}, Components::{p,q,g}} / dsa::SigningKey::x: accessors return references to unsigned integers held in the key; `Mpi::from(&BigUint)` (src/types/mpi.rs:122: `Mpi(other.to_bytes_be().into())`) holds to_bytes_be() of the number, a function of the number
#[verifier::external_body]
pub struct BigUint { _x: u8 }
impl BigUint {
    /// big-endian magnitude as produced by to_bytes_be()
    pub uninterp spec fn be_bytes(&self) -> Seq<u8>;
    #[verifier::external_body]
    pub fn to_bytes_be(&self) -> (r: Vec<u8>) ensures r@ == self.be_bytes() { unimplemented!() }
}
pub mod rsa {
    use super::*;
    #[verifier::external_body]
    pub struct RsaPublicKey { _x: u8 }
    impl RsaPublicKey {
        pub uninterp spec fn n_bytes(&self) -> Seq<u8>;
        pub uninterp spec fn e_bytes(&self) -> Seq<u8>;
        #[verifier::external_body]
        pub fn n(&self) -> (r: &BigUint) ensures r.be_bytes() == self.n_bytes() { unimplemented!() }
        #[verifier::external_body]
        pub fn e(&self) -> (r: &BigUint) ensures r.be_bytes() == self.e_bytes() { unimplemented!() }
    }
}
pub mod dsa {
    use super::*;
    #[verifier::external_body]
    pub struct Components { _x: u8 }
    impl Components {
        pub uninterp spec fn p_bytes(&self) -> Seq<u8>;
        pub uninterp spec fn q_bytes(&self) -> Seq<u8>;
        pub uninterp spec fn g_bytes(&self) -> Seq<u8>;
        #[verifier::external_body]
        pub fn p(&self) -> (r: &BigUint) ensures r.be_bytes() == self.p_bytes() { unimplemented!() }
        #[verifier::external_body]
        pub fn q(&self) -> (r: &BigUint) ensures r.be_bytes() == self.q_bytes() { unimplemented!() }
        #[verifier::external_body]
        pub fn g(&self) -> (r: &BigUint) ensures r.be_bytes() == self.g_bytes() { unimplemented!() }
    }
    #[verifier::external_body]
    pub struct VerifyingKey { _x: u8 }
    impl VerifyingKey {
        pub uninterp spec fn comps(&self) -> Components;
        pub uninterp spec fn y_bytes(&self) -> Seq<u8>;
        #[verifier::external_body]
        pub fn components(&self) -> (r: &Components) ensures *r == self.comps() { unimplemented!() }
        #[verifier::external_body]
        pub fn y(&self) -> (r: &BigUint) ensures r.be_bytes() == self.y_bytes() { unimplemented!() }
    }
    #[verifier::external_body]
    pub struct SigningKey { _x: u8 }
    impl SigningKey {
        pub uninterp spec fn x_bytes(&self) -> Seq<u8>;
        #[verifier::external_body]
        pub fn x(&self) -> (r: &BigUint) ensures r.be_bytes() == self.x_bytes() { unimplemented!() }
    }
}

//@trusted T2 elliptic_curve::PublicKey<C>::{to_encoded_point(compress).as_bytes(), to_sec1_bytes()} and SecretKey<C>::to_bytes() return the SEC1 encoding of the point / the scalar octets: byte strings that are functions of the key value (and of the compress flag); their exact lengths are not needed for the length agreement
pub mod elliptic_curve {
    use vstd::prelude::*;
    #[verifier::external_body]
    pub struct EncodedPoint { _x: u8 }
    impl EncodedPoint {
        pub uninterp spec fn view(&self) -> Seq<u8>;
        #[verifier::external_body]
        pub fn as_bytes(&self) -> (r: &[u8]) ensures r@ == self.view() { unimplemented!() }
    }
    /// `Box<[u8]>` / `GenericArray<u8, N>` returned by value: only `.as_ref()` / deref to `&[u8]` is used
    #[verifier::external_body]
    pub struct OwnedBytes { _x: u8 }
    impl OwnedBytes {
        pub uninterp spec fn view(&self) -> Seq<u8>;
        #[verifier::external_body]
        pub fn as_ref(&self) -> (r: &[u8]) ensures r@ == self.view() { unimplemented!() }
    }
    impl core::ops::Deref for OwnedBytes {
        type Target = [u8];
        #[verifier::external_body]
        fn deref(&self) -> (r: &[u8]) ensures r@ == self.view() { unimplemented!() }
    }
    #[verifier::external_body]
    #[verifier::reject_recursive_types(C)]
    pub struct PublicKey<C> { _x: u8, _c: core::marker::PhantomData<C> }
    impl<C> PublicKey<C> {
        pub uninterp spec fn sec1(&self, compress: bool) -> Seq<u8>;
        #[verifier::external_body]
        pub fn to_encoded_point(&self, compress: bool) -> (r: EncodedPoint) ensures r.view() == self.sec1(compress) { unimplemented!() }
        #[verifier::external_body]
        pub fn to_sec1_bytes(&self) -> (r: OwnedBytes) ensures r.view() == self.sec1(false) { unimplemented!() }
    }
    #[verifier::external_body]
    #[verifier::reject_recursive_types(C)]
    pub struct SecretKey<C> { _x: u8, _c: core::marker::PhantomData<C> }
    impl<C> SecretKey<C> {
        pub uninterp spec fn scalar(&self) -> Seq<u8>;
        #[verifier::external_body]
        pub fn to_bytes(&self) -> (r: OwnedBytes) ensures r.view() == self.scalar() { unimplemented!() }
    }
}
pub mod p256 { pub struct NistP256; pub type PublicKey = super::elliptic_curve::PublicKey<NistP256>; pub type SecretKey = super::elliptic_curve::SecretKey<NistP256>; }
pub mod p384 { pub struct NistP384; pub type PublicKey = super::elliptic_curve::PublicKey<NistP384>; pub type SecretKey = super::elliptic_curve::SecretKey<NistP384>; }
pub mod p521 { pub struct NistP521; pub type PublicKey = super::elliptic_curve::PublicKey<NistP521>; pub type SecretKey = super::elliptic_curve::SecretKey<NistP521>; }
pub mod k256 { pub struct Secp256k1; pub type PublicKey = super::elliptic_curve::PublicKey<Secp256k1>; pub type SecretKey = super::elliptic_curve::SecretKey<Secp256k1>; }

//@trusted T4 crypto::ecc_curve::ECCCurve::oid() (string splitting and iterator chains, outside the accepted subset) returns the DER content octets of the curve's OID: a function curve_oid() of the curve value, held in memory (shorter than 2^56 octets); derive(Clone) copies the value
#[verifier::external_body]
pub struct ObjectIdentifier { _x: u8 }
pub enum ECCCurve { Curve25519Legacy, Ed25519Legacy, P256, P384, P521, BrainpoolP256r1, BrainpoolP384r1, BrainpoolP512r1, Secp256k1, Unknown(ObjectIdentifier) }
impl ECCCurve {
    pub uninterp spec fn curve_oid(&self) -> Seq<u8>;
    #[verifier::external_body]
    pub fn oid(&self) -> (r: Vec<u8>) ensures r@ == self.curve_oid(), r@.len() < 0x0100_0000_0000_0000 { unimplemented!() }
}
impl Clone for ECCCurve {
    #[verifier::external_body]
    fn clone(&self) -> (r: ECCCurve) ensures r == *self { unimplemented!() }
}

//@trusted T2 rsa::RsaPrivateKey::{d, primes} (trait PrivateKeyParts): the private exponent and the prime factors; every constructor of RsaPrivateKey leaves at least two primes (rsa-0.9.10 key.rs from_components: fewer than two are recovered or rejected).  num_bigint_dig: `p.mod_inverse(&q)` for BigUint is Some(x) exactly when gcd(p, q) == 1 (algorithms/mod_inverse.rs:14), x then lies in [0, q) so `to_biguint()` is Some; BigUint::clone copies the number; `Mpi::from(BigUint)` holds its to_bytes_be()
pub uninterp spec fn big_coprime(a: BigUint, b: BigUint) -> bool;
pub uninterp spec fn big_modinv(a: BigUint, b: BigUint) -> BigUint;
#[verifier::external_body]
pub struct BigInt { _x: u8 }
impl BigInt {
    pub uninterp spec fn nonneg(&self) -> bool;
    pub uninterp spec fn mag(&self) -> BigUint;
    #[verifier::external_body]
    pub fn to_biguint(&self) -> (r: Option<BigUint>)
        ensures r is Some == self.nonneg(), r matches Some(u) ==> u == self.mag()
    { unimplemented!() }
}
impl Clone for BigUint {
    #[verifier::external_body]
    fn clone(&self) -> (r: BigUint) ensures r == *self { unimplemented!() }
}
impl BigUint {
    #[verifier::external_body]
    pub fn mod_inverse(self, m: &BigUint) -> (r: Option<BigInt>)
        ensures r is Some == big_coprime(self, *m), r matches Some(x) ==> x.nonneg() && x.mag() == big_modinv(self, *m)
    { unimplemented!() }
}
pub mod rsa_private {
    use super::*;
    #[verifier::external_body]
    pub struct RsaPrivateKey { _x: u8 }
    impl RsaPrivateKey {
        pub uninterp spec fn d_val(&self) -> BigUint;
        pub uninterp spec fn primes_val(&self) -> Seq<BigUint>;
        #[verifier::external_body]
        pub fn d(&self) -> (r: &BigUint) ensures *r == self.d_val() { unimplemented!() }
        #[verifier::external_body]
        pub fn primes(&self) -> (r: &[BigUint]) ensures r@ == self.primes_val(), r@.len() >= 2 { unimplemented!() }
    }
}

//@trusted T2 bytes::BytesMut derefs to its content; BytesMut::clone copies it; Bytes::from(BytesMut) (= freeze) keeps it
impl core::ops::Deref for BytesMut {
    type Target = [u8];
    #[verifier::external_body]
    fn deref(&self) -> (r: &[u8]) ensures r@ == self@ { unimplemented!() }
}
impl Clone for BytesMut {
    #[verifier::external_body]
    fn clone(&self) -> (r: BytesMut) ensures r@ == self@ { unimplemented!() }
}
impl core::convert::From<BytesMut> for Bytes {
    #[verifier::external_body]
    fn from(v: BytesMut) -> (r: Bytes) ensures r@ == v@ { unimplemented!() }
}

//@trusted T2 `<&[u8] as TryInto<&[u8; N]>>::try_into` (core::array) succeeds exactly for slices of length N and refers to the same octets (Verus cannot attach a spec to the std impl; units call it through this free function by //@sub)
#[verifier::external_body]
pub fn slice_try_into_arr_ref<const N: usize>(s: &[u8]) -> (r: core::result::Result<&[u8; N], ()>)
    ensures (r is Ok) == (s@.len() == N), r matches Ok(a) ==> a@ == s@
{ unimplemented!() }

//@trusted T4 crypto::ecdh::Curve25519Legacy::to_bytes_rev (src/crypto/ecdh.rs:66, an iterator .rev().zip() chain outside the accepted subset) returns 32 octets that are a function of the key
pub mod ecdh_legacy_scalar {
    use vstd::prelude::*;
    #[verifier::external_body]
    pub struct Curve25519Legacy { _x: u8 }
    impl Curve25519Legacy {
        pub uninterp spec fn rev_bytes(&self) -> Seq<u8>;
        #[verifier::external_body]
        pub fn to_bytes_rev(&self) -> (r: [u8; 32]) ensures r@ == self.rev_bytes() { unimplemented!() }
    }
}
