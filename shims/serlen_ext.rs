// ---------------------------------------------------------------------------------
// shims/serlen_ext.rs - the foreign-crate key types whose octets the `impl Serialize` blocks of the
// length-agreement sweep (U75a..) write: ed25519_dalek / x25519_dalek / cx448 keys, num-bigint BigUint,
// rsa / dsa key parts, elliptic_curve (p256, p384, p521, k256) public / secret keys, and crate::crypto::
// ecc_curve::ECCCurve::oid().  Every accessor is modelled as a FUNCTION of the key value (an uninterpreted
// ghost view), which is all a length-agreement proof needs: write_len() and to_writer() both call the
// accessor and must see the same octets.  Include after shims/io.rs, shims/bytes.rs, shims/secret_reader.rs.
// ---------------------------------------------------------------------------------

//@trusted T2 ed25519_dalek::VerifyingKey::as_bytes, ed25519_dalek::SigningKey::as_bytes, x25519_dalek::PublicKey::as_bytes, x25519_dalek::StaticSecret::as_bytes, cx448::VerifyingKey::as_bytes (57 octets), cx448::SigningKey::as_bytes, cx448::x448::{PublicKey, Secret}::as_bytes (56 octets): return a reference to the fixed-size octet array of the key; the octets are a function of the key value
pub mod ed25519_dalek {
    use vstd::prelude::*;
    #[verifier::external_body]
    pub struct VerifyingKey { p: u8 }
    impl VerifyingKey {
        pub uninterp spec fn pk_bytes(&self) -> Seq<u8>;
        #[verifier::external_body]
        pub fn as_bytes(&self) -> (r: &[u8; 32]) ensures r@ == self.pk_bytes() { unimplemented!() }
    }
    #[verifier::external_body]
    pub struct SigningKey { p: u8 }
    impl SigningKey {
        pub uninterp spec fn sk_bytes(&self) -> Seq<u8>;
        #[verifier::external_body]
        pub fn as_bytes(&self) -> (r: &[u8; 32]) ensures r@ == self.sk_bytes() { unimplemented!() }
    }
}
pub mod x25519_dalek {
    use vstd::prelude::*;
    #[verifier::external_body]
    pub struct PublicKey { p: u8 }
    impl PublicKey {
        pub uninterp spec fn pk_bytes(&self) -> Seq<u8>;
        #[verifier::external_body]
        pub fn as_bytes(&self) -> (r: &[u8; 32]) ensures r@ == self.pk_bytes() { unimplemented!() }
    }
    #[verifier::external_body]
    pub struct StaticSecret { p: u8 }
    impl StaticSecret {
        pub uninterp spec fn sk_bytes(&self) -> Seq<u8>;
        #[verifier::external_body]
        pub fn as_bytes(&self) -> (r: &[u8; 32]) ensures r@ == self.sk_bytes() { unimplemented!() }
    }
}
pub mod cx448 {
    use vstd::prelude::*;
    #[verifier::external_body]
    pub struct VerifyingKey { p: u8 }
    impl VerifyingKey {
        pub uninterp spec fn pk_bytes(&self) -> Seq<u8>;
        #[verifier::external_body]
        pub fn as_bytes(&self) -> (r: &[u8; 57]) ensures r@ == self.pk_bytes() { unimplemented!() }
    }
    /// cx448::SigningKey::as_bytes returns `&SecretKey` = `&GenericArray<u8, U57>`; modelled as its octets
    #[verifier::external_body]
    pub struct SecretBytes { p: u8 }
    impl SecretBytes {
        pub uninterp spec fn view(&self) -> Seq<u8>;
        #[verifier::external_body]
        pub fn as_ref(&self) -> (r: &[u8]) ensures r@ == self.view() { unimplemented!() }
    }
    #[verifier::external_body]
    pub struct SigningKey { p: u8 }
    impl SigningKey {
        pub uninterp spec fn sk_bytes(&self) -> Seq<u8>;
        #[verifier::external_body]
        pub fn as_bytes(&self) -> (r: &SecretBytes) ensures r.view() == self.sk_bytes() { unimplemented!() }
    }
    pub mod x448 {
        use vstd::prelude::*;
        #[verifier::external_body]
        pub struct PublicKey { p: u8 }
        impl PublicKey {
            pub uninterp spec fn pk_bytes(&self) -> Seq<u8>;
            #[verifier::external_body]
            pub fn as_bytes(&self) -> (r: &[u8; 56]) ensures r@ == self.pk_bytes() { unimplemented!() }
        }
        #[verifier::external_body]
        pub struct Secret { p: u8 }
        impl Secret {
            pub uninterp spec fn sk_bytes(&self) -> Seq<u8>;
            #[verifier::external_body]
            pub fn as_bytes(&self) -> (r: &[u8; 56]) ensures r@ == self.sk_bytes() { unimplemented!() }
        }
    }
}
