// ---------------------------------------------------------------------------------
// shims/serlen_b_types.rs - opaque value types the length-agreement sweep units (U76x) pass through.
// Include after shims/io.rs, shims/bytes.rs and shims/secret_algos.rs (HashAlgorithm,
// SymmetricKeyAlgorithm, AeadAlgorithm, KeyVersion, opaque PublicKeyAlgorithm come from there).
// Do not combine with shims/codec_sigtypes.rs (same names).
// ---------------------------------------------------------------------------------
//@trusted T4 packet::PacketHeader is an opaque value that packet bodies only store (the header codec is proved in U04, the framing in U06)
#[verifier::external_body]
pub struct PacketHeader { p: u8 }

//@trusted T7 num_enum IntoPrimitive on PublicKeyAlgorithm, CompressionAlgorithm, ChunkSize, DataMode, RevocationCode, KeyVersion, SignatureVersion, SignatureType: `u8::from(x)` / `x.into()` is a total function to one octet, left uninterpreted (the sweep only counts octets)
pub uninterp spec fn pk_to_u8(a: PublicKeyAlgorithm) -> u8;
impl core::convert::From<PublicKeyAlgorithm> for u8 {
    #[verifier::external_body]
    fn from(a: PublicKeyAlgorithm) -> (r: u8) ensures r == pk_to_u8(a) { unimplemented!() }
}
#[verifier::external_body]
#[derive(Clone, Copy)]
pub struct CompressionAlgorithm { v: u8 }
pub uninterp spec fn comp_to_u8(a: CompressionAlgorithm) -> u8;
impl core::convert::From<CompressionAlgorithm> for u8 {
    #[verifier::external_body]
    fn from(a: CompressionAlgorithm) -> (r: u8) ensures r == comp_to_u8(a) { unimplemented!() }
}
#[verifier::external_body]
#[derive(Clone, Copy)]
pub struct ChunkSize { v: u8 }
pub uninterp spec fn chunk_to_u8(a: ChunkSize) -> u8;
impl core::convert::From<ChunkSize> for u8 {
    #[verifier::external_body]
    fn from(a: ChunkSize) -> (r: u8) ensures r == chunk_to_u8(a) { unimplemented!() }
}
#[verifier::external_body]
#[derive(Clone, Copy)]
pub struct DataMode { v: u8 }
pub uninterp spec fn mode_to_u8(a: DataMode) -> u8;
impl core::convert::From<DataMode> for u8 {
    #[verifier::external_body]
    fn from(a: DataMode) -> (r: u8) ensures r == mode_to_u8(a) { unimplemented!() }
}
#[verifier::external_body]
#[derive(Clone, Copy)]
pub struct RevocationCode { v: u8 }
pub uninterp spec fn revcode_to_u8(a: RevocationCode) -> u8;
impl core::convert::From<RevocationCode> for u8 {
    #[verifier::external_body]
    fn from(a: RevocationCode) -> (r: u8) ensures r == revcode_to_u8(a) { unimplemented!() }
}
pub uninterp spec fn kv_to_u8(a: KeyVersion) -> u8;
impl core::convert::From<KeyVersion> for u8 {
    #[verifier::external_body]
    fn from(a: KeyVersion) -> (r: u8) ensures r == kv_to_u8(a) { unimplemented!() }
}
#[verifier::external_body]
#[derive(Clone, Copy)]
pub struct SignatureType { v: u8 }
pub uninterp spec fn sigtype_to_u8(a: SignatureType) -> u8;
impl core::convert::From<SignatureType> for u8 {
    #[verifier::external_body]
    fn from(a: SignatureType) -> (r: u8) ensures r == sigtype_to_u8(a) { unimplemented!() }
}

//@trusted T7 KeyId is 8 octets (src/types/key_id.rs: `pub struct KeyId([u8; 8])`, AsRef<[u8]> returns them)
#[derive(Clone, Copy)]
pub struct KeyId(pub [u8; 8]);
impl KeyId {
    // AsRef<[u8]>::as_ref as an inherent method (method-call syntax in the sources resolves to it)
    pub fn as_ref(&self) -> (r: &[u8]) ensures r@ == self.0@ { self.0.as_slice() }
}
