// ---------------------------------------------------------------------------------
// shims/uattr_ser_t4.rs - `impl Serialize for UserAttribute` (src/packet/user_attribute.rs) as
// *assumed* contracts for units whose subject merely serialises a User Attribute (U68s).  The two
// clauses are PROVED on the real code in units/U66s_user_attribute.vu (to_writer_appends_wire,
// write_len_is_wire_len) on top of the image-header contracts of units/U66h_image_header.vu.
// Include after the extracted `enum UserAttribute`, lemmas/uattr_wire.rs and shims/codec_reader.rs.
// ---------------------------------------------------------------------------------
//@trusted T4 impl Serialize for UserAttribute: for a value whose stored SubpacketLength variant respects its documented range (uattr_inv), to_writer = Ok appends uattr_wire(x) = length AS STORED (1, 2 or 5 octets) ++ type octet ++ body, and write_len() == |uattr_wire(x)| (proved in U66s; for an image attribute whose header version is not 1 the unchanged code does not meet it: U66h findings imghdr_unknown_version_*)
impl Serialize for UserAttribute {
    open spec fn wire(&self) -> Seq<u8> { uattr_wire(*self) }
    open spec fn ser_inv(&self) -> bool { uattr_inv(*self) }
    open spec fn len_inv(&self) -> bool { true }
    open spec fn wr_inv(&self) -> bool { uattr_inv(*self) }
    #[verifier::external_body]
    fn to_writer<W: io::Write>(&self, writer: &mut W) -> (r: errors::Result<()>) { unimplemented!() }
    #[verifier::external_body]
    fn write_len(&self) -> (r: usize) { unimplemented!() }
}
