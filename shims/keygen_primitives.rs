// ---------------------------------------------------------------------------------
// shims/keygen_primitives.rs - the key generation primitives as unit U95e (KeyType::generate) sees them.
// Include after shims/io.rs and after the extraction of the REAL ECCCurve, PublicKeyAlgorithm, inside verus!{}.
// (generated text: one block per crypto module, all of the same shape)
// ---------------------------------------------------------------------------------
//@trusted T2 rand::{Rng, CryptoRng} are opaque capabilities; `&mut R` is an Rng when R is
pub trait Rng {}
pub trait CryptoRng {}
impl<R: Rng> Rng for &mut R {}
impl<R: CryptoRng> CryptoRng for &mut R {}
//@trusted T7 bytes::Bytes / BytesMut, zeroize::Zeroizing, const_oid::ObjectIdentifier, EncryptedSecretParams and the elgamal types are opaque values here
#[verifier::external_body] pub struct Bytes { v: Vec<u8> }
#[verifier::external_body] pub struct BytesMut { v: Vec<u8> }
#[verifier::external_body] #[verifier::reject_recursive_types(T)] pub struct Zeroizing<T> { v: T }
#[verifier::external_body] pub struct ObjectIdentifier { v: u8 }
#[verifier::external_body] pub struct EncryptedSecretParams { v: u8 }
#[verifier::external_body] pub struct ElgamalPublicParams { v: u8 }
pub mod elgamal { #[allow(unused_imports)] use super::*; #[verifier::external_body] pub struct SecretKey { v: u8 } }

//@trusted T5 the key generation primitives crypto::{rsa, dsa, ed448, x25519, x448, <draft-pqc modules>}::SecretKey::generate return a fresh secret key (RSA: of the requested modulus size, DSA: of the requested parameter sizes); `From<&SecretKey> for <X>PublicParams` derives THE public parameters of that secret key (public()); nothing is assumed about the values
#[verifier::external_body] pub struct RsaPublicParams { v: u8 }
pub mod rsa {
    #[allow(unused_imports)] use super::*;
    #[verifier::external_body] pub struct SecretKey { v: u8 }
    impl SecretKey {
        pub uninterp spec fn public(&self) -> RsaPublicParams;
        /// the modulus size the key was generated for
        pub uninterp spec fn bits(&self) -> usize;
        #[verifier::external_body] pub fn generate<R: Rng + CryptoRng>(rng: R, bit_size: usize) -> (r: errors::Result<SecretKey>)
            ensures r matches Ok(k) ==> k.bits() == bit_size { unimplemented!() }
    }
}
impl core::convert::From<&rsa::SecretKey> for RsaPublicParams {
    #[verifier::external_body] fn from(value: &rsa::SecretKey) -> (r: RsaPublicParams) ensures r == value.public() { unimplemented!() }
}
#[verifier::external_body] pub struct DsaPublicParams { v: u8 }
pub mod dsa {
    #[allow(unused_imports)] use super::*;
    #[allow(non_camel_case_types)] pub enum KeySize { DSA_1024_160, DSA_2048_256, DSA_3072_256 }
    #[verifier::external_body] pub struct SecretKey { v: u8 }
    impl SecretKey {
        pub uninterp spec fn public(&self) -> DsaPublicParams;
        /// the parameter sizes (L, N) the key was generated for
        pub uninterp spec fn size(&self) -> KeySize;
        #[verifier::external_body] pub fn generate<R: Rng + CryptoRng>(rng: R, key_size: KeySize) -> (r: SecretKey)
            ensures r.size() == key_size { unimplemented!() }
    }
}
impl core::convert::From<&dsa::SecretKey> for DsaPublicParams {
    #[verifier::external_body] fn from(value: &dsa::SecretKey) -> (r: DsaPublicParams) ensures r == value.public() { unimplemented!() }
}
#[verifier::external_body] pub struct Ed448PublicParams { v: u8 }
pub mod ed448 {
    #[allow(unused_imports)] use super::*;
    #[verifier::external_body] pub struct SecretKey { v: u8 }
    impl SecretKey {
        pub uninterp spec fn public(&self) -> Ed448PublicParams;
        #[verifier::external_body] pub fn generate<R: Rng + CryptoRng>(rng: R) -> (r: SecretKey) { unimplemented!() }
    }
}
impl core::convert::From<&ed448::SecretKey> for Ed448PublicParams {
    #[verifier::external_body] fn from(value: &ed448::SecretKey) -> (r: Ed448PublicParams) ensures r == value.public() { unimplemented!() }
}
#[verifier::external_body] pub struct X25519PublicParams { v: u8 }
pub mod x25519 {
    #[allow(unused_imports)] use super::*;
    #[verifier::external_body] pub struct SecretKey { v: u8 }
    impl SecretKey {
        pub uninterp spec fn public(&self) -> X25519PublicParams;
        #[verifier::external_body] pub fn generate<R: Rng + CryptoRng>(rng: R) -> (r: SecretKey) { unimplemented!() }
    }
}
impl core::convert::From<&x25519::SecretKey> for X25519PublicParams {
    #[verifier::external_body] fn from(value: &x25519::SecretKey) -> (r: X25519PublicParams) ensures r == value.public() { unimplemented!() }
}
#[verifier::external_body] pub struct X448PublicParams { v: u8 }
pub mod x448 {
    #[allow(unused_imports)] use super::*;
    #[verifier::external_body] pub struct SecretKey { v: u8 }
    impl SecretKey {
        pub uninterp spec fn public(&self) -> X448PublicParams;
        #[verifier::external_body] pub fn generate<R: Rng + CryptoRng>(rng: R) -> (r: SecretKey) { unimplemented!() }
    }
}
impl core::convert::From<&x448::SecretKey> for X448PublicParams {
    #[verifier::external_body] fn from(value: &x448::SecretKey) -> (r: X448PublicParams) ensures r == value.public() { unimplemented!() }
}
#[verifier::external_body] pub struct MlKem768X25519PublicParams { v: u8 }
pub mod ml_kem768_x25519 {
    #[allow(unused_imports)] use super::*;
    #[verifier::external_body] pub struct SecretKey { v: u8 }
    impl SecretKey {
        pub uninterp spec fn public(&self) -> MlKem768X25519PublicParams;
        #[verifier::external_body] pub fn generate<R: Rng + CryptoRng>(rng: R) -> (r: SecretKey) { unimplemented!() }
    }
}
impl core::convert::From<&ml_kem768_x25519::SecretKey> for MlKem768X25519PublicParams {
    #[verifier::external_body] fn from(value: &ml_kem768_x25519::SecretKey) -> (r: MlKem768X25519PublicParams) ensures r == value.public() { unimplemented!() }
}
#[verifier::external_body] pub struct MlKem1024X448PublicParams { v: u8 }
pub mod ml_kem1024_x448 {
    #[allow(unused_imports)] use super::*;
    #[verifier::external_body] pub struct SecretKey { v: u8 }
    impl SecretKey {
        pub uninterp spec fn public(&self) -> MlKem1024X448PublicParams;
        #[verifier::external_body] pub fn generate<R: Rng + CryptoRng>(rng: R) -> (r: SecretKey) { unimplemented!() }
    }
}
impl core::convert::From<&ml_kem1024_x448::SecretKey> for MlKem1024X448PublicParams {
    #[verifier::external_body] fn from(value: &ml_kem1024_x448::SecretKey) -> (r: MlKem1024X448PublicParams) ensures r == value.public() { unimplemented!() }
}
#[verifier::external_body] pub struct MlDsa65Ed25519PublicParams { v: u8 }
pub mod ml_dsa65_ed25519 {
    #[allow(unused_imports)] use super::*;
    #[verifier::external_body] pub struct SecretKey { v: u8 }
    impl SecretKey {
        pub uninterp spec fn public(&self) -> MlDsa65Ed25519PublicParams;
        #[verifier::external_body] pub fn generate<R: Rng + CryptoRng>(rng: R) -> (r: SecretKey) { unimplemented!() }
    }
}
impl core::convert::From<&ml_dsa65_ed25519::SecretKey> for MlDsa65Ed25519PublicParams {
    #[verifier::external_body] fn from(value: &ml_dsa65_ed25519::SecretKey) -> (r: MlDsa65Ed25519PublicParams) ensures r == value.public() { unimplemented!() }
}
#[verifier::external_body] pub struct MlDsa87Ed448PublicParams { v: u8 }
pub mod ml_dsa87_ed448 {
    #[allow(unused_imports)] use super::*;
    #[verifier::external_body] pub struct SecretKey { v: u8 }
    impl SecretKey {
        pub uninterp spec fn public(&self) -> MlDsa87Ed448PublicParams;
        #[verifier::external_body] pub fn generate<R: Rng + CryptoRng>(rng: R) -> (r: SecretKey) { unimplemented!() }
    }
}
impl core::convert::From<&ml_dsa87_ed448::SecretKey> for MlDsa87Ed448PublicParams {
    #[verifier::external_body] fn from(value: &ml_dsa87_ed448::SecretKey) -> (r: MlDsa87Ed448PublicParams) ensures r == value.public() { unimplemented!() }
}
#[verifier::external_body] pub struct SlhDsaShake128sPublicParams { v: u8 }
pub mod slh_dsa_shake128s {
    #[allow(unused_imports)] use super::*;
    #[verifier::external_body] pub struct SecretKey { v: u8 }
    impl SecretKey {
        pub uninterp spec fn public(&self) -> SlhDsaShake128sPublicParams;
        #[verifier::external_body] pub fn generate<R: Rng + CryptoRng>(rng: R) -> (r: SecretKey) { unimplemented!() }
    }
}
impl core::convert::From<&slh_dsa_shake128s::SecretKey> for SlhDsaShake128sPublicParams {
    #[verifier::external_body] fn from(value: &slh_dsa_shake128s::SecretKey) -> (r: SlhDsaShake128sPublicParams) ensures r == value.public() { unimplemented!() }
}
#[verifier::external_body] pub struct SlhDsaShake128fPublicParams { v: u8 }
pub mod slh_dsa_shake128f {
    #[allow(unused_imports)] use super::*;
    #[verifier::external_body] pub struct SecretKey { v: u8 }
    impl SecretKey {
        pub uninterp spec fn public(&self) -> SlhDsaShake128fPublicParams;
        #[verifier::external_body] pub fn generate<R: Rng + CryptoRng>(rng: R) -> (r: SecretKey) { unimplemented!() }
    }
}
impl core::convert::From<&slh_dsa_shake128f::SecretKey> for SlhDsaShake128fPublicParams {
    #[verifier::external_body] fn from(value: &slh_dsa_shake128f::SecretKey) -> (r: SlhDsaShake128fPublicParams) ensures r == value.public() { unimplemented!() }
}
#[verifier::external_body] pub struct SlhDsaShake256sPublicParams { v: u8 }
pub mod slh_dsa_shake256s {
    #[allow(unused_imports)] use super::*;
    #[verifier::external_body] pub struct SecretKey { v: u8 }
    impl SecretKey {
        pub uninterp spec fn public(&self) -> SlhDsaShake256sPublicParams;
        #[verifier::external_body] pub fn generate<R: Rng + CryptoRng>(rng: R) -> (r: SecretKey) { unimplemented!() }
    }
}
impl core::convert::From<&slh_dsa_shake256s::SecretKey> for SlhDsaShake256sPublicParams {
    #[verifier::external_body] fn from(value: &slh_dsa_shake256s::SecretKey) -> (r: SlhDsaShake256sPublicParams) ensures r == value.public() { unimplemented!() }
}

//@trusted T5 crypto::ed25519::SecretKey::generate(rng, mode) returns a fresh secret key that remembers `mode` (ed25519.rs:92: the mode decides whether the secret is written as MPI - EdDSALegacy - or as 32 native octets - Ed25519); the two From impls (ed25519.rs:61/70) derive its public parameters and debug_assert the matching mode: the derived value is specified only for the matching mode (Verus allows no precondition on a trait method implementation), so a caller that converts a key of the other mode cannot prove its contract
#[verifier::external_body] pub struct Ed25519PublicParams { v: u8 }
#[verifier::external_body] pub struct EddsaLegacyPublicParams { v: u8 }
#[derive(PartialEq, Eq, Clone, Copy, Structural)] pub enum Ed25519Mode { EdDSALegacy, Ed25519 }
pub mod ed25519 {
    #[allow(unused_imports)] use super::*;
    pub use super::Ed25519Mode as Mode;
    #[verifier::external_body] pub struct SecretKey { v: u8 }
    impl SecretKey {
        pub uninterp spec fn mode(&self) -> Mode;
        pub uninterp spec fn public(&self) -> Ed25519PublicParams;
        pub uninterp spec fn public_legacy(&self) -> EddsaLegacyPublicParams;
        #[verifier::external_body] pub fn generate<R: Rng + CryptoRng>(rng: R, mode: Mode) -> (r: SecretKey) ensures r.mode() == mode { unimplemented!() }
    }
}
impl core::convert::From<&ed25519::SecretKey> for Ed25519PublicParams {
    #[verifier::external_body] fn from(value: &ed25519::SecretKey) -> (r: Ed25519PublicParams)
        ensures value.mode() is Ed25519 ==> r == value.public() { unimplemented!() }
}
impl core::convert::From<&ed25519::SecretKey> for EddsaLegacyPublicParams {
    #[verifier::external_body] fn from(value: &ed25519::SecretKey) -> (r: EddsaLegacyPublicParams)
        ensures value.mode() is EdDSALegacy ==> r == value.public_legacy() { unimplemented!() }
}
//@trusted T7 eddsa_legacy::SecretKey (eddsa_legacy.rs:13) is re-declared verbatim
pub mod eddsa_legacy {
    #[allow(unused_imports)] use super::*;
    pub enum SecretKey { Ed25519(ed25519::SecretKey), Unsupported { curve: ECCCurve, opaque: BytesMut } }
}

//@trusted T5 crypto::ecdh::SecretKey::generate(rng, curve) (ecdh.rs:161) = Ok(k): a fresh key over exactly that curve, of a SUPPORTED kind (it returns Err for every curve it cannot generate); TryFrom<&ecdh::SecretKey> for EcdhPublicParams (ecdh.rs:119) is Ok exactly for supported kinds and then derives the key's public parameters.  (The ECDSA counterparts are REAL code in U95e.)  <curve>::SecretKey::random(rng) is a fresh secret key, public_key() its public key
/// the error of the two TryFrom conversions (the crate error in the source; a separate opaque type here because Result::expect needs Debug, which the
/// shim of the crate error in shims/io.rs does not offer)
#[verifier::external_body] #[derive(Debug)] pub struct ConvError { v: u8 }
impl ConvError { #[verifier::external_body] pub fn opaque() -> (r: ConvError) { unimplemented!() } }
impl core::convert::From<ConvError> for errors::Error {
    #[verifier::external_body] fn from(e: ConvError) -> (r: errors::Error) { unimplemented!() }
}
#[verifier::external_body] pub struct EcdhPublicParams { v: u8 }
pub mod ecdh {
    #[allow(unused_imports)] use super::*;
    #[verifier::external_body] pub struct SecretKey { v: u8 }
    impl SecretKey {
        pub uninterp spec fn supported(&self) -> bool;
        pub uninterp spec fn curve(&self) -> ECCCurve;
        pub uninterp spec fn public(&self) -> EcdhPublicParams;
        #[verifier::external_body] pub fn generate<R: Rng + CryptoRng>(rng: R, curve: &ECCCurve) -> (r: errors::Result<SecretKey>)
            ensures r matches Ok(k) ==> k.supported() && k.curve() == *curve { unimplemented!() }
    }
}
impl core::convert::TryFrom<&ecdh::SecretKey> for EcdhPublicParams {
    type Error = ConvError;
    #[verifier::external_body] fn try_from(value: &ecdh::SecretKey) -> (r: core::result::Result<EcdhPublicParams, ConvError>)
        ensures (r is Ok) == value.supported(), r matches Ok(p) ==> p == value.public() { unimplemented!() }
}

#[verifier::external_body] pub struct EcPublicKey { v: u8 }
pub mod p256 {
    #[allow(unused_imports)] use super::*;
    pub type PublicKey = EcPublicKey;
    #[verifier::external_body] pub struct SecretKey { v: u8 }
    impl SecretKey {
        pub uninterp spec fn spec_public(&self) -> EcPublicKey;
        #[verifier::external_body] pub fn random<R: Rng + CryptoRng>(rng: &mut R) -> (r: SecretKey) { unimplemented!() }
        #[verifier::external_body] pub fn public_key(&self) -> (r: EcPublicKey) ensures r == self.spec_public() { unimplemented!() }
    }
}
pub mod p384 {
    #[allow(unused_imports)] use super::*;
    pub type PublicKey = EcPublicKey;
    #[verifier::external_body] pub struct SecretKey { v: u8 }
    impl SecretKey {
        pub uninterp spec fn spec_public(&self) -> EcPublicKey;
        #[verifier::external_body] pub fn random<R: Rng + CryptoRng>(rng: &mut R) -> (r: SecretKey) { unimplemented!() }
        #[verifier::external_body] pub fn public_key(&self) -> (r: EcPublicKey) ensures r == self.spec_public() { unimplemented!() }
    }
}
pub mod p521 {
    #[allow(unused_imports)] use super::*;
    pub type PublicKey = EcPublicKey;
    #[verifier::external_body] pub struct SecretKey { v: u8 }
    impl SecretKey {
        pub uninterp spec fn spec_public(&self) -> EcPublicKey;
        #[verifier::external_body] pub fn random<R: Rng + CryptoRng>(rng: &mut R) -> (r: SecretKey) { unimplemented!() }
        #[verifier::external_body] pub fn public_key(&self) -> (r: EcPublicKey) ensures r == self.spec_public() { unimplemented!() }
    }
}
pub mod k256 {
    #[allow(unused_imports)] use super::*;
    pub type PublicKey = EcPublicKey;
    #[verifier::external_body] pub struct SecretKey { v: u8 }
    impl SecretKey {
        pub uninterp spec fn spec_public(&self) -> EcPublicKey;
        #[verifier::external_body] pub fn random<R: Rng + CryptoRng>(rng: &mut R) -> (r: SecretKey) { unimplemented!() }
        #[verifier::external_body] pub fn public_key(&self) -> (r: EcPublicKey) ensures r == self.spec_public() { unimplemented!() }
    }
}
impl Clone for ECCCurve {
    #[verifier::external_body] fn clone(&self) -> (r: ECCCurve) ensures r == *self { unimplemented!() }
}
impl BytesMut {
    #[verifier::external_body] pub fn new() -> (r: BytesMut) { unimplemented!() }
}
