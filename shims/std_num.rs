// ---------------------------------------------------------------------------------
// shims/std_num.rs - specifications of integer helper methods of core that vstd does not cover.
// Included automatically in every unit by engine/assemble.py (after `verus! {`), so that a change of the
// real code that starts using one of them stays inside the verifier's reach instead of becoming "unsupported".
// ---------------------------------------------------------------------------------
//@trusted T2 core integer helpers: next_multiple_of, div_ceil, abs_diff, rem_euclid, ilog2 (requires a non-zero argument: it panics on 0), is_power_of_two, leading_zeros on u8/u16/u32/u64/usize (u32::is_power_of_two / u32::leading_zeros are specified by the units that already used them) are the mathematical functions of their documentation (next_multiple_of / div_ceil / rem_euclid require a non-zero divisor; next_multiple_of requires that the result fits, as overflow checks would panic)
pub open spec fn spec_next_multiple_of(a: int, b: int) -> int { if a % b == 0 { a } else { a + (b - a % b) } }
pub open spec fn spec_div_ceil(a: int, b: int) -> int { a / b + (if a % b > 0 { 1int } else { 0int }) }
pub open spec fn spec_abs_diff(a: int, b: int) -> int { if a >= b { a - b } else { b - a } }
pub assume_specification [usize::next_multiple_of](a: usize, b: usize) -> (r: usize)
    requires b > 0, spec_next_multiple_of(a as int, b as int) <= usize::MAX
    ensures r == spec_next_multiple_of(a as int, b as int);
pub assume_specification [u64::next_multiple_of](a: u64, b: u64) -> (r: u64)
    requires b > 0, spec_next_multiple_of(a as int, b as int) <= u64::MAX
    ensures r == spec_next_multiple_of(a as int, b as int);
pub assume_specification [u32::next_multiple_of](a: u32, b: u32) -> (r: u32)
    requires b > 0, spec_next_multiple_of(a as int, b as int) <= u32::MAX
    ensures r == spec_next_multiple_of(a as int, b as int);
pub assume_specification [u16::next_multiple_of](a: u16, b: u16) -> (r: u16)
    requires b > 0, spec_next_multiple_of(a as int, b as int) <= u16::MAX
    ensures r == spec_next_multiple_of(a as int, b as int);
pub assume_specification [u8::next_multiple_of](a: u8, b: u8) -> (r: u8)
    requires b > 0, spec_next_multiple_of(a as int, b as int) <= u8::MAX
    ensures r == spec_next_multiple_of(a as int, b as int);
pub assume_specification [usize::div_ceil](a: usize, b: usize) -> (r: usize) requires b > 0 ensures r == spec_div_ceil(a as int, b as int);
pub assume_specification [u64::div_ceil](a: u64, b: u64) -> (r: u64) requires b > 0 ensures r == spec_div_ceil(a as int, b as int);
pub assume_specification [u32::div_ceil](a: u32, b: u32) -> (r: u32) requires b > 0 ensures r == spec_div_ceil(a as int, b as int);
pub assume_specification [u16::div_ceil](a: u16, b: u16) -> (r: u16) requires b > 0 ensures r == spec_div_ceil(a as int, b as int);
pub assume_specification [u8::div_ceil](a: u8, b: u8) -> (r: u8) requires b > 0 ensures r == spec_div_ceil(a as int, b as int);
pub assume_specification [usize::abs_diff](a: usize, b: usize) -> (r: usize) ensures r == spec_abs_diff(a as int, b as int);
pub assume_specification [u64::abs_diff](a: u64, b: u64) -> (r: u64) ensures r == spec_abs_diff(a as int, b as int);
pub assume_specification [u32::abs_diff](a: u32, b: u32) -> (r: u32) ensures r == spec_abs_diff(a as int, b as int);
pub assume_specification [u16::abs_diff](a: u16, b: u16) -> (r: u16) ensures r == spec_abs_diff(a as int, b as int);
pub assume_specification [u8::abs_diff](a: u8, b: u8) -> (r: u8) ensures r == spec_abs_diff(a as int, b as int);
pub assume_specification [usize::rem_euclid](a: usize, b: usize) -> (r: usize) requires b > 0 ensures r == a % b;
pub assume_specification [u64::rem_euclid](a: u64, b: u64) -> (r: u64) requires b > 0 ensures r == a % b;
pub assume_specification [u32::rem_euclid](a: u32, b: u32) -> (r: u32) requires b > 0 ensures r == a % b;
pub assume_specification [u16::rem_euclid](a: u16, b: u16) -> (r: u16) requires b > 0 ensures r == a % b;
pub assume_specification [u8::rem_euclid](a: u8, b: u8) -> (r: u8) requires b > 0 ensures r == a % b;
// ---- integer logarithm / power-of-two helpers (ilog2 panics on 0: a precondition) ----
pub open spec fn spec_ilog2(x: int) -> int decreases x { if x <= 1 { 0 } else { 1 + spec_ilog2(x / 2) } }
pub open spec fn spec_is_pow2(x: int) -> bool decreases x { if x <= 0 { false } else if x == 1 { true } else { x % 2 == 0 && spec_is_pow2(x / 2) } }
pub assume_specification [u8::ilog2](x: u8) -> (r: u32) requires x > 0 ensures r == spec_ilog2(x as int), r <= 7;
pub assume_specification [u16::ilog2](x: u16) -> (r: u32) requires x > 0 ensures r == spec_ilog2(x as int), r <= 15;
pub assume_specification [u32::ilog2](x: u32) -> (r: u32) requires x > 0 ensures r == spec_ilog2(x as int), r <= 31;
pub assume_specification [u64::ilog2](x: u64) -> (r: u32) requires x > 0 ensures r == spec_ilog2(x as int), r <= 63;
pub assume_specification [usize::ilog2](x: usize) -> (r: u32) requires x > 0 ensures r == spec_ilog2(x as int), r <= 63;
pub assume_specification [u8::is_power_of_two](x: u8) -> (r: bool) ensures r == spec_is_pow2(x as int);
pub assume_specification [u16::is_power_of_two](x: u16) -> (r: bool) ensures r == spec_is_pow2(x as int);
pub assume_specification [u64::is_power_of_two](x: u64) -> (r: bool) ensures r == spec_is_pow2(x as int);
pub assume_specification [usize::is_power_of_two](x: usize) -> (r: bool) ensures r == spec_is_pow2(x as int);
pub assume_specification [usize::leading_zeros](x: usize) -> (r: u32) ensures r <= 64, x == 0 <==> r == 64, x > 0 ==> r == 63 - spec_ilog2(x as int);
