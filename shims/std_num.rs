// ---------------------------------------------------------------------------------
// shims/std_num.rs - specifications of integer helper methods of core that vstd does not cover.
// Included automatically in every unit by engine/assemble.py (after `verus! {`), so that a change of the
// real code that starts using one of them stays inside the verifier's reach instead of becoming "unsupported".
// ---------------------------------------------------------------------------------
//@trusted T2 core integer helpers: next_multiple_of, div_ceil, abs_diff, rem_euclid on u8/u16/u32/u64/usize are the mathematical functions of their documentation (next_multiple_of / div_ceil / rem_euclid require a non-zero divisor; next_multiple_of requires that the result fits, as overflow checks would panic)
pub open spec fn spec_next_multiple_of(a: int, b: int) -> int { if a % b == 0 { a } else { a + (b - a % b) } }
pub open spec fn spec_div_ceil(a: int, b: int) -> int { a / b + (if a % b > 0 { 1int } else { 0int }) }
pub open spec fn spec_abs_diff(a: int, b: int) -> int { if a >= b { a - b } else { b - a } }
pub assume_specification [usize::next_multiple_of](a: usize, b: usize) -> (r: usize)
    requires b > 0, spec_next_multiple_of(a as int, b as int) <= usize::MAX
    ensures r == spec_next_multiple_of(a as int, b as int);
pub assume_specification [u64::next_multiple_of](a: u64, b: u64) -> (r: u64)
    requires b > 0, spec_next_multiple_of(a as int, b as int) <= u64::MAX
    ensures r == spec_next_multiple_of(a as int, b as int);
pub assume_specification [u32::next_multiple_of](a: u32, b: u32) -> (r: u32)
    requires b > 0, spec_next_multiple_of(a as int, b as int) <= u32::MAX
    ensures r == spec_next_multiple_of(a as int, b as int);
pub assume_specification [u16::next_multiple_of](a: u16, b: u16) -> (r: u16)
    requires b > 0, spec_next_multiple_of(a as int, b as int) <= u16::MAX
    ensures r == spec_next_multiple_of(a as int, b as int);
pub assume_specification [u8::next_multiple_of](a: u8, b: u8) -> (r: u8)
    requires b > 0, spec_next_multiple_of(a as int, b as int) <= u8::MAX
    ensures r == spec_next_multiple_of(a as int, b as int);
pub assume_specification [usize::div_ceil](a: usize, b: usize) -> (r: usize) requires b > 0 ensures r == spec_div_ceil(a as int, b as int);
pub assume_specification [u64::div_ceil](a: u64, b: u64) -> (r: u64) requires b > 0 ensures r == spec_div_ceil(a as int, b as int);
pub assume_specification [u32::div_ceil](a: u32, b: u32) -> (r: u32) requires b > 0 ensures r == spec_div_ceil(a as int, b as int);
pub assume_specification [u16::div_ceil](a: u16, b: u16) -> (r: u16) requires b > 0 ensures r == spec_div_ceil(a as int, b as int);
pub assume_specification [u8::div_ceil](a: u8, b: u8) -> (r: u8) requires b > 0 ensures r == spec_div_ceil(a as int, b as int);
pub assume_specification [usize::abs_diff](a: usize, b: usize) -> (r: usize) ensures r == spec_abs_diff(a as int, b as int);
pub assume_specification [u64::abs_diff](a: u64, b: u64) -> (r: u64) ensures r == spec_abs_diff(a as int, b as int);
pub assume_specification [u32::abs_diff](a: u32, b: u32) -> (r: u32) ensures r == spec_abs_diff(a as int, b as int);
pub assume_specification [u16::abs_diff](a: u16, b: u16) -> (r: u16) ensures r == spec_abs_diff(a as int, b as int);
pub assume_specification [u8::abs_diff](a: u8, b: u8) -> (r: u8) ensures r == spec_abs_diff(a as int, b as int);
pub assume_specification [usize::rem_euclid](a: usize, b: usize) -> (r: usize) requires b > 0 ensures r == a % b;
pub assume_specification [u64::rem_euclid](a: u64, b: u64) -> (r: u64) requires b > 0 ensures r == a % b;
pub assume_specification [u32::rem_euclid](a: u32, b: u32) -> (r: u32) requires b > 0 ensures r == a % b;
pub assume_specification [u16::rem_euclid](a: u16, b: u16) -> (r: u16) requires b > 0 ensures r == a % b;
pub assume_specification [u8::rem_euclid](a: u8, b: u8) -> (r: u8) requires b > 0 ensures r == a % b;
