// ---------------------------------------------------------------------------------
// shims/bytes_writer.rs - in-memory sinks: bytes::buf::Writer<BytesMut> (BufMut::writer()) and Vec<u8>
// as std::io::Write.  Include after shims/io.rs and shims/bytes.rs.
// ---------------------------------------------------------------------------------
/// "writing into a W never returns Err": a property of the sink type (true for the growable in-memory sinks)
pub uninterp spec fn sink_infallible<W>() -> bool;

//@trusted T2 bytes::buf::Writer<BytesMut> (BufMut::writer): an io::Write that appends to the wrapped BytesMut and never fails (BytesMut grows on demand); into_inner returns the BytesMut; BytesMut implements Default
pub struct BytesWriter { pub inner: BytesMut }

#[verifier::external_body]
pub proof fn axiom_bytes_writer_infallible() ensures sink_infallible::<BytesWriter>() {}

impl io::Write for BytesWriter {
    open spec fn out(&self) -> Seq<u8> { self.inner@ }
    #[verifier::external_body]
    fn write(&mut self, buf: &[u8]) -> (r: io::Result<usize>)
        ensures r is Ok
    { unimplemented!() }
    #[verifier::external_body]
    fn write_all(&mut self, buf: &[u8]) -> (r: io::Result<()>)
        ensures r is Ok
    { unimplemented!() }
    #[verifier::external_body]
    fn flush(&mut self) -> (r: io::Result<()>)
        ensures r is Ok
    { unimplemented!() }
}

impl BytesWriter {
    #[verifier::external_body]
    pub fn into_inner(self) -> (r: BytesMut) ensures r == self.inner { unimplemented!() }
    /// byteorder::WriteBytesExt::write_u8 on this sink (inherent, so that it is chosen over the generic
    /// blanket impl of shims/io.rs, whose contract cannot know that this sink never fails)
    #[verifier::external_body]
    pub fn write_u8(&mut self, n: u8) -> (r: io::Result<()>)
        ensures r is Ok, final(self).inner@ == old(self).inner@ + seq![n]
    { unimplemented!() }
}

impl BytesMut {
    #[verifier::external_body]
    pub fn writer(self) -> (r: BytesWriter) ensures r.inner == self { unimplemented!() }
}

impl core::default::Default for BytesMut {
    #[verifier::external_body]
    fn default() -> (r: BytesMut) { unimplemented!() }
}

//@trusted T2 Vec<u8> as std::io::Write appends and never fails
#[verifier::external_body]
pub proof fn axiom_vec_infallible() ensures sink_infallible::<Vec<u8>>() {}

impl io::Write for Vec<u8> {
    open spec fn out(&self) -> Seq<u8> { self@ }
    #[verifier::external_body]
    fn write(&mut self, buf: &[u8]) -> (r: io::Result<usize>)
        ensures r is Ok
    { unimplemented!() }
    #[verifier::external_body]
    fn write_all(&mut self, buf: &[u8]) -> (r: io::Result<()>)
        ensures r is Ok
    { unimplemented!() }
    #[verifier::external_body]
    fn flush(&mut self) -> (r: io::Result<()>)
        ensures r is Ok
    { unimplemented!() }
}
