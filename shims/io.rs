// ---------------------------------------------------------------------------------
// shims/io.rs - assumed contracts for std::io::{Read, BufRead, Write}, byteorder and the
// two error types.  Include AFTER `use vstd::prelude::*;` inside verus!{}.
// The Read/BufRead contracts quantify over *every* short-read schedule: the number of
// bytes a call delivers is unconstrained except by the std documentation.
// ---------------------------------------------------------------------------------

//@trusted T2 std::io::Error / crate::errors::Error are opaque values; only the occurrence of an error and (for io) its ErrorKind are modelled, never the message
pub mod errors {
    use super::*;
    pub struct Error { pub tag: u8 }
    impl Error {
        #[verifier::external_body]
        pub fn opaque() -> (e: Error) { unimplemented!() }
    }
    pub type Result<T> = core::result::Result<T, Error>;
    impl core::convert::From<io::Error> for Error {
        #[verifier::external_body]
        fn from(e: io::Error) -> (r: Error) { unimplemented!() }
    }
}

//@trusted T2 the derived PartialEq of std::io::ErrorKind is structural equality (needed for `err.kind() == io::ErrorKind::Interrupted` in util::fill_buffer*)
// (the enum lives at the crate root because `derive(Structural)` crashes this Verus version inside a nested
//  module - same device as shims/io_pkterr.rs, shims/io_progress.rs; it is re-exported as io::ErrorKind)
#[derive(PartialEq, Eq, Clone, Copy, Structural)]
pub enum IoErrorKind { Interrupted, UnexpectedEof, InvalidInput, InvalidData, Other }

pub mod io {
    use super::*;
    pub struct Error { pub k: ErrorKind }
    pub type Result<T> = core::result::Result<T, Error>;
    pub use super::IoErrorKind as ErrorKind;
    impl Error {
        #[verifier::external_body]
        pub fn new_opaque() -> (e: Error) ensures e.k == ErrorKind::Other { unimplemented!() }
        #[verifier::external_body]
        pub fn new_kind(k: ErrorKind) -> (e: Error) ensures e.k == k { unimplemented!() }
        #[verifier::external_body]
        pub fn kind(&self) -> (k: ErrorKind) ensures k == self.k { unimplemented!() }
    }

    //@trusted T2 std::io::Read: read(buf) = Ok(n) delivers the next n <= buf.len() bytes of the remaining content rest(); n == 0 only for an empty buf or at end of stream; n otherwise unconstrained (all short-read schedules). Bytes of buf beyond n are unchanged. Err: nothing is known about the state afterwards (unless std_err() holds, see next line).
    //@trusted T2 sources handed to the library honour std::io::Read's error contract when std_err() holds: an Err consumed nothing and left the buffer alone, and ErrorKind::Interrupted is answered finitely often (intr_budget); fill_buffer/fill_buffer_bytes are proved under `requires source.std_err()`; termination of their retry loops is relative to that budget (std's read_exact has the same caveat)
    pub trait Read {
        spec fn rest(&self) -> Seq<u8>;
        /// environment assumption switch: this reader honours std's documented error contract
        open spec fn std_err(&self) -> bool { false }
        /// how many more times this reader may answer Err(Interrupted) (finite by assumption)
        open spec fn intr_budget(&self) -> nat { 0 }
        fn read(&mut self, buf: &mut [u8]) -> (r: Result<usize>)
            ensures
                final(buf)@.len() == old(buf)@.len(),
                match r {
                    Ok(n) => n <= old(buf)@.len()
                        && n <= old(self).rest().len()
                        && final(buf)@.subrange(0, n as int) == old(self).rest().subrange(0, n as int)
                        && final(buf)@.subrange(n as int, final(buf)@.len() as int) == old(buf)@.subrange(n as int, old(buf)@.len() as int)
                        && final(self).rest() == old(self).rest().skip(n as int)
                        && (n == 0 ==> (old(buf)@.len() == 0 || old(self).rest().len() == 0))
                        && (old(self).std_err() ==> final(self).std_err() && final(self).intr_budget() <= old(self).intr_budget()),
                    Err(e) => old(self).std_err() ==>
                        final(self).rest() == old(self).rest()
                        && final(buf)@ == old(buf)@
                        && final(self).std_err()
                        && final(self).intr_budget() <= old(self).intr_budget()
                        && (e.k == ErrorKind::Interrupted ==> final(self).intr_budget() < old(self).intr_budget()),
                };
    }
    impl<R: Read> Read for &mut R {
        open spec fn rest(&self) -> Seq<u8> { (**self).rest() }
        open spec fn std_err(&self) -> bool { (**self).std_err() }
        open spec fn intr_budget(&self) -> nat { (**self).intr_budget() }
        #[verifier::external_body]
        fn read(&mut self, buf: &mut [u8]) -> (r: Result<usize>) { unimplemented!() }
    }

    //@trusted T2 std::io::BufRead: fill_buf() = Ok(b) exposes a non-empty prefix b of rest() (empty only at end of stream) without consuming; consume(amt) requires amt <= length of the last fill_buf result and drops amt bytes; under std_err() an Err of fill_buf leaves rest()/buffered() alone and Interrupted uses up intr_budget; consume keeps std_err() and intr_budget
    pub trait BufRead: Read {
        spec fn buffered(&self) -> nat;
        /// what is buffered is part of what remains
        proof fn buffered_le_rest(&self) ensures self.buffered() <= self.rest().len();
        fn fill_buf(&mut self) -> (r: Result<&[u8]>)
            ensures match r {
                Ok(b) => b@.len() <= final(self).rest().len()
                    && b@ == final(self).rest().subrange(0, b@.len() as int)
                    && (b@.len() == 0 ==> final(self).rest().len() == 0)
                    && final(self).rest() == old(self).rest()
                    && final(self).buffered() == b@.len()
                    && (old(self).std_err() ==> final(self).std_err() && final(self).intr_budget() <= old(self).intr_budget()),
                Err(e) => old(self).std_err() ==>
                    final(self).rest() == old(self).rest()
                    && final(self).buffered() == old(self).buffered()
                    && final(self).std_err()
                    && final(self).intr_budget() <= old(self).intr_budget()
                    && (e.k == ErrorKind::Interrupted ==> final(self).intr_budget() < old(self).intr_budget()),
            };
        fn consume(&mut self, amt: usize)
            requires amt <= old(self).buffered(),
            ensures final(self).rest() == old(self).rest().skip(amt as int),
                    final(self).buffered() == old(self).buffered() - amt,
                    old(self).std_err() ==> final(self).std_err() && final(self).intr_budget() <= old(self).intr_budget();
    }
    impl<R: BufRead> BufRead for &mut R {
        open spec fn buffered(&self) -> nat { (**self).buffered() }
        proof fn buffered_le_rest(&self) { (**self).buffered_le_rest(); }
        #[verifier::external_body]
        fn fill_buf(&mut self) -> (r: Result<&[u8]>) { unimplemented!() }
        #[verifier::external_body]
        fn consume(&mut self, amt: usize) { unimplemented!() }
    }

    //@trusted T2 std::io::Write: write(b) = Ok(n) appends the first n <= b.len() bytes of b to out(); write_all(b) = Ok appends all of b, Err leaves out() extended by some prefix of b; flush does not change out()
    pub trait Write {
        spec fn out(&self) -> Seq<u8>;
        fn write(&mut self, buf: &[u8]) -> (r: Result<usize>)
            ensures match r {
                Ok(n) => n <= buf@.len() && final(self).out() == old(self).out() + buf@.subrange(0, n as int),
                Err(_) => final(self).out() == old(self).out(),
            };
        fn write_all(&mut self, buf: &[u8]) -> (r: Result<()>)
            ensures match r {
                Ok(_) => final(self).out() == old(self).out() + buf@,
                Err(_) => exists|k: int| 0 <= k <= buf@.len() && final(self).out() == old(self).out() + #[trigger] buf@.subrange(0, k),
            };
        fn flush(&mut self) -> (r: Result<()>)
            ensures final(self).out() == old(self).out();
    }
}

pub struct BigEndian;
pub struct LittleEndian;
pub trait ByteOrder { spec fn big() -> bool; }
impl ByteOrder for BigEndian { open spec fn big() -> bool { true } }
impl ByteOrder for LittleEndian { open spec fn big() -> bool { false } }

pub open spec fn be16(x: u16) -> Seq<u8> { seq![(x >> 8) as u8, (x & 0xff) as u8] }
pub open spec fn be32(x: u32) -> Seq<u8> {
    seq![(x >> 24) as u8, ((x >> 16) & 0xff) as u8, ((x >> 8) & 0xff) as u8, (x & 0xff) as u8]
}
pub open spec fn be64(x: u64) -> Seq<u8> {
    seq![(x >> 56) as u8, ((x >> 48) & 0xff) as u8, ((x >> 40) & 0xff) as u8, ((x >> 32) & 0xff) as u8,
         ((x >> 24) & 0xff) as u8, ((x >> 16) & 0xff) as u8, ((x >> 8) & 0xff) as u8, (x & 0xff) as u8]
}
pub open spec fn from_be16(s: Seq<u8>) -> u16 { ((s[0] as u16) << 8) | (s[1] as u16) }
pub open spec fn from_be32(s: Seq<u8>) -> u32 {
    ((s[0] as u32) << 24) | ((s[1] as u32) << 16) | ((s[2] as u32) << 8) | (s[3] as u32)
}

//@trusted T2 byteorder::WriteBytesExt: write_u8/u16/u32 append the big-endian encoding (for T = BigEndian) on Ok
pub trait WriteBytesExt: io::Write {
    fn write_u8(&mut self, n: u8) -> (r: io::Result<()>)
        ensures match r { Ok(_) => final(self).out() == old(self).out() + seq![n], Err(_) => true };
    fn write_u16<T: ByteOrder>(&mut self, n: u16) -> (r: io::Result<()>)
        ensures match r { Ok(_) => T::big() ==> final(self).out() == old(self).out() + be16(n), Err(_) => true };
    fn write_u32<T: ByteOrder>(&mut self, n: u32) -> (r: io::Result<()>)
        ensures match r { Ok(_) => T::big() ==> final(self).out() == old(self).out() + be32(n), Err(_) => true };
}
impl<W: io::Write> WriteBytesExt for W {
    #[verifier::external_body]
    fn write_u8(&mut self, n: u8) -> (r: io::Result<()>) { unimplemented!() }
    #[verifier::external_body]
    fn write_u16<T: ByteOrder>(&mut self, n: u16) -> (r: io::Result<()>) { unimplemented!() }
    #[verifier::external_body]
    fn write_u32<T: ByteOrder>(&mut self, n: u32) -> (r: io::Result<()>) { unimplemented!() }
}

//@trusted T2 u16/u32::from_be_bytes, to_be_bytes are the big-endian codecs
#[verifier::external_body]
pub fn u16_from_be_bytes(a: [u8; 2]) -> (r: u16) ensures r == from_be16(a@), be16(r) == a@ { u16::from_be_bytes(a) }
#[verifier::external_body]
pub fn u32_from_be_bytes(a: [u8; 4]) -> (r: u32) ensures r == from_be32(a@), be32(r) == a@ { u32::from_be_bytes(a) }

//@trusted T2 std::cmp::min on usize
pub fn std_cmp_min(a: usize, b: usize) -> (r: usize) ensures r == (if a <= b { a } else { b }) { if a <= b { a } else { b } }
