// ---------------------------------------------------------------------------------
// shims/crc24.rs - assumed contract for the crate crc24 0.1.6 (src/lib.rs).
// Include inside verus!{} after `use vstd::prelude::*;`.
// The CRC itself is NOT interpreted: crc24_update(state, bytes) is an uninterpreted function
// that obeys the streaming law.  What matters for the armor units is *which* bytes are fed
// into *which* hasher value.
// ---------------------------------------------------------------------------------

//@trusted T2 crc24_update(state, bytes) (the table driven RFC 4880 6.1 CRC-24 step of crc24::Crc24Hasher::write) is uninterpreted; assumed laws: update(update(s,a),b) == update(s,a++b), update(s,[]) == s for a 24-bit s, result < 2^24
pub uninterp spec fn crc24_update(state: u32, bytes: Seq<u8>) -> u32;

pub open spec fn crc24_init() -> u32 { 0xB704CEu32 }
/// the RFC CRC-24 of a byte string
pub open spec fn crc24_of(bytes: Seq<u8>) -> u32 { crc24_update(crc24_init(), bytes) }

#[verifier::external_body]
pub proof fn axiom_crc24_concat(s: u32, a: Seq<u8>, b: Seq<u8>)
    ensures crc24_update(crc24_update(s, a), b) == crc24_update(s, a + b)
{}
#[verifier::external_body]
pub proof fn axiom_crc24_empty(s: u32)
    requires s <= 0xFF_FFFF
    ensures crc24_update(s, Seq::<u8>::empty()) == s
{}
#[verifier::external_body]
pub proof fn axiom_crc24_range(s: u32, a: Seq<u8>)
    ensures crc24_update(s, a) <= 0xFF_FFFF
{}

//@trusted T2 crc24::Crc24Hasher is `#[derive(Copy, Clone, PartialEq, Eq)] struct { state: u32 }` (crc24-0.1.6/src/lib.rs:12); new()/default() start at 0xB704CE; Hasher::write(msg) replaces state by crc24_update(state, msg); Hasher::finish() returns state as u64
pub mod crc24 {
    use super::*;
    #[derive(Clone, Copy)]
    pub struct Crc24Hasher { pub state: u32 }

    impl Crc24Hasher {
        #[verifier::external_body]
        pub fn new() -> (r: Crc24Hasher) ensures r.state == crc24_init() { unimplemented!() }
        // std::hash::Hasher for Crc24Hasher (modelled as inherent methods: same call syntax)
        #[verifier::external_body]
        pub fn finish(&self) -> (r: u64) ensures r == self.state as u64 { unimplemented!() }
        #[verifier::external_body]
        pub fn write(&mut self, msg: &[u8]) ensures final(self).state == crc24_update(old(self).state, msg@) { unimplemented!() }
    }
    impl Default for Crc24Hasher {
        #[verifier::external_body]
        fn default() -> (r: Crc24Hasher) ensures r.state == crc24_init() { unimplemented!() }
    }
}
