// ---------------------------------------------------------------------------------
// shims/serlen_b.rs - common ground of the length-agreement sweep units U76a.. (C05: "the length an
// object announces through write_len() equals the number of octets to_writer then writes").
// Include after shims/io.rs and shims/bytes.rs, inside verus!{}.  Do not combine with
// shims/secret_reader.rs / shims/codec_reader.rs (same trait / impl names); for `usize.try_into()?` include
// shims/convert.rs or shims/codec_sigtypes.rs (not both).
// ---------------------------------------------------------------------------------

//@trusted T4 crate::ser::Serialize (src/ser.rs) only declares to_writer/write_len.  The ghost fn spec_write_len() names the value write_len() returns (defined per type from the fields, mirroring write_len), so that "write_len() == spec_write_len()" and "to_writer appends exactly spec_write_len() octets on Ok" are the trait-level form of C05 that every impl under contract has to meet, and the form in which components (T: Serialize) are used.  ser_inv() is the type invariant under which both hold (in-memory sizes; in particular spec_write_len() <= usize::MAX: the serialisation is an object that fits the address space)
pub trait Serialize {
    spec fn spec_write_len(&self) -> nat;
    spec fn ser_inv(&self) -> bool;
    fn to_writer<W: io::Write>(&self, writer: &mut W) -> (r: errors::Result<()>)
        requires self.ser_inv(),
        ensures
            r is Ok ==> (*final(writer)).out().len() == (*old(writer)).out().len() + self.spec_write_len(); // [C05] Serialize-trait-level-write_len-eq-bytes-written
    fn write_len(&self) -> (r: usize)
        requires self.ser_inv(),
        ensures
            r == self.spec_write_len(); // [C05] Serialize-trait-level-write_len-value
}

//@trusted T2 bytes::Bytes derefs to the byte slice of its content; no allocation exceeds isize::MAX bytes (std allocator rule), so Bytes::len(), Vec::len() and slice lengths are <= isize::MAX
impl core::ops::Deref for Bytes {
    type Target = [u8];
    #[verifier::external_body]
    fn deref(&self) -> (r: &[u8])
        ensures r@ == self@
    { unimplemented!() }
}
#[verifier::external_body]
pub proof fn axiom_bytes_len(b: &Bytes)
    ensures b@.len() <= isize::MAX
{}
//@trusted T1 no in-memory byte string / vector is longer than 2^56 octets (virtual address space of every supported 64-bit target), so sums of a few lengths fit usize
#[verifier::external_body]
pub proof fn axiom_addr_space_bytes(b: &Bytes)
    ensures b@.len() < 0x0100_0000_0000_0000
{}
#[verifier::external_body]
pub proof fn axiom_addr_space_vec<T>(b: &Vec<T>)
    ensures b@.len() < 0x0100_0000_0000_0000
{}
#[verifier::external_body]
pub proof fn axiom_slice_len<T>(b: &[T])
    ensures b@.len() <= isize::MAX
{}
#[verifier::external_body]
pub proof fn axiom_vec_len<T>(b: &Vec<T>)
    ensures b@.len() <= isize::MAX
{}

//@trusted T2 std: `impl Write for Vec<u8>` appends; `impl Write for &mut W` forwards
impl io::Write for Vec<u8> {
    open spec fn out(&self) -> Seq<u8> { self@ }
    #[verifier::external_body]
    fn write(&mut self, buf: &[u8]) -> (r: io::Result<usize>) { unimplemented!() }
    #[verifier::external_body]
    fn write_all(&mut self, buf: &[u8]) -> (r: io::Result<()>) { unimplemented!() }
    #[verifier::external_body]
    fn flush(&mut self) -> (r: io::Result<()>) { unimplemented!() }
}
impl<W: io::Write> io::Write for &mut W {
    open spec fn out(&self) -> Seq<u8> { (**self).out() }
    #[verifier::external_body]
    fn write(&mut self, buf: &[u8]) -> (r: io::Result<usize>) { unimplemented!() }
    #[verifier::external_body]
    fn write_all(&mut self, buf: &[u8]) -> (r: io::Result<()>) { unimplemented!() }
    #[verifier::external_body]
    fn flush(&mut self) -> (r: io::Result<()>) { unimplemented!() }
}

// ---- sums of announced lengths (generic impls of src/ser.rs) ---------------------------------
/// the number of octets a sequence of serialisable values announces: the sum of the elements' write_len()
pub open spec fn sum_len<T: Serialize>(v: Seq<T>) -> nat
    decreases v.len()
{
    if v.len() == 0 { 0 } else { sum_len(v.drop_last()) + v.last().spec_write_len() }
}
pub open spec fn all_inv<T: Serialize>(v: Seq<T>) -> bool {
    forall|i: int| 0 <= i < v.len() ==> (#[trigger] v[i]).ser_inv()
}
pub proof fn lemma_sum_len_step<T: Serialize>(v: Seq<T>, i: int)
    requires 0 <= i < v.len()
    ensures sum_len(v.take(i + 1)) == sum_len(v.take(i)) + v[i].spec_write_len(), sum_len(v.take(i + 1)) <= sum_len(v),
    decreases v.len() - i
{
    assert(v.take(i + 1).drop_last() =~= v.take(i));
    if i + 1 < v.len() { lemma_sum_len_step(v, i + 1); } else { assert(v.take(i + 1) =~= v); }
}
