// ---------------------------------------------------------------------------------
// shims/io_pkterr.rs - use INSTEAD of shims/io.rs in units about the packet parsing layer
// (src/packet/single.rs, src/packet/many.rs), where the *class* of an error is the subject:
//   * `mod io`, byteorder and the big-endian helpers are a verbatim copy of shims/io.rs (same trusted
//     std contracts, same names, so shims/bytes.rs, shims/io_take.rs, shims/mem.rs ... can be included
//     after it); the only difference is that io::ErrorKind derives `Structural`, which Verus needs to
//     understand `err.kind() == io::ErrorKind::UnexpectedEof` (the enum lives at the crate root because
//     the derive crashes this Verus version inside a nested module - same device as shims/io_progress.rs);
//   * `crate::errors::Error` is the enum of src/errors.rs restricted to the variants the packet layer
//     distinguishes, all other variants collapsed into `Other`;
//   * `crate::parsing::Error` (src/parsing.rs) with its three variants, payloads that are never inspected
//     reduced to opaque values.
// Include AFTER `use vstd::prelude::*;` inside verus!{}.
// ---------------------------------------------------------------------------------

//@trusted T2 std::io::Error is an opaque value; only the occurrence of an error and its ErrorKind are modelled, never the message (as in shims/io.rs); the derived PartialEq of io::ErrorKind is structural equality
#[derive(PartialEq, Eq, Clone, Copy, Structural)]
pub enum IoErrorKind { Interrupted, UnexpectedEof, InvalidInput, InvalidData, Other }

//@trusted T2 snafu::Backtrace is an opaque value
pub struct Backtrace { pub b: u8 }

//@trusted T2 crate::parsing::Error (src/parsing.rs): the three variants TooShort / TagMismatch / UnexpectedEof; of their payloads only the io::Error and backtrace of UnexpectedEof are kept (the others are never inspected by the packet layer)
pub mod parsing {
    use super::*;
    pub enum Error {
        TooShort { detail: u8 },
        TagMismatch { detail: u8 },
        UnexpectedEof { source: io::Error, backtrace: Option<Backtrace> },
    }
}

//@trusted T2 crate::errors::Error (src/errors.rs) restricted to the variants the packet layer constructs or matches on: PacketTooLarge, IO, Unsupported, Message (what format_err!/bail! build; message text dropped), InvalidPacketContent, PacketParsing, PacketIncomplete; every other variant is `Other`.  From<io::Error> is the snafu `context(false)` conversion into IO { source, .. }
pub mod errors {
    use super::*;
    pub enum Error {
        PacketTooLarge { size: u64 },
        IO { source: io::Error, backtrace: Option<Backtrace> },
        Unsupported { backtrace: Option<Backtrace> },
        Message { backtrace: Option<Backtrace> },
        InvalidPacketContent { source: Box<Error> },
        PacketParsing { source: Box<crate::parsing::Error> },
        PacketIncomplete { source: Box<crate::parsing::Error> },
        Other { tag: u8 },
    }
    impl Error {
        /// what R4 turns format_err!(..) / bail!(..) into: Error::Message { .. }
        #[verifier::external_body]
        pub fn opaque() -> (e: Error) ensures e is Message { unimplemented!() }
        /// UnsupportedSnafu { message }.build()
        #[verifier::external_body]
        pub fn unsupported() -> (e: Error) ensures e is Unsupported { unimplemented!() }
    }
    pub type Result<T> = core::result::Result<T, Error>;
    impl core::convert::From<io::Error> for Error {
        #[verifier::external_body]
        fn from(e: io::Error) -> (r: Error) ensures r is IO, r->IO_source == e { unimplemented!() }
    }
}

pub mod io {
    use super::*;
    pub struct Error { pub k: ErrorKind }
    pub type Result<T> = core::result::Result<T, Error>;
    pub use super::IoErrorKind as ErrorKind;
    impl Error {
        #[verifier::external_body]
        pub fn new_opaque() -> (e: Error) ensures e.k == ErrorKind::Other { unimplemented!() }
        #[verifier::external_body]
        pub fn new_kind(k: ErrorKind) -> (e: Error) ensures e.k == k { unimplemented!() }
        #[verifier::external_body]
        pub fn kind(&self) -> (k: ErrorKind) ensures k == self.k { unimplemented!() }
    }

    //@trusted T2 std::io::Read: read(buf) = Ok(n) delivers the next n <= buf.len() bytes of the remaining content rest(); n == 0 only for an empty buf or at end of stream; n otherwise unconstrained (all short-read schedules). Bytes of buf beyond n are unchanged. Err: nothing is known about the state afterwards.
    pub trait Read {
        spec fn rest(&self) -> Seq<u8>;
        fn read(&mut self, buf: &mut [u8]) -> (r: Result<usize>)
            ensures
                final(buf)@.len() == old(buf)@.len(),
                match r {
                    Ok(n) => n <= old(buf)@.len()
                        && n <= old(self).rest().len()
                        && final(buf)@.subrange(0, n as int) == old(self).rest().subrange(0, n as int)
                        && final(buf)@.subrange(n as int, final(buf)@.len() as int) == old(buf)@.subrange(n as int, old(buf)@.len() as int)
                        && final(self).rest() == old(self).rest().skip(n as int)
                        && (n == 0 ==> (old(buf)@.len() == 0 || old(self).rest().len() == 0)),
                    Err(_) => true,
                };
    }
    impl<R: Read> Read for &mut R {
        open spec fn rest(&self) -> Seq<u8> { (**self).rest() }
        #[verifier::external_body]
        fn read(&mut self, buf: &mut [u8]) -> (r: Result<usize>) { unimplemented!() }
    }

    //@trusted T2 std::io::BufRead: fill_buf() = Ok(b) exposes a non-empty prefix b of rest() (empty only at end of stream) without consuming; consume(amt) requires amt <= length of the last fill_buf result and drops amt bytes
    pub trait BufRead: Read {
        spec fn buffered(&self) -> nat;
        /// what is buffered is part of what remains
        proof fn buffered_le_rest(&self) ensures self.buffered() <= self.rest().len();
        fn fill_buf(&mut self) -> (r: Result<&[u8]>)
            ensures match r {
                Ok(b) => b@.len() <= final(self).rest().len()
                    && b@ == final(self).rest().subrange(0, b@.len() as int)
                    && (b@.len() == 0 ==> final(self).rest().len() == 0)
                    && final(self).rest() == old(self).rest()
                    && final(self).buffered() == b@.len(),
                Err(_) => true,
            };
        fn consume(&mut self, amt: usize)
            requires amt <= old(self).buffered(),
            ensures final(self).rest() == old(self).rest().skip(amt as int),
                    final(self).buffered() == old(self).buffered() - amt;
    }
    impl<R: BufRead> BufRead for &mut R {
        open spec fn buffered(&self) -> nat { (**self).buffered() }
        proof fn buffered_le_rest(&self) { (**self).buffered_le_rest(); }
        #[verifier::external_body]
        fn fill_buf(&mut self) -> (r: Result<&[u8]>) { unimplemented!() }
        #[verifier::external_body]
        fn consume(&mut self, amt: usize) { unimplemented!() }
    }
}

// big-endian vocabulary of shims/io.rs (pure spec; lemmas/framing.rs refers to it)
pub open spec fn be16(x: u16) -> Seq<u8> { seq![(x >> 8) as u8, (x & 0xff) as u8] }
pub open spec fn be32(x: u32) -> Seq<u8> {
    seq![(x >> 24) as u8, ((x >> 16) & 0xff) as u8, ((x >> 8) & 0xff) as u8, (x & 0xff) as u8]
}
pub open spec fn from_be16(s: Seq<u8>) -> u16 { ((s[0] as u16) << 8) | (s[1] as u16) }
pub open spec fn from_be32(s: Seq<u8>) -> u32 {
    ((s[0] as u32) << 24) | ((s[1] as u32) << 16) | ((s[2] as u32) << 8) | (s[3] as u32)
}

//@trusted T2 std::cmp::min on usize
pub fn std_cmp_min(a: usize, b: usize) -> (r: usize) ensures r == (if a <= b { a } else { b }) { if a <= b { a } else { b } }
