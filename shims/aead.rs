// ---------------------------------------------------------------------------------
// shims/aead.rs - assumed contracts for the AEAD primitives (aes-gcm / eax / ocb3 behind
// `AeadAlgorithm::{decrypt,encrypt}_in_place`), HKDF-SHA256 (`hkdf` crate), `zeroize::Zeroizing`,
// the num_enum `Into<u8>` conversions of the algorithm enums and a few std items vstd lacks.
// Include AFTER shims/io.rs and shims/bytes.rs.  The including unit must
//   * start with `#![feature(allocator_api)]` (needed to name `Vec<T, A>` in a std specification),
//   * extract the REAL `enum AeadAlgorithm`, `enum ChunkSize`, `enum Error` (src/crypto/aead.rs) and
//     `enum SymmetricKeyAlgorithm` (src/crypto/sym.rs); this file only adds impl blocks / spec functions on them,
//   * extract the REAL `AeadAlgorithm::{nonce_size,tag_size}` / `SymmetricKeyAlgorithm::key_size` where it
//     calls them, with `ensures r == spec_nonce_size(*self)` etc.: the spec_* functions below are
//     models that the unit checks against the real match tables.
// Cryptography is NOT verified: seal/open/hkdf are uninterpreted functions.
// ---------------------------------------------------------------------------------

// ---- algorithm octets ------------------------------------------------------------
//@trusted T2 num_enum IntoPrimitive: `u8::from(alg)` / `alg.into()` is the declared discriminant of the variant, resp. the payload of the catch_all variant `Other(x)` (AeadAlgorithm, SymmetricKeyAlgorithm, ChunkSize)
pub open spec fn aead_octet(a: AeadAlgorithm) -> u8 {
    match a {
        AeadAlgorithm::None => 0, AeadAlgorithm::Eax => 1, AeadAlgorithm::Ocb => 2, AeadAlgorithm::Gcm => 3,
        AeadAlgorithm::Private100 => 100, AeadAlgorithm::Private101 => 101, AeadAlgorithm::Private102 => 102,
        AeadAlgorithm::Private103 => 103, AeadAlgorithm::Private104 => 104, AeadAlgorithm::Private105 => 105,
        AeadAlgorithm::Private106 => 106, AeadAlgorithm::Private107 => 107, AeadAlgorithm::Private108 => 108,
        AeadAlgorithm::Private109 => 109, AeadAlgorithm::Private110 => 110,
        AeadAlgorithm::Other(x) => x,
    }
}
pub open spec fn sym_octet(s: SymmetricKeyAlgorithm) -> u8 {
    match s {
        SymmetricKeyAlgorithm::Plaintext => 0, SymmetricKeyAlgorithm::IDEA => 1, SymmetricKeyAlgorithm::TripleDES => 2,
        SymmetricKeyAlgorithm::CAST5 => 3, SymmetricKeyAlgorithm::Blowfish => 4, SymmetricKeyAlgorithm::AES128 => 7,
        SymmetricKeyAlgorithm::AES192 => 8, SymmetricKeyAlgorithm::AES256 => 9, SymmetricKeyAlgorithm::Twofish => 10,
        SymmetricKeyAlgorithm::Camellia128 => 11, SymmetricKeyAlgorithm::Camellia192 => 12,
        SymmetricKeyAlgorithm::Camellia256 => 13, SymmetricKeyAlgorithm::Private10 => 110,
        SymmetricKeyAlgorithm::Other(x) => x,
    }
}
pub open spec fn chunk_octet(c: ChunkSize) -> u8 {
    match c {
        ChunkSize::C64B => 0, ChunkSize::C128B => 1, ChunkSize::C256B => 2, ChunkSize::C512B => 3, ChunkSize::C1KiB => 4,
        ChunkSize::C2KiB => 5, ChunkSize::C4KiB => 6, ChunkSize::C8KiB => 7, ChunkSize::C16KiB => 8, ChunkSize::C32KiB => 9,
        ChunkSize::C64KiB => 10, ChunkSize::C128KiB => 11, ChunkSize::C256KiB => 12, ChunkSize::C512KiB => 13,
        ChunkSize::C1MiB => 14, ChunkSize::C2MiB => 15, ChunkSize::C4MiB => 16,
    }
}
impl core::convert::From<ChunkSize> for u8 {
    #[verifier::external_body]
    fn from(c: ChunkSize) -> (r: u8) ensures r == chunk_octet(c) { unimplemented!() }
}
impl core::convert::From<AeadAlgorithm> for u8 {
    #[verifier::external_body]
    fn from(a: AeadAlgorithm) -> (r: u8) ensures r == aead_octet(a) { unimplemented!() }
}
impl core::convert::From<SymmetricKeyAlgorithm> for u8 {
    #[verifier::external_body]
    fn from(s: SymmetricKeyAlgorithm) -> (r: u8) ensures r == sym_octet(s) { unimplemented!() }
}

// ---- size tables (models; units check the real functions against them) -------------
pub open spec fn spec_nonce_size(a: AeadAlgorithm) -> nat {
    match a { AeadAlgorithm::Eax => 16, AeadAlgorithm::Ocb => 15, AeadAlgorithm::Gcm => 12, _ => 0 }
}
pub open spec fn spec_tag_size(a: AeadAlgorithm) -> Option<usize> {
    match a { AeadAlgorithm::Eax => Some(16usize), AeadAlgorithm::Ocb => Some(16usize), AeadAlgorithm::Gcm => Some(16usize), _ => None }
}
pub open spec fn spec_key_size(s: SymmetricKeyAlgorithm) -> nat {
    match s {
        SymmetricKeyAlgorithm::Plaintext => 0, SymmetricKeyAlgorithm::IDEA => 16, SymmetricKeyAlgorithm::TripleDES => 24,
        SymmetricKeyAlgorithm::CAST5 => 16, SymmetricKeyAlgorithm::Blowfish => 16, SymmetricKeyAlgorithm::AES128 => 16,
        SymmetricKeyAlgorithm::AES192 => 24, SymmetricKeyAlgorithm::AES256 => 32, SymmetricKeyAlgorithm::Twofish => 32,
        SymmetricKeyAlgorithm::Camellia128 => 16, SymmetricKeyAlgorithm::Camellia192 => 24,
        SymmetricKeyAlgorithm::Camellia256 => 32,
        SymmetricKeyAlgorithm::Private10 => 0, SymmetricKeyAlgorithm::Other(_) => 0,
    }
}
/// the (sym, aead) pairs for which `{de,en}crypt_in_place` has a match arm (src/crypto/aead.rs:117-175)
pub open spec fn aead_pair_supported(a: AeadAlgorithm, s: SymmetricKeyAlgorithm) -> bool {
    (a == AeadAlgorithm::Eax || a == AeadAlgorithm::Ocb || a == AeadAlgorithm::Gcm)
    && (s == SymmetricKeyAlgorithm::AES128 || s == SymmetricKeyAlgorithm::AES192 || s == SymmetricKeyAlgorithm::AES256)
}
/// key/nonce lengths for which the primitive is defined (and the real code does not panic, see below)
pub open spec fn aead_params_ok(a: AeadAlgorithm, s: SymmetricKeyAlgorithm, key: Seq<u8>, nonce: Seq<u8>) -> bool {
    aead_pair_supported(a, s) && key.len() >= spec_key_size(s) && nonce.len() == spec_nonce_size(a)
}

// ---- the primitives: uninterpreted ---------------------------------------------------
//@trusted T3 aead_seal(alg, sym, key, nonce, ad, pt) is an uninterpreted function: ciphertext ++ 16-byte tag; for supported parameters |seal(pt)| == |pt| + 16
pub uninterp spec fn aead_seal(a: AeadAlgorithm, s: SymmetricKeyAlgorithm, key: Seq<u8>, nonce: Seq<u8>, ad: Seq<u8>, pt: Seq<u8>) -> Seq<u8>;
//@trusted T3 aead_open(alg, sym, key, nonce, ad, ct) is an uninterpreted partial function; Some(pt) implies |ct| >= 16 and |pt| == |ct| - 16; None for (alg, sym) pairs the library has no cipher for
pub uninterp spec fn aead_open(a: AeadAlgorithm, s: SymmetricKeyAlgorithm, key: Seq<u8>, nonce: Seq<u8>, ad: Seq<u8>, ct: Seq<u8>) -> Option<Seq<u8>>;

#[verifier::external_body]
pub proof fn axiom_aead_seal_len(a: AeadAlgorithm, s: SymmetricKeyAlgorithm, key: Seq<u8>, nonce: Seq<u8>, ad: Seq<u8>, pt: Seq<u8>)
    requires aead_params_ok(a, s, key, nonce)
    ensures aead_seal(a, s, key, nonce, ad, pt).len() == pt.len() + 16 {}
#[verifier::external_body]
pub proof fn axiom_aead_open_len(a: AeadAlgorithm, s: SymmetricKeyAlgorithm, key: Seq<u8>, nonce: Seq<u8>, ad: Seq<u8>, ct: Seq<u8>)
    ensures
        aead_open(a, s, key, nonce, ad, ct) is Some ==> ct.len() >= 16 && aead_open(a, s, key, nonce, ad, ct)->Some_0.len() == ct.len() - 16,
        !aead_pair_supported(a, s) ==> aead_open(a, s, key, nonce, ad, ct) is None {}
//@trusted T3 the single AEAD law used by the pairing lemma: open(seal(x)) == Some(x) under the same (alg, sym, key, nonce, ad), for supported parameters.  Authenticity (no other ciphertext opens) is NOT assumed anywhere in the units.
#[verifier::external_body]
pub proof fn axiom_aead_open_seal(a: AeadAlgorithm, s: SymmetricKeyAlgorithm, key: Seq<u8>, nonce: Seq<u8>, ad: Seq<u8>, pt: Seq<u8>)
    requires aead_params_ok(a, s, key, nonce)
    ensures aead_open(a, s, key, nonce, ad, aead_seal(a, s, key, nonce, ad, pt)) == Some(pt) {}

//@trusted T3 AeadAlgorithm::decrypt_in_place(sym, key, nonce, ad, buf): Ok => buf' == aead_open(..old buf..).unwrap(); Err => aead_open(..) is None, buf unspecified.  PRECONDITION (real panics): for a supported pair the body slices `key[..key_size]` and calls `Nonce::from_slice(nonce)`, which panic unless |key| >= key_size(sym) and |nonce| == nonce_size(alg)
//@trusted T3 AeadAlgorithm::encrypt_in_place(sym, key, nonce, ad, buf): Ok => buf' == aead_seal(..old buf..); Err (unsupported pair, primitive refused) => buf unspecified; same panic precondition
impl AeadAlgorithm {
    #[verifier::external_body]
    pub fn decrypt_in_place(&self, sym_algorithm: &SymmetricKeyAlgorithm, key: &[u8], nonce: &[u8], associated_data: &[u8], buffer: &mut BytesMut) -> (r: Result<(), Error>)
        requires aead_pair_supported(*self, *sym_algorithm) ==> key@.len() >= spec_key_size(*sym_algorithm) && nonce@.len() == spec_nonce_size(*self),
        ensures match r {
            Ok(_) => aead_open(*self, *sym_algorithm, key@, nonce@, associated_data@, old(buffer)@) == Some(final(buffer)@),
            Err(_) => aead_open(*self, *sym_algorithm, key@, nonce@, associated_data@, old(buffer)@) is None,
        }
    { unimplemented!() }
    #[verifier::external_body]
    pub fn encrypt_in_place(&self, sym_algorithm: &SymmetricKeyAlgorithm, key: &[u8], nonce: &[u8], associated_data: &[u8], buffer: &mut BytesMut) -> (r: Result<(), Error>)
        requires aead_pair_supported(*self, *sym_algorithm) ==> key@.len() >= spec_key_size(*sym_algorithm) && nonce@.len() == spec_nonce_size(*self),
        ensures match r {
            Ok(_) => final(buffer)@ == aead_seal(*self, *sym_algorithm, key@, nonce@, associated_data@, old(buffer)@) && aead_pair_supported(*self, *sym_algorithm),
            Err(_) => true,
        }
    { unimplemented!() }
}

//@trusted T2 snafu context selectors `XxxSnafu { .. }.build()` construct the corresponding aead::Error variant (value not modelled)
pub struct UnsupporedAlgorithmSnafu { pub alg: AeadAlgorithm }
impl UnsupporedAlgorithmSnafu {
    #[verifier::external_body]
    pub fn build(self) -> (e: Error) { unimplemented!() }
}
pub struct InvalidSessionKeySnafu { pub alg: SymmetricKeyAlgorithm, pub session_key_size: usize }
impl InvalidSessionKeySnafu {
    #[verifier::external_body]
    pub fn build(self) -> (e: Error) { unimplemented!() }
}

// ---- HKDF-SHA256 -----------------------------------------------------------------------
//@trusted T3 hkdf_sha256(salt, ikm, info, n) is an uninterpreted function returning n octets (RFC 5869 extract-then-expand); its output for n' <= n is the n'-octet prefix (HKDF-Expand truncates T(1)|T(2)|..)
pub uninterp spec fn hkdf_sha256(salt: Seq<u8>, ikm: Seq<u8>, info: Seq<u8>, n: nat) -> Seq<u8>;
#[verifier::external_body]
pub proof fn axiom_hkdf_len(salt: Seq<u8>, ikm: Seq<u8>, info: Seq<u8>, n: nat)
    ensures hkdf_sha256(salt, ikm, info, n).len() == n {}
#[verifier::external_body]
pub proof fn axiom_hkdf_prefix(salt: Seq<u8>, ikm: Seq<u8>, info: Seq<u8>, n: nat, m: nat)
    requires m <= n
    ensures hkdf_sha256(salt, ikm, info, n).subrange(0, m as int) == hkdf_sha256(salt, ikm, info, m) {}

pub struct Sha256;
//@trusted T2 hkdf::Hkdf::<Sha256>::new(Some(salt), ikm).expand(info, okm): Ok for |okm| <= 255*32 and then okm == hkdf_sha256(salt, ikm, info, |okm|)
pub mod hkdf {
    use super::*;
    #[derive(Debug)]
    pub struct InvalidLength;
    #[verifier::external_body]
    #[verifier::reject_recursive_types(H)]
    pub struct Hkdf<H> { h: core::marker::PhantomData<H> }
    impl<H> Hkdf<H> {
        pub uninterp spec fn salt(&self) -> Option<Seq<u8>>;
        pub uninterp spec fn ikm(&self) -> Seq<u8>;
        #[verifier::external_body]
        pub fn new(salt: Option<&[u8]>, ikm: &[u8]) -> (r: Hkdf<H>)
            ensures r.salt() == (match salt { Some(s) => Some(s@), None => None::<Seq<u8>> }), r.ikm() == ikm@
        { unimplemented!() }
        #[verifier::external_body]
        pub fn expand(&self, info: &[u8], okm: &mut [u8]) -> (r: core::result::Result<(), InvalidLength>)
            ensures
                final(okm)@.len() == old(okm)@.len(),
                old(okm)@.len() <= 255 * 32 ==> r is Ok,
                (r is Ok && self.salt() is Some) ==> final(okm)@ == hkdf_sha256(self.salt()->Some_0, self.ikm(), info@, old(okm)@.len()),
        { unimplemented!() }
    }
}

// ---- zeroize::Zeroizing ------------------------------------------------------------------
//@trusted T2 zeroize::Zeroizing<T> is a transparent wrapper: new/Deref/DerefMut give access to the wrapped value (zeroisation on drop is not modelled)
pub struct Zeroizing<T>(pub T);
impl<T> Zeroizing<T> {
    pub fn new(t: T) -> (r: Zeroizing<T>) ensures r.0 == t { Zeroizing(t) }
}
impl<T> core::ops::Deref for Zeroizing<T> {
    type Target = T;
    fn deref(&self) -> (r: &T) ensures *r == self.0 { &self.0 }
}
impl<T> core::ops::DerefMut for Zeroizing<T> {
    fn deref_mut(&mut self) -> (r: &mut T) ensures *r == old(self).0, *final(r) == final(self).0 { &mut self.0 }
}

// ---- std items without a vstd specification ----------------------------------------------
//@trusted T2 u64::to_be_bytes is the big-endian encoding be64 (call sites are rewritten `x.to_be_bytes()` -> `u64_to_be_bytes(x)`: vstd cannot attach a specification to the const-generic std signature)
#[verifier::external_body]
pub fn u64_to_be_bytes(x: u64) -> (r: [u8; 8]) ensures r@ == be64(x) { x.to_be_bytes() }

//@trusted T2 [T; N]::as_slice / as_mut_slice view the array as a slice of the same elements
pub assume_specification<T, const N: usize> [<[T; N]>::as_mut_slice] (a: &mut [T; N]) -> (r: &mut [T])
    ensures r@ == old(a)@, final(r)@ == final(a)@;

//@trusted T2 <[T]>::to_vec clones the elements into a new Vec of the same length
pub assume_specification<T: Clone>[ <[T]>::to_vec ](s: &[T]) -> (r: Vec<T>)
    ensures r@.len() == s@.len(), forall|i: int| 0 <= i < s@.len() ==> cloned::<T>(#[trigger] s@[i], r@[i]);

//@trusted T2 `vec[range]` as a place (IndexMut on Vec) is the same as on the underlying slice (alloc: `IndexMut::index_mut(&mut **self, index)`); vstd only specifies the slice/array impls
pub assume_specification<T, I: core::slice::SliceIndex<[T]>, A: core::alloc::Allocator>[ <Vec<T, A> as core::ops::IndexMut<I>>::index_mut ](v: &mut Vec<T, A>, index: I) -> (output: &mut <Vec<T, A> as core::ops::Index<I>>::Output)
    ensures exists|slice: &mut [T]| #[trigger] slice@ == old(v)@ && final(slice)@ == final(v)@ && call_ensures(<[T] as core::ops::IndexMut<I>>::index_mut, (slice, index), output);

//@trusted T2 bytes::BytesMut derefs to its readable bytes as a slice (Deref/DerefMut<Target=[u8]>): indexing `buf[a..]` and passing `&mut buf` as `&mut [u8]` act on view()
impl core::ops::Deref for BytesMut {
    type Target = [u8];
    #[verifier::external_body]
    fn deref(&self) -> (r: &[u8]) ensures r@ == self@ { unimplemented!() }
}
impl core::ops::DerefMut for BytesMut {
    #[verifier::external_body]
    fn deref_mut(&mut self) -> (r: &mut [u8]) ensures r@ == old(self)@, final(r)@ == final(self)@, final(self).requested() == old(self).requested() { unimplemented!() }
}
