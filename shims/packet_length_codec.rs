// ---------------------------------------------------------------------------------
// shims/packet_length_codec.rs - PacketLength's codec (src/types/packet.rs) as *assumed* contracts for
// units that merely call it.  The contracts are the ones PROVED on the real text in
// units/U02_packet_length.vu.  Include after the extracted `enum PacketLength` and lemmas/framing.rs.
// `try_from_reader_ref` is the R := &mut R0 instance of try_from_reader (see U02 (2)).
// ---------------------------------------------------------------------------------
//@trusted T4 PacketLength::{try_from_reader, to_writer_new, maybe_len}: reader returns dec_len(stream) and consumes exactly those octets, writer appends enc_len(self) for every new-format length (proved in U02)
impl PacketLength {
    #[verifier::external_body]
    pub fn try_from_reader<R: io::BufRead>(r: R) -> (res: io::Result<Self>)
        ensures match res {
            Ok(l) => dec_len(r.rest()).is_some() && dec_len(r.rest()).unwrap().0 == l && new_len_ok(l),
            Err(_) => true }
    { unimplemented!() }
    #[verifier::external_body]
    pub fn try_from_reader_ref<R: io::BufRead>(r: &mut R) -> (res: io::Result<Self>)
        ensures match res {
            Ok(l) => dec_len(old(r).rest()) == Some((l, dec_len(old(r).rest()).unwrap().1))
                && (*final(r)).rest() == old(r).rest().skip(dec_len(old(r).rest()).unwrap().1 as int)
                && new_len_ok(l),
            Err(_) => true }
    { unimplemented!() }
    #[verifier::external_body]
    pub fn to_writer_new<W: io::Write>(&self, writer: &mut W) -> (r: errors::Result<()>)
        requires new_len_ok(*self)
        ensures match r {
            Ok(_) => final(writer).out() == old(writer).out() + enc_len(*self),
            Err(_) => true }
    { unimplemented!() }
    #[verifier::external_body]
    pub fn maybe_len(&self) -> (r: Option<u32>)
        ensures r == (match *self { PacketLength::Fixed(n) => Some(n), PacketLength::Indeterminate => None::<u32>, PacketLength::Partial(n) => Some(n) })
    { unimplemented!() }
}
