// ---------------------------------------------------------------------------------
// shims/armor_write_env.rs - what armor::writer::{write, write_header, write_body, Base64Encoder} are built on
// and which is NOT the subject of U86.  Include after shims/io_progress.rs and shims/crc24.rs, inside verus!{}.
//
// Reference plumbing.  The armor body is written through a stack of wrappers that hold `&mut` to the next layer
// (TeeWriter -> Base64Encoder/EncoderWriter -> LineWriter -> sink).  Generic callees (Serialize::to_writer<W>,
// EncoderWriter<W>) only see `W: io::Write`; that they use their writer *only through io::Write methods* (and so
// cannot re-seat a reference inside it) is stated with the uninterpreted relation evolves(a, b).
// ---------------------------------------------------------------------------------

//@trusted T2 crate::errors::Error is an opaque value; `?` converts io::Error into it (as in shims/io.rs, which cannot be combined with shims/io_progress.rs)
pub mod errors {
    use super::*;
    pub struct Error { pub tag: u8 }
    impl Error {
        #[verifier::external_body]
        pub fn opaque() -> (e: Error) { unimplemented!() }
    }
    pub type Result<T> = core::result::Result<T, Error>;
    impl core::convert::From<io::Error> for Error {
        #[verifier::external_body]
        fn from(e: io::Error) -> (r: Error) { unimplemented!() }
    }
}

//@trusted T2 evolves(a, b): "the writer value b is what the writer value a became through calls of io::Write methods only" (uninterpreted).  Assumed consequences, one axiom per type: for `&mut X` the reference still points to the same place (same future) and the referent evolved; for each wrapper type the facts every one of its io::Write methods preserves (proved per method in U80 / U84 / this unit) - see axiom_evolves_* below
pub uninterp spec fn evolves<W>(a: W, b: W) -> bool;

#[verifier::external_body]
pub proof fn axiom_evolves_ref<X>(a: &mut X, b: &mut X)
    requires evolves(a, b)
    ensures mut_ref_future(a) == mut_ref_future(b), evolves(mut_ref_current(a), mut_ref_current(b))
{}

//@trusted T2 std: `impl<W: Write + ?Sized> Write for &mut W` forwards every method to W
impl<W: io::Write> io::Write for &mut W {
    open spec fn out(&self) -> Seq<u8> { (**self).out() }
    open spec fn stalls(&self) -> nat { (**self).stalls() }
    open spec fn flushed(&self) -> bool { (**self).flushed() }
    #[verifier::external_body]
    fn write(&mut self, buf: &[u8]) -> (r: io::Result<usize>) { unimplemented!() }
    #[verifier::external_body]
    fn write_all(&mut self, buf: &[u8]) -> (r: io::Result<()>) { unimplemented!() }
    #[verifier::external_body]
    fn flush(&mut self) -> (r: io::Result<()>) { unimplemented!() }
}

//@trusted T2 base64 STANDARD alphabet with padding: b64_encode(bytes) is uninterpreted (the same function as in shims/base64_engine.rs, which cannot be included together with shims/io_progress.rs)
pub uninterp spec fn b64_encode(bytes: Seq<u8>) -> Seq<u8>;

//@trusted T4 ser::Serialize: to_writer(w) = Ok appends exactly ser() - by definition "the bytes source.to_writer wrote" - to the writer it is given, and it uses that writer only through io::Write methods (evolves)
pub trait Serialize {
    spec fn ser(&self) -> Seq<u8>;
    fn to_writer<W: io::Write>(&self, w: &mut W) -> (r: errors::Result<()>)
        ensures
            evolves(*old(w), *final(w)),
            r is Ok ==> (*final(w)).out() == (*old(w)).out() + self.ser();
}

// ---- typenum / LineBreak / LineWriter ------------------------------------------------------------------
//@trusted T2 typenum::U64 is the type-level natural 64
pub trait Unsigned { spec fn val() -> nat; }
pub struct U64;
impl Unsigned for U64 { open spec fn val() -> nat { 64 } }

pub enum LineBreak { Crlf, Lf, Cr }
pub open spec fn lb_bytes(lb: LineBreak) -> Seq<u8> {
    match lb {
        LineBreak::Crlf => seq![13u8, 10u8],
        LineBreak::Lf => seq![10u8],
        LineBreak::Cr => seq![13u8],
    }
}
/// (as in U80) C10 "body lines": t cut into lines of exactly n bytes each followed by lb; the last, shorter,
/// non-empty line is also followed by lb; nothing for empty t
pub open spec fn wrap(n: nat, lb: Seq<u8>, t: Seq<u8>) -> Seq<u8>
    decreases t.len()
{
    if t.len() == 0 { Seq::<u8>::empty() }
    else if n == 0 || t.len() <= n { t + lb }
    else { t.subrange(0, n as int) + lb + wrap(n, lb, t.skip(n as int)) }
}

//@trusted T4 line_writer::LineWriter<'a, W, N> with the contracts PROVED in U80: origin() = what the sink held at construction, acc() = all input accepted since (its io::Write out()), sink() = what the sink holds now; new() accepts nothing yet; write/write_all/flush keep origin, line break and `finished`; finish() = Ok leaves origin ++ wrap(N, line_break, acc) in the sink (U80 end-to-end clause).  fate() = what the sink holds once the wrapper is gone (a prophecy, fixed at construction: new() ties it to the final value of the borrowed sink)
//@trusted T4 LineWriter::finish (src/line_writer.rs:84, REAL code, contract PROVED in U80): keeps origin / acc / line break; already finished: Ok at once, nothing written; otherwise Ok: the pending partial line (if any) and its line break were written, the writer is finished and the sink holds origin ++ wrap(N, line_break, acc) (U80 end-to-end clause); Err (a sink error, surfaced): not finished
//@trusted T2 DROP MODEL (Verus has no drop glue): `impl Drop for LineWriter` (src/line_writer.rs:193, `if !self.panicked { let _ = self.finish(); }`, panicked is false after new/write/a successful finish - U80) is modelled by the explicit call finish_in_drop(): it runs finish(), RETURNS the io::Result that Drop throws away, and afterwards the wrapper is gone: sink() == fate().  After a successful finish() it writes nothing (finish returns at once when `finished`)
#[verifier::external_body]
#[verifier::accept_recursive_types(W)]
#[verifier::accept_recursive_types(N)]
pub struct LineWriter<'a, W: io::Write, N: Unsigned> { w: &'a mut W, n: core::marker::PhantomData<N> }
impl<'a, W: io::Write, N: Unsigned> LineWriter<'a, W, N> {
    pub uninterp spec fn origin(&self) -> Seq<u8>;
    pub uninterp spec fn acc(&self) -> Seq<u8>;
    pub uninterp spec fn sink(&self) -> Seq<u8>;
    pub uninterp spec fn fate(&self) -> Seq<u8>;
    pub uninterp spec fn lbk(&self) -> LineBreak;
    pub uninterp spec fn fin(&self) -> bool;
    pub uninterp spec fn stall(&self) -> nat;
    pub uninterp spec fn flushed_(&self) -> bool;
    #[verifier::external_body]
    pub fn new(w: &'a mut W, line_break: LineBreak) -> (r: LineWriter<'a, W, N>)
        ensures r.origin() == (*old(w)).out(), r.sink() == (*old(w)).out(), r.acc() == Seq::<u8>::empty(), r.lbk() == line_break, !r.fin(),
            (*final(w)).out() == r.fate(),
    { unimplemented!() }
    #[verifier::external_body]
    pub fn finish(&mut self) -> (r: io::Result<()>)
        ensures
            final(self).origin() == old(self).origin(), final(self).acc() == old(self).acc(), final(self).lbk() == old(self).lbk(),
            final(self).fate() == old(self).fate(),
            old(self).fin() ==> r is Ok && final(self).fin() && final(self).sink() == old(self).sink(),
            !old(self).fin() ==> match r {
                Ok(_) => final(self).fin() && final(self).sink() == old(self).origin() + wrap(N::val(), lb_bytes(old(self).lbk()), old(self).acc()),
                Err(_) => !final(self).fin(),
            },
    { unimplemented!() }
    #[verifier::external_body]
    pub fn finish_in_drop(&mut self) -> (r: io::Result<()>)
        ensures
            final(self).origin() == old(self).origin(), final(self).acc() == old(self).acc(), final(self).lbk() == old(self).lbk(),
            final(self).fate() == old(self).fate(),
            !old(self).fin() && r is Ok ==> final(self).sink() == old(self).origin() + wrap(N::val(), lb_bytes(old(self).lbk()), old(self).acc()),
            // Drop after a successful finish(): nothing is written
            old(self).fin() ==> r is Ok && final(self).sink() == old(self).sink(),
            // the wrapper is gone
            final(self).sink() == final(self).fate(),
    { unimplemented!() }
    #[verifier::external_body]
    pub proof fn axiom_evolves(a: Self, b: Self)
        requires evolves(a, b)
        ensures b.origin() == a.origin(), b.fate() == a.fate(), b.lbk() == a.lbk(), b.fin() == a.fin()
    {}
}
impl<'a, W: io::Write, N: Unsigned> io::Write for LineWriter<'a, W, N> {
    open spec fn out(&self) -> Seq<u8> { self.acc() }
    open spec fn stalls(&self) -> nat { self.stall() }
    open spec fn flushed(&self) -> bool { self.flushed_() }
    #[verifier::external_body]
    fn write(&mut self, buf: &[u8]) -> (r: io::Result<usize>) { unimplemented!() }
    #[verifier::external_body]
    fn write_all(&mut self, buf: &[u8]) -> (r: io::Result<()>) { unimplemented!() }
    #[verifier::external_body]
    fn flush(&mut self) -> (r: io::Result<()>) { unimplemented!() }
}

// ---- base64::write::EncoderWriter ----------------------------------------------------------------------
pub mod general_purpose {
    pub struct GeneralPurpose;
    pub const STANDARD: GeneralPurpose = GeneralPurpose;
}
//@trusted T2 base64 0.22 write::EncoderWriter<E, W> is an UNINTERPRETED streaming encoder: consumed = all input bytes accepted so far, base = what the delegate had accepted at construction; write(buf) = Ok(n) accepts the first n <= |buf| bytes (n may be 0 while encoded output is still pending - base64 issue 148), Err accepts nothing; the delegate is used only through io::Write (evolves); flush accepts nothing
//@trusted T3 PROGRESS ASSUMPTION on the encoder: a write() that accepts nothing of a non-empty buffer - Ok(0) or Err(Interrupted) - strictly decreases a finite stall budget (it pushes pending output to the delegate; a delegate that never accepts anything violates this)
//@trusted T2 DROP MODEL (Verus has no drop glue): `impl Drop for EncoderWriter` (`if !self.panicked { let _ = self.write_final_leftovers(); }`) is modelled by the explicit call finish_in_drop(): it RETURNS the io::Result that Drop throws away; on Ok the delegate has accepted exactly base ++ b64_encode(consumed) ("output == b64(all input) after finish/drop")
//@trusted T2 base64 0.22 write::EncoderWriter::finish(&mut self) -> io::Result<W> (encoder_writer.rs: write_final_leftovers, then `delegate.take()`): on Ok the remaining 1-2 input octets were encoded with padding and written - the delegate has accepted exactly base ++ b64_encode(consumed) - and the delegate is handed back (the encoder is empty afterwards: its Drop writes nothing); on Err the sink error is reported (the delegate stays; only `evolves` is known).  Accepts no input
pub mod base64 {
    pub mod write {
        use super::super::*;
        pub struct EncoderWriter<'e, E, W: io::Write> {
            pub delegate: W,
            pub engine: &'e E,
            pub consumed: Ghost<Seq<u8>>,
            pub base: Ghost<Seq<u8>>,
            pub stall: Ghost<nat>,
            pub flushed: Ghost<bool>,
        }
        impl<'e, E, W: io::Write> EncoderWriter<'e, E, W> {
            #[verifier::external_body]
            pub fn new(delegate: W, engine: &'e E) -> (r: EncoderWriter<'e, E, W>)
                ensures r.delegate == delegate, r.consumed@ == Seq::<u8>::empty(), r.base@ == delegate.out()
            { unimplemented!() }
            #[verifier::external_body]
            pub fn write(&mut self, buf: &[u8]) -> (r: io::Result<usize>)
                ensures
                    evolves(old(self).delegate, final(self).delegate), final(self).base@ == old(self).base@,
                    match r {
                        Ok(n) => n <= buf@.len() && final(self).consumed@ == old(self).consumed@ + buf@.subrange(0, n as int)
                            && (n == 0 && buf@.len() > 0 ==> final(self).stall@ < old(self).stall@),
                        Err(e) => final(self).consumed@ == old(self).consumed@
                            && (e.k == io::ErrorKind::Interrupted ==> final(self).stall@ < old(self).stall@),
                    },
            { unimplemented!() }
            #[verifier::external_body]
            pub fn flush(&mut self) -> (r: io::Result<()>)
                ensures
                    evolves(old(self).delegate, final(self).delegate), final(self).base@ == old(self).base@,
                    final(self).consumed@ == old(self).consumed@, r is Ok ==> final(self).flushed@,
            { unimplemented!() }
            #[verifier::external_body]
            pub fn finish(&mut self) -> (r: io::Result<W>)
                ensures
                    evolves(old(self).delegate, final(self).delegate), final(self).base@ == old(self).base@,
                    final(self).consumed@ == old(self).consumed@,
                    r matches Ok(w) ==> w == final(self).delegate && w.out() == old(self).base@ + b64_encode(old(self).consumed@),
            { unimplemented!() }
            #[verifier::external_body]
            pub fn finish_in_drop(&mut self) -> (r: io::Result<()>)
                ensures
                    evolves(old(self).delegate, final(self).delegate), final(self).base@ == old(self).base@,
                    final(self).consumed@ == old(self).consumed@,
                    r is Ok ==> final(self).delegate.out() == old(self).base@ + b64_encode(old(self).consumed@),
            { unimplemented!() }
        }
    }
}

// ---- std::hash::Hasher, as a relation between hasher states ---------------------------------------------
//@trusted T2 std::hash::Hasher::write(bytes) feeds exactly `bytes`: the new state has absorbed `bytes` on top of the old one; absorbing is sequential (absorbed_chain) and absorbing nothing changes nothing (absorbed_none).  For crc24::Crc24Hasher: state' == crc24_update(state, bytes) (shims/crc24.rs)
pub mod hash {
    use super::*;
    pub trait Hasher: Sized {
        /// self is `before` after having been fed `bytes`
        spec fn absorbed(&self, before: &Self, bytes: Seq<u8>) -> bool;
        fn write(&mut self, bytes: &[u8])
            ensures final(self).absorbed(old(self), bytes@);
        proof fn absorbed_none(&self) ensures self.absorbed(self, Seq::<u8>::empty());
        proof fn absorbed_chain(&self, a: &Self, b: &Self, x: Seq<u8>, y: Seq<u8>)
            requires b.absorbed(a, x), self.absorbed(b, y)
            ensures self.absorbed(a, x + y);
    }
}
impl hash::Hasher for crc24::Crc24Hasher {
    open spec fn absorbed(&self, before: &Self, bytes: Seq<u8>) -> bool {
        (bytes.len() == 0 && self.state == before.state) || self.state == crc24_update(before.state, bytes)
    }
    #[verifier::external_body]
    fn write(&mut self, bytes: &[u8]) { unimplemented!() }
    proof fn absorbed_none(&self) {}
    proof fn absorbed_chain(&self, a: &Self, b: &Self, x: Seq<u8>, y: Seq<u8>) {
        if x.len() == 0 && b.state == a.state {
            assert(x + y =~= y);
        } else if y.len() == 0 && self.state == b.state {
            assert(x + y =~= x);
        } else {
            axiom_crc24_concat(a.state, x, y);
        }
    }
}

// ---- armor::Headers = BTreeMap<String, Vec<String>> ------------------------------------------------------
//@trusted T2 armor::Headers (BTreeMap<String, Vec<String>>): a header key / value String is modelled by its UTF-8 bytes (HString, view = the bytes as_bytes() returns); Headers::iter() yields the (key, values) entries() in the map's (key) order, each once; iteration over `&Vec<String>` is vstd's
#[verifier::external_body]
pub struct HString { s: String }
impl View for HString { type V = Seq<u8>; uninterp spec fn view(&self) -> Seq<u8>; }
impl HString {
    #[verifier::external_body]
    pub fn as_bytes(&self) -> (r: &[u8]) ensures r@ == self@ { unimplemented!() }
    // String::is_empty / String::len are byte-based (the accessors a rewrite of write_header would reach for; seed C10_5)
    #[verifier::external_body]
    pub fn is_empty(&self) -> (r: bool) ensures r == (self@.len() == 0) { unimplemented!() }
    #[verifier::external_body]
    pub fn len(&self) -> (r: usize) ensures r == self@.len() { unimplemented!() }
}
#[verifier::external_body]
pub struct Headers { m: std::collections::BTreeMap<String, Vec<String>> }
#[verifier::external_body]
pub struct HeadersIter<'a> { it: std::collections::btree_map::Iter<'a, String, Vec<String>> }
impl Headers {
    pub uninterp spec fn entries(&self) -> Seq<(&HString, &Vec<HString>)>;
    #[verifier::external_body]
    pub fn iter(&self) -> (r: HeadersIter<'_>) ensures r.rem() == self.entries() { unimplemented!() }
}
impl<'a> HeadersIter<'a> {
    pub uninterp spec fn rem(&self) -> Seq<(&'a HString, &'a Vec<HString>)>;
}
impl<'a> Iterator for HeadersIter<'a> {
    type Item = (&'a HString, &'a Vec<HString>);
    // the contract of `next` is the one vstd attaches to Iterator::next in terms of the IteratorSpecImpl functions below
    #[verifier::external_body]
    fn next(&mut self) -> (r: Option<(&'a HString, &'a Vec<HString>)>) { unimplemented!() }
}
impl<'a> vstd::std_specs::iter::IteratorSpecImpl for HeadersIter<'a> {
    open spec fn obeys_prophetic_iter_laws(&self) -> bool { true }
    open spec fn remaining(&self) -> Seq<(&'a HString, &'a Vec<HString>)> { self.rem() }
    open spec fn will_return_none(&self) -> bool { true }
    open spec fn decrease(&self) -> Option<nat> { Some(self.rem().len()) }
    open spec fn peek(&self, index: int) -> Option<(&'a HString, &'a Vec<HString>)> {
        if 0 <= index < self.rem().len() { Some(self.rem()[index]) } else { None }
    }
}

/// "Key: Value\n"
pub open spec fn kv_line(k: Seq<u8>, v: Seq<u8>) -> Seq<u8> { k + seq![58u8, 32u8] + v + seq![10u8] }
/// the lines of the first n values of one key
pub open spec fn entry_lines(k: Seq<u8>, vs: Seq<HString>, n: int) -> Seq<u8>
    decreases n
{
    if n <= 0 { Seq::<u8>::empty() } else { entry_lines(k, vs, n - 1) + kv_line(k, vs[n - 1]@) }
}
/// the lines of the first n entries
pub open spec fn headers_text(es: Seq<(&HString, &Vec<HString>)>, n: int) -> Seq<u8>
    decreases n
{
    if n <= 0 { Seq::<u8>::empty() } else { headers_text(es, n - 1) + entry_lines(es[n - 1].0@, es[n - 1].1@, es[n - 1].1@.len() as int) }
}
pub open spec fn opt_headers_text(h: Option<&Headers>) -> Seq<u8> {
    match h { Some(h) => headers_text(h.entries(), h.entries().len() as int), None => Seq::<u8>::empty() }
}
