// shims/keytypes_rsa_ser.rs - the real RsaPublicParams implements crate::ser::Serialize (src/types/params/public/rsa.rs:40):
// give the shim type the same capability, so that code under contract that serialises the RSA parameters directly still
// type-checks (an independently seeded change did exactly that and an earlier version of U35 went "undecided").
//@trusted T4 RsaPublicParams::to_writer writes MPI(n) then MPI(e) (two-octet bit count followed by the octets), write_len is that length; writing into a sink that never fails returns Ok
impl ser::Serialize for RsaPublicParams {
    open spec fn ser(&self) -> Seq<u8> { mpi_enc(self.key.n_bytes()) + mpi_enc(self.key.e_bytes()) }
    #[verifier::external_body]
    fn to_writer<W: io::Write>(&self, w: &mut W) -> (r: crate::errors::Result<()>)
        ensures sink_never_fails::<W>() ==> r is Ok
    { unimplemented!() }
    #[verifier::external_body]
    fn write_len(&self) -> (n: usize) { unimplemented!() }
}
