// ---------------------------------------------------------------------------------
// shims/replace_with.rs - the `replace_with` crate (state-machine replacement through &mut).
// Include inside verus!{} after `use vstd::prelude::*;`.
// ---------------------------------------------------------------------------------
//@trusted T2 replace_with::replace_with_and_return(dest, default, f) moves the value out of *dest, calls f on it once, stores the second component of f's result back into *dest and returns the first component; replace_with(dest, default, f) stores f's result.  `default` is only called if f panics, which verified closures do not (their panic sites are proof obligations), so it is not modelled
pub mod replace_with {
    use super::*;
    #[verifier::external_body]
    pub fn replace_with_and_return<T, U, D: FnOnce() -> T, F: FnOnce(T) -> (U, T)>(dest: &mut T, default: D, f: F) -> (r: U)
        requires f.requires((*old(dest),)),
        ensures f.ensures((*old(dest),), (r, *final(dest))),
    { unimplemented!() }
    #[verifier::external_body]
    pub fn replace_with<T, D: FnOnce() -> T, F: FnOnce(T) -> T>(dest: &mut T, default: D, f: F)
        requires f.requires((*old(dest),)),
        ensures f.ensures((*old(dest),), *final(dest)),
    { unimplemented!() }
}
