// ---------------------------------------------------------------------------------
// shims/serlen_b_iter.rs - the model of `s.iter().map(f).sum::<usize>()` (src/ser.rs, generic
// write_len of `&[T]` / `Vec<T>`) for U76a.  Include after shims/serlen_b.rs.
// ---------------------------------------------------------------------------------
pub open spec fn seq_sum(v: Seq<usize>) -> nat
    decreases v.len()
{
    if v.len() == 0 { 0 } else { seq_sum(v.drop_last()) + v.last() as nat }
}

//@trusted T2 core::iter: s.iter().map(f).sum::<usize>() calls f exactly once on every element, in order, and returns the sum of the results; an overflowing sum panics (debug) or wraps (release): stated as the precondition that every sum of results f can return fits usize
#[verifier::external_body]
pub fn slice_iter_map_sum<T, F: Fn(&T) -> usize>(s: &[T], f: F) -> (r: usize)
    requires
        forall|i: int| 0 <= i < s@.len() ==> f.requires((&#[trigger] s@[i],)),
        forall|vals: Seq<usize>| vals.len() == s@.len() && (forall|i: int| 0 <= i < s@.len() ==> f.ensures((&s@[i],), #[trigger] vals[i]))
            ==> #[trigger] seq_sum(vals) <= usize::MAX,
    ensures
        exists|vals: Seq<usize>| vals.len() == s@.len() && (forall|i: int| 0 <= i < s@.len() ==> f.ensures((&s@[i],), #[trigger] vals[i]))
            && r == #[trigger] seq_sum(vals),
{ s.iter().map(f).sum() }

/// element-wise announced lengths add up to sum_len
pub proof fn lemma_sum_vals_one<T: Serialize>(v: Seq<T>, vals: Seq<usize>)
    requires vals.len() == v.len(), forall|i: int| 0 <= i < v.len() ==> (#[trigger] vals[i]) as nat == v[i].spec_write_len(),
    ensures seq_sum(vals) == sum_len(v)
    decreases v.len()
{
    if v.len() > 0 {
        let v2 = v.drop_last();
        let s2 = vals.drop_last();
        assert forall|i: int| 0 <= i < v2.len() implies (#[trigger] s2[i]) as nat == v2[i].spec_write_len() by {
            assert(s2[i] == vals[i]);
        }
        lemma_sum_vals_one(v2, s2);
        assert(vals[v.len() - 1] as nat == v[v.len() - 1].spec_write_len());
    }
}
pub proof fn lemma_sum_vals<T: Serialize>(v: Seq<T>)
    ensures forall|vals: Seq<usize>| vals.len() == v.len() && (forall|i: int| 0 <= i < v.len() ==> (#[trigger] vals[i]) as nat == v[i].spec_write_len())
        ==> #[trigger] seq_sum(vals) == sum_len(v)
{
    assert forall|vals: Seq<usize>| vals.len() == v.len() && (forall|i: int| 0 <= i < v.len() ==> (#[trigger] vals[i]) as nat == v[i].spec_write_len())
        implies #[trigger] seq_sum(vals) == sum_len(v) by {
        lemma_sum_vals_one(v, vals);
    }
}
