// ---------------------------------------------------------------------------------
// shims/serlen_sink.rs - companion of shims/io_sink.rs for the length-agreement units whose subjects hand
// a writer that HOLDS a mutable reference to generic code (PlainSecretParams::to_writer: TeeWriter;
// EncryptedSecretParams::to_writer: `&mut &mut Vec<u8>`): crate::ser::Serialize with the same_dest clause,
// the std Write impls for Vec<u8> and &mut W, Bytes deref + length axioms.  Include after shims/io_sink.rs and
// shims/bytes.rs (std::hash::Hasher and crypto::checksum::SimpleChecksum: shims/serlen_sink_sum.rs).
// ---------------------------------------------------------------------------------

//@trusted T4 crate::ser::Serialize (abstract, for the COMPONENTS; for the subjects of a unit it is what is verified): to_writer appends exactly wire() on Ok and write_len() == |wire()|, under the type invariant ser_inv().  PARAMETRICITY: to_writer<W> is generic in W, it can reach the writer only through W's io::Write methods, hence preserves same_dest (see shims/io_sink.rs)
pub trait Serialize {
    spec fn wire(&self) -> Seq<u8>;
    /// type invariant under which the contracts hold (true for most types)
    spec fn ser_inv(&self) -> bool;
    fn to_writer<W: io::Write>(&self, writer: &mut W) -> (r: errors::Result<()>)
        requires self.ser_inv(),
        ensures match r {
            Ok(_) => (*final(writer)).out() == (*old(writer)).out() + self.wire() && (*old(writer)).same_dest(&*final(writer)),
            Err(_) => true };
    fn write_len(&self) -> (r: usize)
        requires self.ser_inv(),
        ensures r == self.wire().len();
}

//@trusted T2 std: `impl Write for Vec<u8>` appends (an owned sink: same_dest is trivially true); `impl Write for &mut W` forwards to W and never re-seats the reference (same_dest: the two references have the same prophesied final referent, and the referents deliver to the same destination)
impl io::Write for Vec<u8> {
    open spec fn out(&self) -> Seq<u8> { self@ }
    #[verifier::prophetic]
    open spec fn same_dest(&self, other: &Self) -> bool { true }
    proof fn same_dest_refl(a: &Self) {}
    proof fn same_dest_trans(a: &Self, b: &Self, c: &Self) {}
    #[verifier::external_body]
    fn write(&mut self, buf: &[u8]) -> (r: io::Result<usize>) { unimplemented!() }
    #[verifier::external_body]
    fn write_all(&mut self, buf: &[u8]) -> (r: io::Result<()>) { unimplemented!() }
    #[verifier::external_body]
    fn flush(&mut self) -> (r: io::Result<()>) { unimplemented!() }
}
impl<W: io::Write> io::Write for &mut W {
    open spec fn out(&self) -> Seq<u8> { (**self).out() }
    #[verifier::prophetic]
    open spec fn same_dest(&self, other: &Self) -> bool { *final(*self) == *final(*other) && (**self).same_dest(&**other) }
    proof fn same_dest_refl(a: &Self) { W::same_dest_refl(&**a); }
    proof fn same_dest_trans(a: &Self, b: &Self, c: &Self) { W::same_dest_trans(&**a, &**b, &**c); }
    #[verifier::external_body]
    fn write(&mut self, buf: &[u8]) -> (r: io::Result<usize>) { unimplemented!() }
    #[verifier::external_body]
    fn write_all(&mut self, buf: &[u8]) -> (r: io::Result<()>) { unimplemented!() }
    #[verifier::external_body]
    fn flush(&mut self) -> (r: io::Result<()>) { unimplemented!() }
}

//@trusted T2 bytes::Bytes derefs to the byte slice of its content; no allocation exceeds isize::MAX bytes (std allocator rule)
impl core::ops::Deref for Bytes {
    type Target = [u8];
    #[verifier::external_body]
    fn deref(&self) -> (r: &[u8])
        ensures r@ == self@
    { unimplemented!() }
}
#[verifier::external_body]
pub proof fn axiom_bytes_len(b: &Bytes)
    ensures b@.len() <= isize::MAX
{}
//@trusted T1 no in-memory byte vector is longer than 2^56 octets (virtual address space of every supported 64-bit target), so sums of a few lengths fit usize (for Bytes: axiom_addr_space_bytes of shims/secret_std.rs)
#[verifier::external_body]
pub proof fn axiom_addr_space_vec(v: &Vec<u8>)
    ensures v@.len() < 0x0100_0000_0000_0000
{}

