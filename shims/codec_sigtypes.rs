// ---------------------------------------------------------------------------------
// shims/codec_sigtypes.rs - the small value types around signature / one-pass-signature packets
// for the packet codec units (U60s, U61s, U65s).  Include AFTER shims/io.rs, shims/bytes.rs and
// shims/secret_algos.rs (HashAlgorithm, SymmetricKeyAlgorithm, AeadAlgorithm, KeyVersion and the
// opaque PublicKeyAlgorithm come from there), inside verus!{}.
// Do not combine with shims/sigtypes.rs / shims/keytypes.rs (same type names).
// ---------------------------------------------------------------------------------

// ---- num_enum ids ------------------------------------------------------------------
//@trusted T7 PublicKeyAlgorithm (num_enum FromPrimitive/IntoPrimitive with catch_all) is an abstract Copy value with uninterpreted octet maps pk_from_u8 / pk_to_u8; u8 -> enum -> u8 is the identity for all 256 octets (axiom_pk_round_trip); derive(PartialEq) is equality of values
pub uninterp spec fn pk_to_u8(a: PublicKeyAlgorithm) -> u8;
pub uninterp spec fn pk_from_u8(v: u8) -> PublicKeyAlgorithm;
#[verifier::external_body]
pub proof fn axiom_pk_round_trip(v: u8)
    ensures pk_to_u8(pk_from_u8(v)) == v
{}
impl core::convert::From<u8> for PublicKeyAlgorithm {
    #[verifier::external_body]
    fn from(v: u8) -> (r: PublicKeyAlgorithm) ensures r == pk_from_u8(v) { unimplemented!() }
}
impl core::convert::From<PublicKeyAlgorithm> for u8 {
    #[verifier::external_body]
    fn from(a: PublicKeyAlgorithm) -> (r: u8) ensures r == pk_to_u8(a) { unimplemented!() }
}

//@trusted T7 num_enum derive (FromPrimitive/IntoPrimitive with catch_all Other(u8)) on SignatureVersion, SignatureType, KeyVersion: re-declared by hand with the discriminants of the source; From<u8> maps a listed discriminant to its variant and every other octet v to Other(v); From<Enum> for u8 maps a variant to its discriminant and Other(v) to v.  derive(PartialEq, Clone, Copy) is structural equality / bit copy
#[derive(Clone, Copy)]
pub enum SignatureVersion { V2, V3, V4, V5, V6, Other(u8) }
pub open spec fn sigver_to_u8(v: SignatureVersion) -> u8 {
    match v {
        SignatureVersion::V2 => 2, SignatureVersion::V3 => 3, SignatureVersion::V4 => 4,
        SignatureVersion::V5 => 5, SignatureVersion::V6 => 6, SignatureVersion::Other(n) => n,
    }
}
pub open spec fn sigver_from_u8(v: u8) -> SignatureVersion {
    if v == 2 { SignatureVersion::V2 } else if v == 3 { SignatureVersion::V3 } else if v == 4 { SignatureVersion::V4 }
    else if v == 5 { SignatureVersion::V5 } else if v == 6 { SignatureVersion::V6 } else { SignatureVersion::Other(v) }
}
impl core::convert::From<u8> for SignatureVersion {
    #[verifier::external_body]
    fn from(v: u8) -> (r: SignatureVersion) ensures r == sigver_from_u8(v) { unimplemented!() }
}
impl core::convert::From<SignatureVersion> for u8 {
    #[verifier::external_body]
    fn from(v: SignatureVersion) -> (r: u8) ensures r == sigver_to_u8(v) { unimplemented!() }
}
// `panic!("signature version {v:?}")` in the sources needs the derived Debug impl
#[verifier::external]
impl core::fmt::Debug for SignatureVersion {
    fn fmt(&self, f: &mut core::fmt::Formatter<'_>) -> core::fmt::Result { f.write_str("SignatureVersion") }
}
impl vstd::std_specs::cmp::PartialEqSpecImpl for SignatureVersion {
    open spec fn obeys_eq_spec() -> bool { true }
    open spec fn eq_spec(&self, other: &SignatureVersion) -> bool { *self == *other }
}
impl PartialEq for SignatureVersion {
    #[verifier::external_body]
    fn eq(&self, other: &SignatureVersion) -> (r: bool) { unimplemented!() }
}

#[derive(Clone, Copy)]
pub enum SignatureType {
    Binary, Text, Standalone, CertGeneric, CertPersona, CertCasual, CertPositive, SubkeyBinding, KeyBinding,
    Key, KeyRevocation, SubkeyRevocation, CertRevocation, Timestamp, ThirdParty, Other(u8),
}
/// RFC 9580 5.2.1 signature type ids
pub open spec fn sigtype_to_u8(t: SignatureType) -> u8 {
    match t {
        SignatureType::Binary => 0x00, SignatureType::Text => 0x01, SignatureType::Standalone => 0x02,
        SignatureType::CertGeneric => 0x10, SignatureType::CertPersona => 0x11, SignatureType::CertCasual => 0x12,
        SignatureType::CertPositive => 0x13, SignatureType::SubkeyBinding => 0x18, SignatureType::KeyBinding => 0x19,
        SignatureType::Key => 0x1F, SignatureType::KeyRevocation => 0x20, SignatureType::SubkeyRevocation => 0x28,
        SignatureType::CertRevocation => 0x30, SignatureType::Timestamp => 0x40, SignatureType::ThirdParty => 0x50,
        SignatureType::Other(n) => n,
    }
}
pub open spec fn sigtype_from_u8(v: u8) -> SignatureType {
    if v == 0x00 { SignatureType::Binary } else if v == 0x01 { SignatureType::Text } else if v == 0x02 { SignatureType::Standalone }
    else if v == 0x10 { SignatureType::CertGeneric } else if v == 0x11 { SignatureType::CertPersona } else if v == 0x12 { SignatureType::CertCasual }
    else if v == 0x13 { SignatureType::CertPositive } else if v == 0x18 { SignatureType::SubkeyBinding } else if v == 0x19 { SignatureType::KeyBinding }
    else if v == 0x1F { SignatureType::Key } else if v == 0x20 { SignatureType::KeyRevocation } else if v == 0x28 { SignatureType::SubkeyRevocation }
    else if v == 0x30 { SignatureType::CertRevocation } else if v == 0x40 { SignatureType::Timestamp } else if v == 0x50 { SignatureType::ThirdParty }
    else { SignatureType::Other(v) }
}
impl core::convert::From<u8> for SignatureType {
    #[verifier::external_body]
    fn from(v: u8) -> (r: SignatureType) ensures r == sigtype_from_u8(v) { unimplemented!() }
}
impl core::convert::From<SignatureType> for u8 {
    #[verifier::external_body]
    fn from(v: SignatureType) -> (r: u8) ensures r == sigtype_to_u8(v) { unimplemented!() }
}

pub open spec fn kv_to_u8(v: KeyVersion) -> u8 {
    match v {
        KeyVersion::V2 => 2, KeyVersion::V3 => 3, KeyVersion::V4 => 4,
        KeyVersion::V5 => 5, KeyVersion::V6 => 6, KeyVersion::Other(n) => n,
    }
}
pub open spec fn kv_from_u8(v: u8) -> KeyVersion {
    if v == 2 { KeyVersion::V2 } else if v == 3 { KeyVersion::V3 } else if v == 4 { KeyVersion::V4 }
    else if v == 5 { KeyVersion::V5 } else if v == 6 { KeyVersion::V6 } else { KeyVersion::Other(v) }
}
impl core::convert::From<u8> for KeyVersion {
    #[verifier::external_body]
    fn from(v: u8) -> (r: KeyVersion) ensures r == kv_from_u8(v) { unimplemented!() }
}
impl core::convert::From<KeyVersion> for u8 {
    #[verifier::external_body]
    fn from(v: KeyVersion) -> (r: u8) ensures r == kv_to_u8(v) { unimplemented!() }
}

// ---- small value types ------------------------------------------------------------
//@trusted T7 KeyId is 8 octets (src/types/key_id.rs: From<[u8; 8]>, AsRef<[u8]>); Timestamp / Duration are a u32 of seconds (from_secs / as_secs)
#[derive(Clone, Copy)]
pub struct KeyId(pub [u8; 8]);
impl vstd::std_specs::convert::FromSpecImpl<[u8; 8]> for KeyId {
    open spec fn obeys_from_spec() -> bool { true }
    open spec fn from_spec(a: [u8; 8]) -> KeyId { KeyId(a) }
}
impl core::convert::From<[u8; 8]> for KeyId {
    fn from(value: [u8; 8]) -> (r: KeyId) { KeyId(value) }
}
impl KeyId {
    // AsRef<[u8]>::as_ref as an inherent method (method-call syntax in the sources resolves to it)
    pub fn as_ref(&self) -> (r: &[u8]) ensures r@ == self.0@ { self.0.as_slice() }
}
#[derive(Clone, Copy)]
pub struct Timestamp(pub u32);
impl Timestamp {
    pub fn as_secs(self) -> (r: u32) ensures r == self.0 { self.0 }
    pub fn from_secs(secs: u32) -> (r: Timestamp) ensures r.0 == secs { Timestamp(secs) }
}
//@trusted T4 BufReadParsing::read_timestamp = read_be_u32().map(Timestamp::from_secs): the next four octets, big endian (read_be_u32 proved in U71)
pub trait ReadTimestamp: io::BufRead + Sized {
    fn read_timestamp(&mut self) -> (r: io::Result<Timestamp>)
        ensures match r {
            Ok(t) => (*old(self)).rest().len() >= 4 && be32(t.0) == (*old(self)).rest().subrange(0, 4) && (*final(self)).rest() == (*old(self)).rest().skip(4),
            Err(_) => true };
}
impl<B: io::BufRead> ReadTimestamp for B {
    #[verifier::external_body]
    fn read_timestamp(&mut self) -> (r: io::Result<Timestamp>) { unimplemented!() }
}
#[derive(Clone, Copy)]
pub struct Duration(pub u32);
impl Duration {
    pub fn as_secs(self) -> (r: u32) ensures r == self.0 { self.0 }
    pub fn from_secs(secs: u32) -> (r: Duration) ensures r.0 == secs { Duration(secs) }
}

//@trusted T4 types::PacketHeaderVersion has the two variants Old / New; packet::PacketHeader is an opaque value that packet bodies only store and hand back (version() reads its format)
#[derive(Clone, Copy)]
pub enum PacketHeaderVersion { Old, New }
#[verifier::external_body]
pub struct PacketHeader { p: u8 }
impl PacketHeader {
    pub uninterp spec fn ph_version(&self) -> PacketHeaderVersion;
    #[verifier::external_body]
    pub fn version(&self) -> (r: PacketHeaderVersion) ensures r == self.ph_version() { unimplemented!() }
}

//@trusted T7 payload types of subpackets that the codec units never look into are opaque values
#[verifier::external_body] pub struct CompressionAlgorithm { v: u8 }
#[verifier::external_body] pub struct KeyFlags { v: u8 }
#[verifier::external_body] pub struct Features { v: u8 }
#[verifier::external_body] pub struct RevocationCode { v: u8 }
#[verifier::external_body] pub struct Notation { v: u8 }
#[verifier::external_body] pub struct RevocationKey { v: u8 }
#[verifier::external_body]
#[verifier::accept_recursive_types(A)]
pub struct SmallVec<A> { v: core::marker::PhantomData<A> }

//@trusted T2 a failed integer conversion (TryFromIntError) converts into the opaque crate error via `?`
impl core::convert::From<core::num::TryFromIntError> for errors::Error {
    #[verifier::external_body]
    fn from(e: core::num::TryFromIntError) -> (r: errors::Error) { unimplemented!() }
}
