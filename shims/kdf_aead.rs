// ---------------------------------------------------------------------------------
// shims/kdf_aead.rs - the AEAD model that goes with shims/kdf_prims.rs (units U91, U92): registry
// octets and size tables of crypto::aead::AeadAlgorithm, the uninterpreted seal/open functions and
// the contracts of AeadAlgorithm::{encrypt,decrypt}_in_place.  Same model as shims/aead.rs, except
// that the contracts here say which part of the `key` argument is used (callers pass a 32/42-octet
// HKDF output and rely on the truncation to the cipher's key size).
// Include AFTER shims/io.rs, shims/bytes.rs, shims/kdf_prims.rs, shims/kdf_sym.rs.  The including
// unit must extract the REAL `enum AeadAlgorithm` (src/crypto/aead.rs) and, where it calls them, the
// REAL `AeadAlgorithm::{nonce_size, iv_size, tag_size}` with `ensures r == spec_nonce_size(*self)` etc.
// ---------------------------------------------------------------------------------
//@trusted T2 num_enum IntoPrimitive / FromPrimitive on AeadAlgorithm: `alg.into()` is the declared discriminant, resp. the payload of `Other(x)` (RFC 9580 9.6: 1 EAX, 2 OCB, 3 GCM)
pub open spec fn aead_octet(a: AeadAlgorithm) -> u8 {
    match a {
        AeadAlgorithm::None => 0, AeadAlgorithm::Eax => 1, AeadAlgorithm::Ocb => 2, AeadAlgorithm::Gcm => 3,
        AeadAlgorithm::Private100 => 100, AeadAlgorithm::Private101 => 101, AeadAlgorithm::Private102 => 102,
        AeadAlgorithm::Private103 => 103, AeadAlgorithm::Private104 => 104, AeadAlgorithm::Private105 => 105,
        AeadAlgorithm::Private106 => 106, AeadAlgorithm::Private107 => 107, AeadAlgorithm::Private108 => 108,
        AeadAlgorithm::Private109 => 109, AeadAlgorithm::Private110 => 110,
        AeadAlgorithm::Other(x) => x,
    }
}
impl core::convert::From<AeadAlgorithm> for u8 {
    #[verifier::external_body]
    fn from(a: AeadAlgorithm) -> (r: u8) ensures r == aead_octet(a) { unimplemented!() }
}
pub open spec fn spec_nonce_size(a: AeadAlgorithm) -> nat {
    match a { AeadAlgorithm::Eax => 16, AeadAlgorithm::Ocb => 15, AeadAlgorithm::Gcm => 12, _ => 0 }
}
pub open spec fn spec_tag_size(a: AeadAlgorithm) -> Option<usize> {
    match a { AeadAlgorithm::Eax => Some(16usize), AeadAlgorithm::Ocb => Some(16usize), AeadAlgorithm::Gcm => Some(16usize), _ => None }
}
/// the (sym, aead) pairs for which `{de,en}crypt_in_place` has a match arm (src/crypto/aead.rs:117-175)
pub open spec fn aead_pair_supported(a: AeadAlgorithm, s: SymmetricKeyAlgorithm) -> bool {
    (a == AeadAlgorithm::Eax || a == AeadAlgorithm::Ocb || a == AeadAlgorithm::Gcm)
    && (s == SymmetricKeyAlgorithm::AES128 || s == SymmetricKeyAlgorithm::AES192 || s == SymmetricKeyAlgorithm::AES256)
}

//@trusted T3 aead_seal(alg, sym, key, nonce, ad, pt) is an uninterpreted function: ciphertext ++ 16-octet tag; aead_open its uninterpreted partial inverse: Some(pt) implies |ct| >= 16 and |pt| == |ct| - 16; open(seal(x)) == Some(x) under the same (alg, sym, key, nonce, ad) for a supported pair with |key| == key size and |nonce| == nonce size.  Authenticity (no other ciphertext opens) is NOT assumed
pub uninterp spec fn aead_seal(a: AeadAlgorithm, s: SymmetricKeyAlgorithm, key: Seq<u8>, nonce: Seq<u8>, ad: Seq<u8>, pt: Seq<u8>) -> Seq<u8>;
pub uninterp spec fn aead_open(a: AeadAlgorithm, s: SymmetricKeyAlgorithm, key: Seq<u8>, nonce: Seq<u8>, ad: Seq<u8>, ct: Seq<u8>) -> Option<Seq<u8>>;
pub open spec fn aead_params_exact(a: AeadAlgorithm, s: SymmetricKeyAlgorithm, key: Seq<u8>, nonce: Seq<u8>) -> bool {
    aead_pair_supported(a, s) && key.len() == spec_key_size(s) && nonce.len() == spec_nonce_size(a)
}
#[verifier::external_body]
pub proof fn axiom_aead_seal_len(a: AeadAlgorithm, s: SymmetricKeyAlgorithm, key: Seq<u8>, nonce: Seq<u8>, ad: Seq<u8>, pt: Seq<u8>)
    requires aead_params_exact(a, s, key, nonce)
    ensures aead_seal(a, s, key, nonce, ad, pt).len() == pt.len() + 16 {}
#[verifier::external_body]
pub proof fn axiom_aead_open_len(a: AeadAlgorithm, s: SymmetricKeyAlgorithm, key: Seq<u8>, nonce: Seq<u8>, ad: Seq<u8>, ct: Seq<u8>)
    ensures
        aead_open(a, s, key, nonce, ad, ct) is Some ==> ct.len() >= 16 && aead_open(a, s, key, nonce, ad, ct)->Some_0.len() == ct.len() - 16,
        !aead_pair_supported(a, s) ==> aead_open(a, s, key, nonce, ad, ct) is None {}
#[verifier::external_body]
pub proof fn axiom_aead_open_seal(a: AeadAlgorithm, s: SymmetricKeyAlgorithm, key: Seq<u8>, nonce: Seq<u8>, ad: Seq<u8>, pt: Seq<u8>)
    requires aead_params_exact(a, s, key, nonce)
    ensures aead_open(a, s, key, nonce, ad, aead_seal(a, s, key, nonce, ad, pt)) == Some(pt) {}

/// the key octets the primitive really uses: the first key_size(sym) octets of the `key` argument
pub open spec fn aead_used_key(s: SymmetricKeyAlgorithm, key: Seq<u8>) -> Seq<u8> { key.subrange(0, spec_key_size(s) as int) }

pub struct AeadError { pub k: u8 }
impl core::convert::From<AeadError> for errors::Error {
    #[verifier::external_body]
    fn from(e: AeadError) -> (r: errors::Error) { unimplemented!() }
}
//@trusted T3 AeadAlgorithm::encrypt_in_place(sym, key, nonce, ad, buf): each of the nine supported arms uses `&key[..key_size(sym)]` as the cipher key and `Nonce::from_slice(nonce)`; Ok => buf' == aead_seal(alg, sym, key[..key_size], nonce, ad, old buf) and the pair is supported; Err (unsupported pair, primitive refused) => buf unspecified.  decrypt_in_place likewise: Ok => aead_open(..old buf..) == Some(buf'); Err => aead_open(..) is None.  PRECONDITION (real panics): for a supported pair |key| >= key_size(sym) and |nonce| == nonce_size(alg)
impl AeadAlgorithm {
    #[verifier::external_body]
    pub fn decrypt_in_place(&self, sym_algorithm: &SymmetricKeyAlgorithm, key: &[u8], nonce: &[u8], associated_data: &[u8], buffer: &mut BytesMut) -> (r: core::result::Result<(), AeadError>)
        requires aead_pair_supported(*self, *sym_algorithm) ==> key@.len() >= spec_key_size(*sym_algorithm) && nonce@.len() == spec_nonce_size(*self),
        ensures match r {
            Ok(_) => aead_open(*self, *sym_algorithm, aead_used_key(*sym_algorithm, key@), nonce@, associated_data@, old(buffer)@) == Some(final(buffer)@) && aead_pair_supported(*self, *sym_algorithm),
            Err(_) => aead_open(*self, *sym_algorithm, aead_used_key(*sym_algorithm, key@), nonce@, associated_data@, old(buffer)@) is None,
        }
    { unimplemented!() }
    #[verifier::external_body]
    pub fn encrypt_in_place(&self, sym_algorithm: &SymmetricKeyAlgorithm, key: &[u8], nonce: &[u8], associated_data: &[u8], buffer: &mut BytesMut) -> (r: core::result::Result<(), AeadError>)
        requires aead_pair_supported(*self, *sym_algorithm) ==> key@.len() >= spec_key_size(*sym_algorithm) && nonce@.len() == spec_nonce_size(*self),
        ensures match r {
            Ok(_) => final(buffer)@ == aead_seal(*self, *sym_algorithm, aead_used_key(*sym_algorithm, key@), nonce@, associated_data@, old(buffer)@) && aead_pair_supported(*self, *sym_algorithm),
            Err(_) => true,
        }
    { unimplemented!() }
}

//@trusted T2 bytes::{BytesMut, Bytes} deref to their readable bytes as a slice; BytesMut::from(&[u8]) / Bytes -> BytesMut / BytesMut -> Bytes / to_vec keep the content
impl core::ops::Deref for BytesMut {
    type Target = [u8];
    #[verifier::external_body]
    fn deref(&self) -> (r: &[u8]) ensures r@ == self@ { unimplemented!() }
}
impl core::ops::Deref for Bytes {
    type Target = [u8];
    #[verifier::external_body]
    fn deref(&self) -> (r: &[u8]) ensures r@ == self@ { unimplemented!() }
}
impl Clone for Bytes {
    #[verifier::external_body]
    fn clone(&self) -> (r: Bytes) ensures r@ == self@ { unimplemented!() }
}
impl core::convert::From<Bytes> for BytesMut {
    #[verifier::external_body]
    fn from(b: Bytes) -> (r: BytesMut) ensures r@ == b@ { unimplemented!() }
}
impl core::convert::From<&[u8]> for BytesMut {
    #[verifier::external_body]
    fn from(b: &[u8]) -> (r: BytesMut) ensures r@ == b@ { unimplemented!() }
}
impl core::convert::From<BytesMut> for Bytes {
    #[verifier::external_body]
    fn from(b: BytesMut) -> (r: Bytes) ensures r@ == b@ { unimplemented!() }
}
impl core::convert::From<Vec<u8>> for Bytes {
    #[verifier::external_body]
    fn from(b: Vec<u8>) -> (r: Bytes) ensures r@ == b@ { unimplemented!() }
}
impl core::ops::DerefMut for BytesMut {
    #[verifier::external_body]
    fn deref_mut(&mut self) -> (r: &mut [u8]) ensures r@ == old(self)@, final(r)@ == final(self)@, final(self).requested() == old(self).requested() { unimplemented!() }
}
