// ---------------------------------------------------------------------------------
// shims/codec_take_parsing.rs - BufReadParsing::{read_u8, read_arr, rest} at Self := Take<T>,
// given as INHERENT methods of Take (method-call syntax on a Take resolves to them before the
// blanket trait impl of shims/codec_reader.rs) so that the lock step of the Take with its inner
// reader is part of their contract.  Include after shims/codec_reader.rs and shims/codec_take.rs.
// ---------------------------------------------------------------------------------
//@trusted T4 BufReadParsing::{read_u8, read_arr::<C>, rest} at Self := Take<T>: the value contracts are the generic ones of shims/codec_reader.rs (proved in U71); in addition take_rel: these default methods are generic in Self and reach the Take only through Take::{read, fill_buf, consume}, each of which advances the inner reader and lowers the limit by the same number of octets and never re-seats `inner` (proved in U60s; take_rel is reflexive and transitive), so after Ok the limit has dropped by exactly the number of octets delivered
impl<'a, T: io::BufRead> Take<'a, T> {
    #[verifier::external_body]
    pub fn read_u8(&mut self) -> (r: io::Result<u8>)
        ensures match r {
            Ok(v) => io::Read::rest(&*old(self)).len() >= 1 && v == io::Read::rest(&*old(self))[0]
                && io::Read::rest(&*final(self)) == io::Read::rest(&*old(self)).skip(1)
                && take_rel(*old(self), *final(self)) && old(self).lim() - final(self).lim() == 1,
            Err(_) => true }
    { unimplemented!() }
    #[verifier::external_body]
    pub fn read_arr<const C: usize>(&mut self) -> (r: io::Result<[u8; C]>)
        ensures match r {
            Ok(a) => io::Read::rest(&*old(self)).len() >= C && a@ == io::Read::rest(&*old(self)).subrange(0, C as int)
                && io::Read::rest(&*final(self)) == io::Read::rest(&*old(self)).skip(C as int)
                && take_rel(*old(self), *final(self)) && old(self).lim() - final(self).lim() == C,
            Err(_) => true }
    { unimplemented!() }
    #[verifier::external_body]
    pub fn rest(&mut self) -> (r: io::Result<BytesMut>)
        ensures match r {
            Ok(a) => a@ == io::Read::rest(&*old(self)) && io::Read::rest(&*final(self)).len() == 0
                && take_rel(*old(self), *final(self)) && old(self).lim() - final(self).lim() == a@.len(),
            Err(_) => true }
    { unimplemented!() }
}
/// the view of a Take as a reader: the next min(limit, available) octets of the inner reader
pub proof fn lemma_take_view<'a, T: io::Read>(a: Take<'a, T>)
    ensures io::Read::rest(&a) == a.inner_rest().subrange(0, min_nat(a.lim(), a.inner_rest().len()) as int)
{
}
