// ---------------------------------------------------------------------------------
// shims/packet_header_codec.rs - PacketHeader's constructors and codec (src/packet/header.rs) as
// *assumed* contracts for units that merely call them.  Only the clauses that were PROVED on the
// real text in units/U04_packet_header.vu are assumed; the clauses U04 shows to be false (exact
// RFC octets for a legacy header with a non-minimal length-type; tag preserved for a new-format
// Packet Type ID >= 64) are NOT.  `to_writer`/`write_len` are `impl Serialize for PacketHeader` in
// the repo; they are modelled as inherent methods (same call syntax `h.to_writer(w)`, `h.write_len()`).
// Include after lemmas/header_view.rs.
// ---------------------------------------------------------------------------------
//@trusted T4 PacketHeader::{from_parts, to_writer, write_len}: from_parts accepts exactly the representable triples and yields a well-formed header with minimal length-type; to_writer emits canon_len() octets, and exactly enc_hdr(hv) when the length-type is minimal; write_len() == canon_len() (proved in U04)
impl PacketHeader {
    #[verifier::external_body]
    pub fn from_parts(version: PacketHeaderVersion, tag: Tag, length: PacketLength) -> (r: errors::Result<Self>)
        ensures
            r is Ok <==> (match version {
                PacketHeaderVersion::Old => tag.id <= 15 && !(length is Partial),
                PacketHeaderVersion::New => new_len_ok(length) }),
            r is Ok ==> r->Ok_0.inv() && r->Ok_0.lt_canonical() && (version is New <==> r->Ok_0 is New) && hdr_len(r->Ok_0.hv()) == length,
            r is Ok && tag_fits(version, tag.id) ==> r->Ok_0.hv() == (match version {
                PacketHeaderVersion::Old => Hdr::Old { tag: tag.id, lt: old_canon_lt(length), len: length },
                PacketHeaderVersion::New => Hdr::New { tag: tag.id, len: length } }),
    { unimplemented!() }
    #[verifier::external_body]
    pub fn to_writer<W: io::Write>(&self, writer: &mut W) -> (r: errors::Result<()>)
        requires self.inv()
        ensures
            r is Ok ==> final(writer).out().len() == old(writer).out().len() + self.canon_len(),
            r is Ok && self.lt_canonical() ==> final(writer).out() == old(writer).out() + enc_hdr(self.hv()),
    { unimplemented!() }
    #[verifier::external_body]
    pub fn write_len(&self) -> (r: usize)
        requires self.inv()
        ensures r == self.canon_len()
    { unimplemented!() }
}
