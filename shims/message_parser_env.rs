// ---------------------------------------------------------------------------------
// shims/message_parser_env.rs - the environment of MessageParser (src/composed/message/parser.rs) for U49b:
// the packet source as a GHOST SEQUENCE of (tag, body) packets, and *assumed* contracts (weakest true ones) for
// everything MessageParser::{run, finish, visit_esk} call but which is not their subject:
//   PacketParser::{new, next_owned}, PacketBodyReader::{packet_header, into_inner, drain}, PacketHeader::tag,
//   Signature / OnePassSignature / Esk / Edata ::try_from_reader, LiteralDataReader::new, CompressedDataReader::new,
//   SignatureManyReader::new, esk_filter (U39), SymEncryptedProtectedDataReader::config.
// Include after the extracted `enum Tag` (+ its four payload structs), lemmas/tags.rs and shims/io_errsrc.rs (NOT shims/io.rs:
// every callee states that the errors it reports carry the ghost label from_env() / env() of that file).
// The unit extracts the REAL enums Message, SignaturePacket, Edata, ProtectedDataConfig, Config, PkeskVersion, SkeskVersion.
// ---------------------------------------------------------------------------------

//@trusted T5 every callee modelled in this file labels the errors it reports as from_env() / env() (shims/io_errsrc.rs): made by a callee, not by MessageParser
//@trusted T5 model of the packet source: a MessageReader / PacketParser<MessageReader> is modelled by the ghost sequence pkts() of the (tag, body) packets it delivers through PacketParser::next_owned (empty for a parser that is done, at end of input, and in front of octets that are no legal packet header) and by remaining(), the number of octets it still holds (finite, as in shims/io.rs); a PacketBodyReader handed out by next_owned knows the packet it delivers (pkt()), the packets that FOLLOW THE END of that packet (follow()), how many octets of the packet body have not been read yet (left()), whether it is in its sticky State::Error (errored()) and whether its source stands at the end of the packet body (at_end())
pub ghost struct GPkt { pub tag: Tag, pub body: Seq<u8> }

//@trusted T5 tight(g): the body of packet g is exactly what the per-type parser MessageParser applies to it (Signature / OnePassSignature / Esk ::try_from_reader) consumes when it answers Ok on the fresh reader of g: no body octet is left unread.  A packet that is not tight (a Signature / OPS / ESK body longer than its fields) must be rejected: MessageParser::ensure_body_consumed (real code, under contract in U49b) does that
pub uninterp spec fn tight(g: GPkt) -> bool;

#[verifier::external_body]
pub struct MessageReader<'a> { v: core::marker::PhantomData<&'a u8> }
impl<'a> MessageReader<'a> {
    pub uninterp spec fn pkts(&self) -> Seq<GPkt>;
    pub uninterp spec fn remaining(&self) -> nat;
}

//@trusted T4 PacketHeader is a plain Copy record; tag() is its accessor (src/packet/header.rs, subject of U04)
#[verifier::external_body]
pub struct PacketHeader { p: u8 }
impl Clone for PacketHeader { #[verifier::external_body] fn clone(&self) -> (r: Self) ensures r == *self { unimplemented!() } }
impl Copy for PacketHeader {}
impl PacketHeader {
    pub uninterp spec fn spec_tag(&self) -> Tag;
    #[verifier::external_body]
    pub fn tag(&self) -> (r: Tag) ensures r == self.spec_tag() { unimplemented!() }
}

#[verifier::external_body]
#[verifier::accept_recursive_types(R)]
pub struct PacketBodyReader<R> { v: core::marker::PhantomData<R> }
impl<'a> PacketBodyReader<MessageReader<'a>> {
    pub uninterp spec fn header(&self) -> PacketHeader;
    /// the packet this reader delivers (static)
    pub uninterp spec fn pkt(&self) -> GPkt;
    /// the packets that follow the END of this packet in the source (static)
    pub uninterp spec fn follow(&self) -> Seq<GPkt>;
    /// octets the underlying source still holds (body octets not yet pulled + everything behind the packet)
    pub uninterp spec fn remaining(&self) -> nat;
    /// octets of this packet's body that have not been read yet (bodies are shorter than 2^64 octets)
    pub uninterp spec fn left(&self) -> nat;
    /// State::Error (sticky; into_inner / get_mut / consume panic in it)
    pub uninterp spec fn errored(&self) -> bool;
    /// the underlying source stands exactly at the end of this packet's body
    pub uninterp spec fn at_end(&self) -> bool;

    //@trusted T4 PacketBodyReader::packet_header returns the header the reader was built with (a field read, src/composed/message/reader/packet_body.rs:157)
    #[verifier::external_body]
    pub fn packet_header(&self) -> (r: PacketHeader) ensures r == self.header() { unimplemented!() }

    //@trusted T4 PacketBodyReader::into_inner (packet_body.rs:141) PANICS in State::Error (hence `requires !errored()`: a C04 obligation at every call); otherwise it hands back the source where it stands and DROPS what is buffered: only on a body that was read to its end are the packets that follow delivered next.  `requires at_end()` is the C17 obligation of this unit at every call site: into_inner is only ever called on an exhausted body
    #[verifier::external_body]
    pub fn into_inner(self) -> (r: MessageReader<'a>)
        requires
            !self.errored(),
            self.at_end(),
        ensures
            r.pkts() == self.follow(),
            r.remaining() <= self.remaining(),
    { unimplemented!() }

    //@trusted T4 BufReadParsing::drain on a PacketBodyReader (proved in U45): Ok(n) means the n octets of the body that were still unread have been read, the reader is in State::Done (not Error) and the source stands at the end of the packet; Err (reported by the source / the framing) leaves the reader in its error state; nothing is pushed back into the source
    #[verifier::external_body]
    pub fn drain(&mut self) -> (r: io::Result<u64>)
        ensures
            final(self).header() == old(self).header(), final(self).pkt() == old(self).pkt(), final(self).follow() == old(self).follow(),
            final(self).remaining() <= old(self).remaining(),
            r matches Ok(n) ==> n as nat == old(self).left() && final(self).left() == 0 && !final(self).errored() && final(self).at_end(),
            r matches Err(e) ==> e.env(),
    { unimplemented!() }

    // the remaining accessors of the real type (not used by the code under contract; no postcondition)
    #[verifier::external_body]
    pub fn is_done(&self) -> bool { unimplemented!() }
    #[verifier::external_body]
    pub fn get_mut(&mut self) -> (r: &mut MessageReader<'a>) requires !old(self).errored() { unimplemented!() }
    #[verifier::external_body]
    pub fn new_done(packet_header: PacketHeader, source: MessageReader<'a>) -> Self { unimplemented!() }
}

pub mod packet {
    use super::*;
    #[verifier::external_body]
    #[verifier::accept_recursive_types(R)]
    pub struct PacketParser<R> { v: core::marker::PhantomData<R> }
    impl<'a> PacketParser<MessageReader<'a>> {
        /// the packets this parser (and the parsers built on what it hands back) delivers
        pub uninterp spec fn pkts(&self) -> Seq<GPkt>;
        pub uninterp spec fn remaining(&self) -> nat;

        //@trusted T4 PacketParser::new(source) (src/packet/many.rs:20) wraps the source, not done: it delivers what the source holds
        #[verifier::external_body]
        pub fn new(source: MessageReader<'a>) -> (r: Self)
            ensures r.pkts() == source.pkts(), r.remaining() == source.remaining()
        { unimplemented!() }

        //@trusted T4 PacketParser::next_owned (src/packet/many.rs:92; `mut self` receiver, not under contract in U46): None only from a parser that has nothing to deliver (done); Some(Ok(p)) is the reader for the FIRST packet of pkts(): its header carries that packet's tag, it is fresh (not in State::Error, nothing of the body read), at least the header octets have left the source, and what follows the packet's end is the rest of pkts(); Some(Err) (no legal header / illegal partial length / source error): nothing is assumed
        #[verifier::external_body]
        pub fn next_owned(self) -> (r: Option<Result<PacketBodyReader<MessageReader<'a>>>>)
            ensures
                r is None ==> self.pkts().len() == 0,
                r matches Some(Ok(p)) ==> {
                    &&& self.pkts().len() > 0
                    &&& p.pkt() == self.pkts()[0]
                    &&& p.follow() == self.pkts().skip(1)
                    &&& p.header().spec_tag() == p.pkt().tag
                    &&& !p.errored()
                    &&& p.left() == p.pkt().body.len()
                    &&& p.remaining() < self.remaining()
                },
                r matches Some(Err(e)) ==> e.from_env(),
        { unimplemented!() }

        #[verifier::external_body]
        pub fn into_inner(self) -> (r: MessageReader<'a>) { unimplemented!() }
    }

    //@trusted T4 Signature::try_from_reader / OnePassSignature::try_from_reader (src/packet/signature/de.rs:30, one_pass_signature.rs:188) at B := &mut PacketBodyReader<MessageReader>: they only READ from the body reader (nothing is pushed back); Ok means every read they issued succeeded, so the reader is not in its error state; they do NOT drain: called on the fresh reader of a packet, Ok leaves no body octet unread exactly if the packet is tight() (the definition of tight)
    #[verifier::external_body]
    pub struct Signature { v: u8 }
    #[verifier::external_body]
    pub struct OnePassSignature { v: u8 }
    impl Signature {
        #[verifier::external_body]
        pub fn try_from_reader<'a>(packet_header: PacketHeader, i: &mut PacketBodyReader<MessageReader<'a>>) -> (r: Result<Signature>)
            ensures
                final(i).header() == old(i).header(), final(i).pkt() == old(i).pkt(), final(i).follow() == old(i).follow(),
                final(i).remaining() <= old(i).remaining(),
                r is Ok ==> !final(i).errored(),
                final(i).left() <= old(i).left(),
                r is Ok && old(i).left() == old(i).pkt().body.len() ==> (final(i).left() == 0 <==> tight(old(i).pkt())),
                r matches Err(e) ==> e.from_env(),
        { unimplemented!() }
    }
    impl OnePassSignature {
        #[verifier::external_body]
        pub fn try_from_reader<'a>(packet_header: PacketHeader, i: &mut PacketBodyReader<MessageReader<'a>>) -> (r: Result<OnePassSignature>)
            ensures
                final(i).header() == old(i).header(), final(i).pkt() == old(i).pkt(), final(i).follow() == old(i).follow(),
                final(i).remaining() <= old(i).remaining(),
                r is Ok ==> !final(i).errored(),
                final(i).left() <= old(i).left(),
                r is Ok && old(i).left() == old(i).pkt().body.len() ==> (final(i).left() == 0 <==> tight(old(i).pkt())),
                r matches Err(e) ==> e.from_env(),
        { unimplemented!() }
    }
}

//@trusted T4 Esk::try_from_reader (src/composed/message/types.rs:432) dispatches on the tag of the reader's header and hits `unreachable!` for any tag other than PKESK (1) / SKESK (3) (hence the `requires`: a C04 obligation at every call); otherwise as Signature::try_from_reader: reads only, Ok implies the reader is not in its error state, no drain
#[verifier::external_body]
pub struct Esk { v: u8 }
impl Esk {
    #[verifier::external_body]
    pub fn try_from_reader<'a>(packet: &mut PacketBodyReader<MessageReader<'a>>) -> (r: Result<Esk>)
        requires old(packet).header().spec_tag() is PublicKeyEncryptedSessionKey || old(packet).header().spec_tag() is SymKeyEncryptedSessionKey
        ensures
            final(packet).header() == old(packet).header(), final(packet).pkt() == old(packet).pkt(), final(packet).follow() == old(packet).follow(),
            final(packet).remaining() <= old(packet).remaining(),
            r is Ok ==> !final(packet).errored(),
            final(packet).left() <= old(packet).left(),
            r is Ok && old(packet).left() == old(packet).pkt().body.len() ==> (final(packet).left() == 0 <==> tight(old(packet).pkt())),
            r matches Err(e) ==> e.from_env(),
    { unimplemented!() }
    #[verifier::external_body]
    pub fn tag(&self) -> Tag { unimplemented!() }
}

//@trusted T7 GnupgAeadDataConfig (packet/gnupg_aead.rs Config) and the two container readers are opaque values; SymEncryptedProtectedDataReader::config() (reader/sym_encrypted_protected.rs:212, body `&self.config`) is a pure getter
#[verifier::external_body] pub struct GnupgAeadDataConfig { v: u8 }
#[verifier::external_body]
#[verifier::accept_recursive_types(R)]
pub struct SymEncryptedDataReader<R> { v: core::marker::PhantomData<R> }
#[verifier::external_body]
#[verifier::accept_recursive_types(R)]
pub struct SymEncryptedProtectedDataReader<R> { v: core::marker::PhantomData<R> }
impl<R> SymEncryptedProtectedDataReader<R> {
    pub uninterp spec fn spec_config(&self) -> ProtectedDataConfig;
    #[verifier::external_body]
    pub fn config(&self) -> (r: &ProtectedDataConfig) ensures *r == self.spec_config() { unimplemented!() }
}

//@trusted T4 Edata::try_from_reader (src/composed/message/types.rs:616) dispatches on the tag of the reader's header and hits `unreachable!` for any tag other than SED (9) / SEIPD (18) / GnuPG AEAD (20) (hence the `requires`: a C04 obligation at every call); the variant built is the one of that tag, and the reader of a SEIPD / GnuPG AEAD container has a configuration of its own kind
impl<'a> Edata<'a> {
    #[verifier::external_body]
    pub fn try_from_reader(reader: PacketBodyReader<MessageReader<'a>>) -> (r: Result<Edata<'a>>)
        requires reader.header().spec_tag() is SymEncryptedData || reader.header().spec_tag() is SymEncryptedProtectedData || reader.header().spec_tag() is GnupgAeadData
        ensures
            r matches Ok(e) ==> (e is SymEncryptedData <==> reader.header().spec_tag() is SymEncryptedData)
                && (e is SymEncryptedProtectedData <==> reader.header().spec_tag() is SymEncryptedProtectedData)
                && (e is GnupgAeadData <==> reader.header().spec_tag() is GnupgAeadData),
            // SymEncryptedProtectedDataReader::new builds ProtectedDataConfig::Seipd(..), ::new_gnupg_aead builds ProtectedDataConfig::GnupgAead(..)
            // (reader/sym_encrypted_protected.rs:37 / :51)
            r matches Ok(Edata::SymEncryptedProtectedData { reader: rd }) ==> rd.spec_config() is Seipd,
            r matches Ok(Edata::GnupgAeadData { reader: rd }) ==> rd.spec_config() is GnupgAead,
            r matches Err(e) ==> e.from_env(),
    { unimplemented!() }
}

//@trusted T4 esk_filter (src/composed/message/parser.rs:294) is the subject of U39 (returns the order-preserving sub-list of the aligned ESKs); nothing about its result is needed here
#[verifier::external_body]
pub fn esk_filter(esk: Vec<Esk>, pkesk_allowed: PkeskVersion, skesk_allowed: &[SkeskVersion]) -> (r: Vec<Esk>) { unimplemented!() }

//@trusted T4 LiteralDataReader::new (reader/literal.rs:34, U74) and CompressedDataReader::new (reader/compressed.rs:29, U27) start with debug_assert_eq!(tag, LiteralData / CompressedData) (hence the `requires`: R5 makes a debug_assert an obligation of the caller); nothing is assumed about their result
#[verifier::external_body]
#[verifier::accept_recursive_types(R)]
pub struct LiteralDataReader<R> { v: core::marker::PhantomData<R> }
#[verifier::external_body]
#[verifier::accept_recursive_types(R)]
pub struct CompressedDataReader<R> { v: core::marker::PhantomData<R> }
impl<'a> LiteralDataReader<MessageReader<'a>> {
    #[verifier::external_body]
    pub fn new(source: PacketBodyReader<MessageReader<'a>>) -> (r: io::Result<Self>)
        requires source.header().spec_tag() is LiteralData
        ensures r matches Err(e) ==> e.env()
    { unimplemented!() }
}
impl<'a> CompressedDataReader<MessageReader<'a>> {
    #[verifier::external_body]
    pub fn new(source: PacketBodyReader<MessageReader<'a>>, decompress: bool) -> (r: io::Result<Self>)
        requires source.header().spec_tag() is CompressedData
        ensures r matches Err(e) ==> e.env()
    { unimplemented!() }
}

//@trusted T4 SignatureManyReader::new(packets, source) (reader/signed_many.rs:139; not under contract in U25: iterator chain) stores the signature packets and the boxed inner message unchanged (Self::Init { packets, hashers, source }); sigs() / inner() name them
#[verifier::external_body]
pub struct SignatureManyReader<'a> { v: core::marker::PhantomData<&'a u8> }
impl<'a> SignatureManyReader<'a> {
    pub uninterp spec fn sigs(&self) -> Seq<SignaturePacket>;
    pub uninterp spec fn inner(&self) -> Message<'a>;
    #[verifier::external_body]
    pub fn new(packets: Vec<SignaturePacket>, source: Box<Message<'a>>) -> (r: Result<Self>)
        ensures
            r matches Ok(rd) ==> rd.sigs() == packets@ && rd.inner() == *source,
            r matches Err(e) ==> e.from_env(),
    { unimplemented!() }
}
