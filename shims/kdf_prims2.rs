// ---------------------------------------------------------------------------------
// shims/kdf_prims2.rs - shims/kdf_prims.rs brought up to date with /repo commit "fix: aes_kw::unwrap
// must reject input shorter than the integrity check value": crate::crypto::aes_kw::unwrap has NO
// precondition any more (it returns Err for |data| < 8; the units that include this file extract the
// real first statement of `unwrap` and verify exactly that, see `mod aes_kw_unwrap_env` below).
// Everything else is identical to shims/kdf_prims.rs; never include both.
// Assumed contracts for the primitives below the KDF / key-wrap layouts of
// RFC 9580 11.5 (ECDH), 5.1.6 / 5.1.7 (X25519 / X448), 5.3.2 (SKESK v6) and 3.7.2.1 (secret-key
// AEAD): the hash used by the ECDH KDF, RFC 3394 AES key wrap, RFC 5869 HKDF (with and without
// salt, SHA-256 and SHA-512), zeroize::Zeroizing, and a few std items vstd does not specify.
// Include AFTER shims/io.rs inside verus!{}.  Do NOT combine with shims/aead.rs, shims/cfb.rs or
// shims/secret_kdf.rs (they define their own `hkdf` / `Zeroizing`); the AEAD model that goes with
// this file is shims/kdf_aead.rs.
// The including unit must start with `#![feature(allocator_api)]`.
// Cryptography is NOT verified: every primitive is an uninterpreted function of its inputs; the
// units verify the byte strings rpgp feeds into them and what it does with the outputs.
// ---------------------------------------------------------------------------------

// ---- zeroize::Zeroizing ------------------------------------------------------------------
//@trusted T2 zeroize::Zeroizing<T> is a transparent wrapper: new/Deref/DerefMut give access to the wrapped value (zeroisation on drop is not modelled)
pub struct Zeroizing<T>(pub T);
impl<T> Zeroizing<T> {
    pub fn new(t: T) -> (r: Zeroizing<T>) ensures r.0 == t { Zeroizing(t) }
}
impl<T> core::ops::Deref for Zeroizing<T> {
    type Target = T;
    fn deref(&self) -> (r: &T) ensures *r == self.0 { &self.0 }
}
impl<T> core::ops::DerefMut for Zeroizing<T> {
    fn deref_mut(&mut self) -> (r: &mut T) ensures *r == old(self).0, *final(r) == final(self).0 { &mut self.0 }
}

// ---- the hash of the ECDH KDF (RFC 9580 11.5: "Hash" is the KDF hash function of the key) -------
//@trusted T3 kdf_hash(id, data) is an uninterpreted function: the digest of data under the hash algorithm with RFC 9580 9.5 id `id`; its length is kdf_hash_len(id) (MD5 16, SHA-1/RIPEMD 20, SHA2-256 32, -384 48, -512 64, -224 28, SHA3-256 32, SHA3-512 64)
pub uninterp spec fn kdf_hash(hash_id: u8, data: Seq<u8>) -> Seq<u8>;
pub open spec fn kdf_hash_len(hash_id: u8) -> nat {
    if hash_id == 1 { 16 } else if hash_id == 2 { 20 } else if hash_id == 3 { 20 } else if hash_id == 8 { 32 }
    else if hash_id == 9 { 48 } else if hash_id == 10 { 64 } else if hash_id == 11 { 28 } else if hash_id == 12 { 32 }
    else if hash_id == 14 { 64 } else { 0 }
}
#[verifier::external_body]
pub proof fn axiom_kdf_hash_len(hash_id: u8, data: Seq<u8>)
    ensures kdf_hash(hash_id, data).len() == kdf_hash_len(hash_id) {}

// ---- RFC 3394 AES key wrap ------------------------------------------------------------------
//@trusted T3 aes_kw_wrap(kek, data) / aes_kw_unwrap(kek, data) are uninterpreted (RFC 3394 with the default IV); wrap is defined for |kek| in {16,24,32} and |data| a positive multiple of 8 (the aes-kw crate refuses anything else) and adds 8 octets; unwrap(wrap(x)) == Some(x); Some(x) from unwrap implies |data| == |x| + 8.  Integrity (no other input unwraps) is NOT assumed
pub uninterp spec fn aes_kw_wrap(kek: Seq<u8>, data: Seq<u8>) -> Seq<u8>;
pub uninterp spec fn aes_kw_unwrap(kek: Seq<u8>, data: Seq<u8>) -> Option<Seq<u8>>;
pub open spec fn aes_kw_kek_ok(kek: Seq<u8>) -> bool { kek.len() == 16 || kek.len() == 24 || kek.len() == 32 }
#[verifier::external_body]
pub proof fn axiom_aes_kw_roundtrip(kek: Seq<u8>, data: Seq<u8>)
    requires aes_kw_kek_ok(kek), data.len() % 8 == 0, data.len() >= 16
    ensures aes_kw_wrap(kek, data).len() == data.len() + 8, aes_kw_unwrap(kek, aes_kw_wrap(kek, data)) == Some(data) {}
#[verifier::external_body]
pub proof fn axiom_aes_kw_unwrap_len(kek: Seq<u8>, data: Seq<u8>)
    ensures aes_kw_unwrap(kek, data) is Some ==> aes_kw_kek_ok(kek) && data.len() >= 24 && data.len() % 8 == 0 && aes_kw_unwrap(kek, data)->Some_0.len() + 8 == data.len() {}

//@trusted T3 crate::crypto::aes_kw::wrap(key, data): Ok(c) iff the aes-kw crate accepts (|key| in {16,24,32}, |data| a multiple of 8 and >= 16), and then c == aes_kw_wrap(key, data).  crate::crypto::aes_kw::unwrap(key, data): total (no precondition: for |data| < 8 its first statement `data.len().checked_sub(IV_LEN)`, IV_LEN = 8, returns Err; units U90 / U93 extract that statement and verify it); Ok(x) iff aes_kw_unwrap(key, data) == Some(x), and |data| < 8 gives Err
pub mod aes_kw {
    use super::*;
    pub struct Error { pub k: u8 }
    #[verifier::external_body]
    pub fn wrap(key: &[u8], data: &[u8]) -> (r: core::result::Result<Vec<u8>, Error>)
        ensures match r {
            Ok(c) => aes_kw_kek_ok(key@) && data@.len() % 8 == 0 && data@.len() >= 16 && c@ == aes_kw_wrap(key@, data@),
            Err(_) => !(aes_kw_kek_ok(key@) && data@.len() % 8 == 0 && data@.len() >= 16) }
    { unimplemented!() }
    #[verifier::external_body]
    pub fn unwrap(key: &[u8], data: &[u8]) -> (r: core::result::Result<Zeroizing<Vec<u8>>, Error>)
        ensures
            match r {
                Ok(x) => aes_kw_unwrap(key@, data@) == Some(x.0@),
                Err(_) => aes_kw_unwrap(key@, data@) is None },
            data@.len() < 8 ==> r is Err,
    { unimplemented!() }
}
//@trusted T2 names used by the first statement of crate::crypto::aes_kw::unwrap (extracted verbatim by the units): inside src/crypto/aes_kw.rs `aes_kw` is the aes-kw crate, whose Error::InvalidDataSize is an error value; snafu's ResultExt::context(UnwrapSnafu) keeps Ok(v) and turns Err(e) into Err(Error::Unwrap { source: e }) of the file's own error type
pub mod aes_kw_unwrap_env {
    pub use super::aes_kw::Error;
    pub mod aes_kw {
        pub enum Error { InvalidDataSize, InvalidKekSize { size: usize }, InvalidOutputSize { expected: usize }, IntegrityCheckFailed }
    }
    pub struct UnwrapSnafu;
    pub trait ResultExt<T>: Sized {
        spec fn ok_value(self) -> Option<T>;
        fn context(self, c: UnwrapSnafu) -> (r: core::result::Result<T, Error>)
            ensures
                r is Ok <==> self.ok_value() is Some,
                r matches Ok(v) ==> self.ok_value() == Some(v);
    }
    impl<T> ResultExt<T> for core::result::Result<T, aes_kw::Error> {
        open spec fn ok_value(self) -> Option<T> { match self { Ok(v) => Some(v), Err(_) => None } }
        #[verifier::external_body]
        fn context(self, c: UnwrapSnafu) -> (r: core::result::Result<T, Error>) { unimplemented!() }
    }
}
impl core::convert::From<aes_kw::Error> for errors::Error {
    #[verifier::external_body]
    fn from(e: aes_kw::Error) -> (r: errors::Error) { unimplemented!() }
}

// ---- RFC 5869 HKDF ------------------------------------------------------------------------------
//@trusted T3 hkdf_okm(h, salt, ikm, info, n) is an uninterpreted function returning n octets: HKDF-Expand(HKDF-Extract(salt, ikm), info, n) with HMAC-h, h = 0 for SHA-256 and 1 for SHA-512; salt == None is "no salt" (RFC 5869: HashLen zero octets); its output for n' <= n is the n'-octet prefix (HKDF-Expand truncates T(1)|T(2)|..)
pub uninterp spec fn hkdf_okm(h: int, salt: Option<Seq<u8>>, ikm: Seq<u8>, info: Seq<u8>, n: nat) -> Seq<u8>;
pub open spec fn hkdf_sha256_id() -> int { 0 }
pub open spec fn hkdf_sha512_id() -> int { 1 }
#[verifier::external_body]
pub proof fn axiom_hkdf_okm_len(h: int, salt: Option<Seq<u8>>, ikm: Seq<u8>, info: Seq<u8>, n: nat)
    ensures hkdf_okm(h, salt, ikm, info, n).len() == n {}
#[verifier::external_body]
pub proof fn axiom_hkdf_okm_prefix(h: int, salt: Option<Seq<u8>>, ikm: Seq<u8>, info: Seq<u8>, n: nat, m: nat)
    requires m <= n
    ensures hkdf_okm(h, salt, ikm, info, n).subrange(0, m as int) == hkdf_okm(h, salt, ikm, info, m) {}

//@trusted T2 sha2::{Sha256, Sha512} are used only as type parameters of hkdf::{Hkdf, HkdfExtract}; HkdfHash::id() names the hash (0 / 1) and out_len() its output size (32 / 64)
pub trait HkdfHash {
    spec fn id() -> int;
    spec fn out_len() -> nat;
}
pub struct Sha256;
pub struct Sha512;
impl HkdfHash for Sha256 { open spec fn id() -> int { 0 } open spec fn out_len() -> nat { 32 } }
impl HkdfHash for Sha512 { open spec fn id() -> int { 1 } open spec fn out_len() -> nat { 64 } }

//@trusted T2 hkdf 0.12: Hkdf::<H>::new(salt, ikm) stores (salt, ikm); HkdfExtract::<H>::new(salt) starts with empty ikm, input_ikm(x) appends x to the ikm (HMAC is fed incrementally), finalize() returns (prk, Hkdf) for (salt, all ikm fed); expand(info, okm) is Ok exactly for |okm| <= 255 * HashLen and then fills okm with hkdf_okm(H, salt, ikm, info, |okm|)
pub mod hkdf {
    use super::*;
    #[derive(Debug)]
    pub struct InvalidLength;
    #[verifier::external_body]
    #[verifier::reject_recursive_types(H)]
    pub struct Hkdf<H> { h: core::marker::PhantomData<H> }
    impl<H: HkdfHash> Hkdf<H> {
        pub uninterp spec fn salt(&self) -> Option<Seq<u8>>;
        pub uninterp spec fn ikm(&self) -> Seq<u8>;
        #[verifier::external_body]
        pub fn new(salt: Option<&[u8]>, ikm: &[u8]) -> (r: Hkdf<H>)
            ensures r.salt() == (match salt { Some(s) => Some(s@), None => None::<Seq<u8>> }), r.ikm() == ikm@
        { unimplemented!() }
        #[verifier::external_body]
        pub fn expand(&self, info: &[u8], okm: &mut [u8]) -> (r: core::result::Result<(), InvalidLength>)
            ensures
                final(okm)@.len() == old(okm)@.len(),
                r is Ok <==> old(okm)@.len() <= 255 * H::out_len(),
                r is Ok ==> final(okm)@ == hkdf_okm(H::id(), self.salt(), self.ikm(), info@, old(okm)@.len()),
        { unimplemented!() }
    }
    #[verifier::external_body]
    #[verifier::reject_recursive_types(H)]
    pub struct HkdfExtract<H> { h: core::marker::PhantomData<H> }
    #[verifier::external_body]
    #[verifier::reject_recursive_types(H)]
    pub struct Prk<H> { h: core::marker::PhantomData<H> }
    impl<H: HkdfHash> HkdfExtract<H> {
        pub uninterp spec fn salt(&self) -> Option<Seq<u8>>;
        pub uninterp spec fn ikm(&self) -> Seq<u8>;
        #[verifier::external_body]
        pub fn new(salt: Option<&[u8]>) -> (r: HkdfExtract<H>)
            ensures r.salt() == (match salt { Some(s) => Some(s@), None => None::<Seq<u8>> }), r.ikm() == Seq::<u8>::empty()
        { unimplemented!() }
        #[verifier::external_body]
        pub fn input_ikm(&mut self, ikm: &[u8])
            ensures final(self).salt() == old(self).salt(), final(self).ikm() == old(self).ikm() + ikm@
        { unimplemented!() }
        #[verifier::external_body]
        pub fn finalize(self) -> (r: (Prk<H>, Hkdf<H>))
            ensures r.1.salt() == self.salt(), r.1.ikm() == self.ikm()
        { unimplemented!() }
    }
}

// ---- std items without a usable vstd specification ------------------------------------------
//@trusted T2 <[&[u8]]>::concat() is the concatenation of the slices in order (call sites `values.concat()` on a Vec<&[u8]> are rewritten to `concat_slices(&values)`: vstd cannot attach a specification to the generic `Concat` machinery)
pub open spec fn concat_all(parts: Seq<&[u8]>) -> Seq<u8>
    decreases parts.len()
{
    if parts.len() == 0 { Seq::<u8>::empty() } else { concat_all(parts.drop_last()) + parts.last()@ }
}
#[verifier::external_body]
pub fn concat_slices(parts: &Vec<&[u8]>) -> (r: Vec<u8>)
    ensures r@ == concat_all(parts@)
{ parts.concat() }

//@trusted T2 <[T]>::to_vec clones the elements into a new Vec of the same length
pub assume_specification<T: Clone>[ <[T]>::to_vec ](s: &[T]) -> (r: Vec<T>)
    ensures r@.len() == s@.len(), forall|i: int| 0 <= i < s@.len() ==> cloned::<T>(#[trigger] s@[i], r@[i]);

//@trusted T2 `vec[range]` as a place (IndexMut on Vec) is the same as on the underlying slice (alloc: `IndexMut::index_mut(&mut **self, index)`); vstd only specifies the slice/array impls
pub assume_specification<T, I: core::slice::SliceIndex<[T]>, A: core::alloc::Allocator>[ <Vec<T, A> as core::ops::IndexMut<I>>::index_mut ](v: &mut Vec<T, A>, index: I) -> (output: &mut <Vec<T, A> as core::ops::Index<I>>::Output)
    ensures exists|slice: &mut [T]| #[trigger] slice@ == old(v)@ && final(slice)@ == final(v)@ && call_ensures(<[T] as core::ops::IndexMut<I>>::index_mut, (slice, index), output);

//@trusted T2 a slice is never longer than isize::MAX bytes (Rust reference, slice layout)
#[verifier::external_body]
pub proof fn axiom_slice_len_bound(s: &[u8])
    ensures s@.len() <= isize::MAX
{}
