// ---------------------------------------------------------------------------------
// shims/codec_header.rs - PacketHeader::new_fixed for the packet constructors of the codec units.
// Include after shims/codec_sigtypes.rs (opaque PacketHeader) and after the extracted `enum Tag`.
// ---------------------------------------------------------------------------------
//@trusted T4 PacketHeader::new_fixed(tag, n) (src/packet/header.rs:152) is the new-format header with that tag and PacketLength::Fixed(n); ph_tag / ph_fixed_len read them back (the header codec itself is proved in U04)
impl PacketHeader {
    pub uninterp spec fn ph_tag(&self) -> Tag;
    /// Some(n) for PacketLength::Fixed(n), None for partial / indeterminate lengths
    pub uninterp spec fn ph_fixed_len(&self) -> Option<u32>;
    #[verifier::external_body]
    pub fn tag(&self) -> (r: Tag) ensures r == self.ph_tag() { unimplemented!() }
    #[verifier::external_body]
    pub fn new_fixed(tag: Tag, length: u32) -> (r: PacketHeader)
        ensures r.ph_tag() == tag, r.ph_fixed_len() == Some(length), r.ph_version() is New
    { unimplemented!() }
}
