// ---------------------------------------------------------------------------------
// shims/keygen_builder.rs - what unit U95b (SecretKeyParamsBuilder::validate) assumes about code that is not its subject.
// Include after shims/io.rs and after the extraction of the real KeyVersion (+ shims/keyversion_ord.rs), inside verus!{}.
// ---------------------------------------------------------------------------------

//@trusted T7 const_oid::ObjectIdentifier, Timestamp, S2kParams, PacketHeaderVersion, UserAttribute, SymmetricKeyAlgorithm, HashAlgorithm, CompressionAlgorithm, AeadAlgorithm, SmallVec are opaque values here (validate never looks into them)
#[verifier::external_body] pub struct ObjectIdentifier { v: u8 }
#[verifier::external_body] pub struct Timestamp { v: u32 }
#[verifier::external_body] pub struct S2kParams { v: u8 }
#[verifier::external_body] pub struct UserAttribute { v: u8 }
#[verifier::external_body] pub struct SymmetricKeyAlgorithm { v: u8 }
#[verifier::external_body] pub struct HashAlgorithm { v: u8 }
#[verifier::external_body] pub struct CompressionAlgorithm { v: u8 }
#[verifier::external_body] pub struct AeadAlgorithm { v: u8 }
#[verifier::external_body] #[verifier::reject_recursive_types(A)] pub struct SmallVec<A> { v: Vec<A> }
pub mod types {
    #[allow(unused_imports)] use super::*;
    pub use super::KeyVersion;
    #[verifier::external_body] pub struct PacketHeaderVersion { v: u8 }
}

//@trusted T2 the error strings validate builds with format!(..) / "..".into() are opaque (only the occurrence of the error is modelled, as rule R4 does for the crate's error macros)
#[verifier::external_body]
pub fn opaque_msg() -> (r: String) { unimplemented!() }

//@trusted T2 `o.iter().flatten()` over an Option<Vec<T>> yields the elements of the vector if there is one, nothing otherwise, in order (std: option::Iter yields 0 or 1 references, Flatten chains their IntoIterator)
pub fn opt_vec_flatten<T>(o: &Option<Vec<T>>) -> (r: &[T])
    ensures r@ == (match *o { Some(v) => v@, None => Seq::<T>::empty() })
{
    match o {
        Some(v) => v.as_slice(),
        None => &[],
    }
}

//@trusted T2 derive(PartialEq) on EncryptionCaps compares values; #[derive(Default)] with #[default] on EncryptionCaps::None makes None the default; Option::unwrap_or_default is `match o { Some(v) => v, None => Default::default() }` (std); the Default of KeyVersion is REAL code in the unit (types/packet.rs:441)
impl vstd::std_specs::cmp::PartialEqSpecImpl for EncryptionCaps {
    open spec fn obeys_eq_spec() -> bool { true }
    open spec fn eq_spec(&self, o: &EncryptionCaps) -> bool { *self == *o }
}
/// std::default::Default as the unit sees it: the default value is a specified constant
pub trait HasDefault: Sized {
    spec fn spec_default() -> Self;
    fn default() -> (r: Self) ensures r == Self::spec_default();
}
impl HasDefault for EncryptionCaps {
    open spec fn spec_default() -> EncryptionCaps { EncryptionCaps::None }
    fn default() -> (r: EncryptionCaps) { EncryptionCaps::None }
}
pub fn opt_unwrap_or_default<T: HasDefault>(o: Option<T>) -> (r: T)
    ensures r == (match o { Some(v) => v, None => T::spec_default() })
{
    match o { Some(v) => v, None => T::default() }
}
