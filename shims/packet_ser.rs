// ---------------------------------------------------------------------------------
// shims/packet_ser.rs - assumed contracts for the callees of the partial-body emitters (U08, U08b):
// util::fill_buffer, PacketHeader::{from_parts, new_fixed, to_writer}, PacketLength::to_writer_new.
// Include after shims/io.rs, shims/bytes_writer.rs, the extracted enums PacketLength, Tag (+ lemmas/tags.rs),
// PacketHeaderVersion, and lemmas/framing.rs.
// ---------------------------------------------------------------------------------
#[verifier::external]
impl core::fmt::Debug for errors::Error {
    fn fmt(&self, f: &mut core::fmt::Formatter<'_>) -> core::fmt::Result { Ok(()) }
}
impl io::Error {
    //@trusted T2 io::Error::other(e) (used as a function value in `.map_err(io::Error::other)`) yields an opaque error of kind Other
    #[verifier::external_body]
    pub fn other<E>(e: E) -> (r: io::Error) ensures r.k == io::ErrorKind::Other { unimplemented!() }
}

pub open spec fn min_int(a: int, b: int) -> int { if a <= b { a } else { b } }
pub open spec fn chunk_of_opt(chunk_size: Option<usize>, buflen: int) -> int {
    match chunk_size { Some(c) => c as int, None => buflen }
}
/// an abstract attribute of a reader value that reading from it does not change (e.g. configuration fixed at
/// construction); what it is for a concrete reader type is said by that type's shim
pub uninterp spec fn read_invariant<R>(r: R) -> int;

//@trusted T4 util::fill_buffer touches its source only through Read::read, hence leaves every read-invariant attribute (read_invariant) of the source unchanged
//@trusted T4 util::fill_buffer at R := &mut R0: Ok(n) with n == min(chunk, |rest|), the first n octets of the buffer are the next n octets of the source, the source has advanced by n; Err: the source failed (proved in U70 by_ref) (for sources honouring std's error contract, std_err(); proved under that precondition)
#[verifier::external_body]
pub fn fill_buffer<R: io::Read>(source: &mut R, buffer: &mut [u8], chunk_size: Option<usize>) -> (r: io::Result<usize>)
    requires
        chunk_of_opt(chunk_size, old(buffer)@.len() as int) <= old(buffer)@.len(),
    ensures
        final(buffer)@.len() == old(buffer)@.len(),
        match r {
            Ok(n) => {
                let chunk = chunk_of_opt(chunk_size, old(buffer)@.len() as int);
                &&& n as int == min_int(chunk, old(source).rest().len() as int)
                &&& final(buffer)@.subrange(0, n as int) == old(source).rest().subrange(0, n as int)
                &&& final(buffer)@.subrange(n as int, old(buffer)@.len() as int) == old(buffer)@.subrange(n as int, old(buffer)@.len() as int)
            },
            Err(_) => true,
        },
        r is Ok ==> (*final(source)).rest() == old(source).rest().skip(r->Ok_0 as int),
        read_invariant(*final(source)) == read_invariant(*old(source)),
{ unimplemented!() }

//@trusted T4 PacketHeader (src/packet/header.rs): from_parts(New, tag, len) succeeds iff len exists in the new format (Fixed, or Partial(2^k) with k <= 30) and then denotes Hdr::New{tag, len}; new_fixed likewise; to_writer appends enc_hdr of it (proved in U04); to_writer has no error source other than the sink
#[verifier::external_body]
pub struct PacketHeader { p: u8 }
impl PacketHeader {
    pub uninterp spec fn hv(&self) -> Hdr;
    #[verifier::external_body]
    pub fn from_parts(version: PacketHeaderVersion, tag: Tag, length: PacketLength) -> (r: errors::Result<PacketHeader>)
        ensures
            version is New ==> (r is Ok <==> new_len_ok(length)),
            version is New && r is Ok && tag_id(tag) < 64 ==> r->Ok_0.hv() == (Hdr::New { tag: tag_id(tag), len: length }),
    { unimplemented!() }
    #[verifier::external_body]
    pub fn new_fixed(tag: Tag, length: u32) -> (r: PacketHeader)
        ensures tag_id(tag) < 64 ==> r.hv() == (Hdr::New { tag: tag_id(tag), len: PacketLength::Fixed(length) }),
    { unimplemented!() }
    #[verifier::external_body]
    pub fn to_writer<W: io::Write>(&self, writer: &mut W) -> (r: errors::Result<()>)
        requires hdr_ok(self.hv())
        ensures
            r is Ok ==> (*final(writer)).out() == old(writer).out() + enc_hdr(self.hv()),
            sink_infallible::<W>() ==> r is Ok,
    { unimplemented!() }
}

//@trusted T4 PacketLength::to_writer_new appends enc_len(self) for every new-format length (proved in U02); it has no error source other than the sink
impl PacketLength {
    #[verifier::external_body]
    pub fn to_writer_new<W: io::Write>(&self, writer: &mut W) -> (r: errors::Result<()>)
        requires new_len_ok(*self)
        ensures
            r is Ok ==> (*final(writer)).out() == old(writer).out() + enc_len(*self),
            sink_infallible::<W>() ==> r is Ok,
    { unimplemented!() }
}
