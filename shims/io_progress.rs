// ---------------------------------------------------------------------------------
// shims/io_progress.rs - std::io::{Error, ErrorKind, Write} as in shims/io.rs (use INSTEAD of
// shims/io.rs), plus an explicit PROGRESS ASSUMPTION on sinks, needed to prove termination of
// hand-written write_all loops that retry on Ok(0) / Interrupted.
// ---------------------------------------------------------------------------------
//@trusted T2 std::io::Error is an opaque value; only the occurrence of an error and its ErrorKind are modelled (as in shims/io.rs)
// (the enum lives at the crate root because `derive(Structural)` - needed for `e.kind() == ErrorKind::X` to be
// understood by Verus - crashes this Verus version inside a nested module)
#[derive(PartialEq, Eq, Clone, Copy, Structural)]
pub enum IoErrorKind { Interrupted, UnexpectedEof, InvalidInput, InvalidData, WriteZero, Other }

pub mod io {
    use super::*;
    pub struct Error { pub k: ErrorKind }
    pub type Result<T> = core::result::Result<T, Error>;
    pub use super::IoErrorKind as ErrorKind;
    impl Error {
        #[verifier::external_body]
        pub fn new_opaque() -> (e: Error) ensures e.k == ErrorKind::Other { unimplemented!() }
        #[verifier::external_body]
        pub fn new_kind(k: ErrorKind) -> (e: Error) ensures e.k == k { unimplemented!() }
        #[verifier::external_body]
        pub fn kind(&self) -> (k: ErrorKind) ensures k == self.k { unimplemented!() }
    }

    //@trusted T2 std::io::Write (as in shims/io.rs): write(b) = Ok(n) appends the first n <= b.len() bytes of b to out(), Err leaves out() unchanged; write_all(b) = Ok appends all of b, Err leaves out() extended by some prefix of b; flush does not change out() and, on Ok, establishes flushed()
    //@trusted T3 PROGRESS ASSUMPTION (NOT guaranteed by std::io::Write): every sink has a finite stall budget stalls(): a write() that makes no progress on a non-empty buffer - Ok(0), or Err of kind Interrupted - strictly decreases it. A sink that answers Ok(0) for ever (e.g. a full `&mut [u8]` or Cursor<&mut [u8]>) violates this assumption
    pub trait Write {
        spec fn out(&self) -> Seq<u8>;
        spec fn stalls(&self) -> nat;
        /// everything accepted so far has reached its destination (set by a successful flush)
        spec fn flushed(&self) -> bool;
        fn write(&mut self, buf: &[u8]) -> (r: Result<usize>)
            ensures match r {
                Ok(n) => n <= buf@.len() && final(self).out() == old(self).out() + buf@.subrange(0, n as int)
                    && (n == 0 && buf@.len() > 0 ==> final(self).stalls() < old(self).stalls()),
                Err(e) => final(self).out() == old(self).out()
                    && (e.k == ErrorKind::Interrupted ==> final(self).stalls() < old(self).stalls()),
            };
        fn write_all(&mut self, buf: &[u8]) -> (r: Result<()>)
            ensures match r {
                Ok(_) => final(self).out() == old(self).out() + buf@,
                Err(_) => exists|k: int| 0 <= k <= buf@.len() && final(self).out() == old(self).out() + #[trigger] buf@.subrange(0, k),
            };
        fn flush(&mut self) -> (r: Result<()>)
            ensures final(self).out() == old(self).out(),
                    r is Ok ==> final(self).flushed();
    }
}
