// ---------------------------------------------------------------------------------
// shims/serlen_leaves.rs - the leaf types of the length-agreement sweep as *assumed* component contracts
// for the later units: each is an opaque value with a wire image; to_writer appends it, write_len() is its
// length, which is the constant / sum U75a PROVES on the real impls.  Include after shims/io_sink.rs
// and shims/serlen_sink.rs (or shims/io.rs and shims/secret_reader.rs: the impls are contract-free stubs of whichever
// Serialize trait is in scope; U75a proves the stronger one, with the same_dest clause).
// ---------------------------------------------------------------------------------
//@trusted T4 Timestamp, Duration (4 octets), Ed25519PublicParams (32), Ed448PublicParams (57), X25519PublicParams (32), X448PublicParams (56), ElgamalPublicParams (three MPIs): `impl Serialize`: to_writer appends wire(), write_len() == |wire()| == the stated size (proved in U75a)
#[verifier::external_body]
pub struct Timestamp { _x: u8 }
impl Timestamp {
    pub uninterp spec fn ts_wire(&self) -> Seq<u8>;
    pub open spec fn spec_write_len(&self) -> nat { 4 }
    #[verifier::external_body]
    pub proof fn axiom_len(&self) ensures self.ts_wire().len() == 4 {}
}
impl Serialize for Timestamp {
    open spec fn wire(&self) -> Seq<u8> { self.ts_wire() }
    open spec fn ser_inv(&self) -> bool { true }
    #[verifier::external_body]
    fn to_writer<W: io::Write>(&self, writer: &mut W) -> (r: errors::Result<()>) { unimplemented!() }
    #[verifier::external_body]
    fn write_len(&self) -> (r: usize) { unimplemented!() }
}
#[verifier::external_body]
pub struct Ed25519PublicParams { _x: u8 }
impl Ed25519PublicParams {
    pub uninterp spec fn pk_wire(&self) -> Seq<u8>;
    pub open spec fn spec_write_len(&self) -> nat { 32 }
    #[verifier::external_body]
    pub proof fn axiom_len(&self) ensures self.pk_wire().len() == 32 {}
}
impl Serialize for Ed25519PublicParams {
    open spec fn wire(&self) -> Seq<u8> { self.pk_wire() }
    open spec fn ser_inv(&self) -> bool { true }
    #[verifier::external_body]
    fn to_writer<W: io::Write>(&self, writer: &mut W) -> (r: errors::Result<()>) { unimplemented!() }
    #[verifier::external_body]
    fn write_len(&self) -> (r: usize) { unimplemented!() }
}
#[verifier::external_body]
pub struct Ed448PublicParams { _x: u8 }
impl Ed448PublicParams {
    pub uninterp spec fn pk_wire(&self) -> Seq<u8>;
    pub open spec fn spec_write_len(&self) -> nat { 57 }
    #[verifier::external_body]
    pub proof fn axiom_len(&self) ensures self.pk_wire().len() == 57 {}
}
impl Serialize for Ed448PublicParams {
    open spec fn wire(&self) -> Seq<u8> { self.pk_wire() }
    open spec fn ser_inv(&self) -> bool { true }
    #[verifier::external_body]
    fn to_writer<W: io::Write>(&self, writer: &mut W) -> (r: errors::Result<()>) { unimplemented!() }
    #[verifier::external_body]
    fn write_len(&self) -> (r: usize) { unimplemented!() }
}
#[verifier::external_body]
pub struct X25519PublicParams { _x: u8 }
impl X25519PublicParams {
    pub uninterp spec fn pk_wire(&self) -> Seq<u8>;
    pub open spec fn spec_write_len(&self) -> nat { 32 }
    #[verifier::external_body]
    pub proof fn axiom_len(&self) ensures self.pk_wire().len() == 32 {}
}
impl Serialize for X25519PublicParams {
    open spec fn wire(&self) -> Seq<u8> { self.pk_wire() }
    open spec fn ser_inv(&self) -> bool { true }
    #[verifier::external_body]
    fn to_writer<W: io::Write>(&self, writer: &mut W) -> (r: errors::Result<()>) { unimplemented!() }
    #[verifier::external_body]
    fn write_len(&self) -> (r: usize) { unimplemented!() }
}
#[verifier::external_body]
pub struct X448PublicParams { _x: u8 }
impl X448PublicParams {
    pub uninterp spec fn pk_wire(&self) -> Seq<u8>;
    pub open spec fn spec_write_len(&self) -> nat { 56 }
    #[verifier::external_body]
    pub proof fn axiom_len(&self) ensures self.pk_wire().len() == 56 {}
}
impl Serialize for X448PublicParams {
    open spec fn wire(&self) -> Seq<u8> { self.pk_wire() }
    open spec fn ser_inv(&self) -> bool { true }
    #[verifier::external_body]
    fn to_writer<W: io::Write>(&self, writer: &mut W) -> (r: errors::Result<()>) { unimplemented!() }
    #[verifier::external_body]
    fn write_len(&self) -> (r: usize) { unimplemented!() }
}
#[verifier::external_body]
pub struct ElgamalPublicParams { _x: u8 }
impl ElgamalPublicParams {
    pub uninterp spec fn pk_wire(&self) -> Seq<u8>;
    pub open spec fn spec_write_len(&self) -> nat { self.pk_wire().len() }
    /// lemma_elgamal_len of U75a
    #[verifier::external_body]
    pub proof fn axiom_len(&self) ensures self.pk_wire().len() < 0x0400_0000_0000_0000 {}
}
impl Serialize for ElgamalPublicParams {
    open spec fn wire(&self) -> Seq<u8> { self.pk_wire() }
    open spec fn ser_inv(&self) -> bool { true }
    #[verifier::external_body]
    fn to_writer<W: io::Write>(&self, writer: &mut W) -> (r: errors::Result<()>) { unimplemented!() }
    #[verifier::external_body]
    fn write_len(&self) -> (r: usize) { unimplemented!() }
}
