// ---------------------------------------------------------------------------------
// shims/le16.rs - the one little-endian scalar of OpenPGP (RFC 9580 5.12.1: "due to a historical
// accident this value is encoded as a little-endian number"): spec function le16, the std decoder
// u16::from_le_bytes and byteorder's write_u16::<LittleEndian> (shims/io.rs specifies write_u16 only
// for BigEndian).  Include after shims/io.rs.
// ---------------------------------------------------------------------------------
/// the two octets of x, least significant first
pub open spec fn le16(x: u16) -> Seq<u8> { seq![(x % 256) as u8, (x / 256) as u8] }
/// the number two octets stand for, least significant first
pub open spec fn le16_val(s: Seq<u8>) -> nat
    recommends s.len() >= 2
{
    (s[0] as nat) + 256 * (s[1] as nat)
}
pub proof fn lemma_le16_val(x: u16)
    ensures le16(x).len() == 2, le16_val(le16(x)) == x
{
}
//@trusted T2 u16::from_le_bytes(a) is a[0] + 256 * a[1] (std)
#[verifier::external_body]
pub fn u16_from_le_bytes(a: [u8; 2]) -> (r: u16)
    ensures r == le16_val(a@), le16(r) == a@
{ u16::from_le_bytes(a) }
//@trusted T2 byteorder::WriteBytesExt::write_u16::<LittleEndian>(n) = Ok appends the two octets of n, least significant first (given as the method write_u16_le: shims/io.rs states write_u16 for BigEndian only)
pub trait WriteBytesExtLe: io::Write {
    fn write_u16_le(&mut self, n: u16) -> (r: io::Result<()>)
        ensures match r { Ok(_) => final(self).out() == old(self).out() + le16(n), Err(_) => true };
}
impl<W: io::Write> WriteBytesExtLe for W {
    #[verifier::external_body]
    fn write_u16_le(&mut self, n: u16) -> (r: io::Result<()>) { unimplemented!() }
}
