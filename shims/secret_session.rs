// ---------------------------------------------------------------------------------
// shims/secret_session.rs - what the session-key post-processing unit (U40) assumes about
// code that is not its subject: crypto::checksum::simple, composed::RawSessionKey, slice ->
// array conversion.  Include after shims/io.rs inside verus!{}.
// ---------------------------------------------------------------------------------
//@trusted T2 <[T; N] as TryFrom<&[T]>>::try_from is Ok exactly when the slice has N elements, and then holds the same elements (`x.try_into()` is `U::try_from(x)` by the blanket impl in core::convert)
#[verifier::external_type_specification]
#[verifier::external_body]
pub struct ExTryFromSliceError(core::array::TryFromSliceError);

pub assume_specification<'a, T: Copy, const N: usize>[<[T; N] as core::convert::TryFrom<&'a [T]>>::try_from](s: &[T]) -> (r: core::result::Result<[T; N], core::array::TryFromSliceError>)
    ensures r is Ok <==> s@.len() == N, r is Ok ==> r->Ok_0@ == s@;

//@trusted T4 crypto::checksum::simple(actual, data) is Ok exactly when actual is the big-endian 16-bit sum (mod 65536) of data: sum16 is left uninterpreted here
pub uninterp spec fn sum16(data: Seq<u8>) -> u16;
pub mod checksum {
    use super::*;
    pub struct ChecksumMismatch { pub k: u8 }
    #[verifier::external_body]
    pub fn simple(actual: [u8; 2], data: &[u8]) -> (r: core::result::Result<(), ChecksumMismatch>)
        ensures r is Ok <==> actual@ == be16(sum16(data@))
    { unimplemented!() }
}
impl core::convert::From<checksum::ChecksumMismatch> for errors::Error {
    #[verifier::external_body]
    fn from(e: checksum::ChecksumMismatch) -> (r: errors::Error) { unimplemented!() }
}

//@trusted T4 composed::RawSessionKey is a byte string: From<&[u8]> copies the slice, as_ref exposes it
#[verifier::external_body]
pub struct RawSessionKey { v: Vec<u8> }
impl View for RawSessionKey {
    type V = Seq<u8>;
    uninterp spec fn view(&self) -> Seq<u8>;
}
impl core::convert::From<&[u8]> for RawSessionKey {
    #[verifier::external_body]
    fn from(value: &[u8]) -> (r: RawSessionKey) ensures r@ == value@ { unimplemented!() }
}
impl RawSessionKey {
    #[verifier::external_body]
    pub fn as_ref(&self) -> (r: &[u8]) ensures r@ == self@ { unimplemented!() }
}
