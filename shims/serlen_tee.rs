// ---------------------------------------------------------------------------------
// shims/serlen_tee.rs - `impl io::Write for util::TeeWriter` as an *assumed* contract for U75e, phrased for the
// Write trait of shims/io_sink.rs.  Include after the unit has extracted `struct TeeWriter` (src/util.rs) and
// defined the ghost accessors cur_a / cur_b / fin_a / fin_b on it, and after shims/serlen_sink.rs (hash::Hasher).
// ---------------------------------------------------------------------------------
pub open spec fn tee_adv(h0: Seq<u8>, h1: Seq<u8>, d: Seq<u8>) -> bool { h1 == h0 + d }
//@trusted T4 `impl io::Write for TeeWriter<'_, A, B>` (src/util.rs:88): every octet the sink b accepts is fed to the hasher a, in order; results of the sink are passed on (proved in U84).  Its methods never assign the fields a / b (they are assigned in `new` only), which is the same_dest clause
impl<A: hash::Hasher, B: io::Write> io::Write for TeeWriter<'_, A, B> {
    closed spec fn out(&self) -> Seq<u8> { self.cur_b().out() }
    /// same two referents in the end, the sink keeps its destination, and hasher and sink have advanced by the same octets
    #[verifier::prophetic]
    closed spec fn same_dest(&self, other: &Self) -> bool {
        &&& self.fin_a() == other.fin_a()
        &&& self.fin_b() == other.fin_b()
        &&& self.cur_b().same_dest(&other.cur_b())
        &&& exists|d: Seq<u8>| other.cur_b().out() == self.cur_b().out() + d && #[trigger] tee_adv(self.cur_a().seen(), other.cur_a().seen(), d)
    }
    proof fn same_dest_refl(a: &Self) {
        B::same_dest_refl(&a.cur_b());
        let d = Seq::<u8>::empty();
        assert(a.cur_b().out() =~= a.cur_b().out() + d);
        assert(a.cur_a().seen() =~= a.cur_a().seen() + d);
        assert(tee_adv(a.cur_a().seen(), a.cur_a().seen(), d));
    }
    proof fn same_dest_trans(a: &Self, b: &Self, c: &Self) {
        B::same_dest_trans(&a.cur_b(), &b.cur_b(), &c.cur_b());
        let d1 = choose|d: Seq<u8>| b.cur_b().out() == a.cur_b().out() + d && #[trigger] tee_adv(a.cur_a().seen(), b.cur_a().seen(), d);
        let d2 = choose|d: Seq<u8>| c.cur_b().out() == b.cur_b().out() + d && #[trigger] tee_adv(b.cur_a().seen(), c.cur_a().seen(), d);
        assert(c.cur_b().out() =~= a.cur_b().out() + (d1 + d2));
        assert(c.cur_a().seen() =~= a.cur_a().seen() + (d1 + d2));
        assert(tee_adv(a.cur_a().seen(), c.cur_a().seen(), d1 + d2));
    }
    #[verifier::external_body]
    fn write(&mut self, buf: &[u8]) -> (r: io::Result<usize>) { unimplemented!() }
    #[verifier::external_body]
    fn write_all(&mut self, buf: &[u8]) -> (r: io::Result<()>) { unimplemented!() }
    #[verifier::external_body]
    fn flush(&mut self) -> (r: io::Result<()>) { unimplemented!() }
}
