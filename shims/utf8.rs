// ---------------------------------------------------------------------------------
// shims/utf8.rs - std::str::from_utf8 / String::from_utf8 in terms of vstd::utf8
// (valid_utf8 / decode_utf8 are DEFINED in vstd, not axiomatised; `str::as_bytes` already
// has a vstd specification: s.as_bytes()@ == encode_utf8(s@)).
// ---------------------------------------------------------------------------------
//@trusted T2 std::str::from_utf8(v) / String::from_utf8(v) return Ok exactly when v is well-formed UTF-8 (vstd::utf8::valid_utf8), and the text is then the decoding of v
#[verifier::external_type_specification]
#[verifier::external_body]
pub struct ExUtf8Error(core::str::Utf8Error);
#[verifier::external_type_specification]
#[verifier::external_body]
pub struct ExFromUtf8Error(std::string::FromUtf8Error);

pub assume_specification<'a>[ core::str::from_utf8 ](v: &'a [u8]) -> (r: Result<&'a str, core::str::Utf8Error>)
    ensures vstd::utf8::valid_utf8(v@) <==> r is Ok, r is Ok ==> r->Ok_0@ == vstd::utf8::decode_utf8(v@);

pub assume_specification[ String::from_utf8 ](v: Vec<u8>) -> (r: Result<String, std::string::FromUtf8Error>)
    ensures vstd::utf8::valid_utf8(v@) <==> r is Ok, r is Ok ==> r->Ok_0@ == vstd::utf8::decode_utf8(v@);
