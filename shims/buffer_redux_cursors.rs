// ---------------------------------------------------------------------------------
// shims/buffer_redux_cursors.rs - REFINEMENT of shims/buffer_redux.rs (include INSTEAD of it, after
// shims/io.rs): same `Buffer` contract; `BufReader<R>` additionally exposes the head cursor of the
// std_buf backend (buffer_redux 1.0.2 src/buffer/std_buf.rs: a window [pos, end) inside a boxed slice
// of fixed length cap; usable_space() = cap - end; consume() advances pos and resets pos = end = 0
// when the window becomes empty; nothing is ever moved or grown by the methods used in
// src/base64/decoder.rs).  Needed by U83: whether `read_into_buf()` can return Ok(0) for lack of ROOM
// (rather than end of stream) while fewer than 4 bytes are buffered depends on where the window sits
// inside the capacity, which shims/buffer_redux.rs does not expose (space() only bounded from below
// after consume, cap() only bounded from below after with_capacity).
// ---------------------------------------------------------------------------------

//@trusted T2 buffer_redux::Buffer: content view(), free space usable() at the tail; is_empty/len; copy_to_slice(out) moves min(len, out.len()) bytes to the front of out and consumes them; copy_from_slice(src) appends min(usable, src.len()) bytes WITHOUT growing and returns that count; a buffer that becomes empty is reset, i.e. usable() == capacity(); with_capacity(c) has capacity() >= c
#[verifier::external_body]
pub struct Buffer { b: Vec<u8> }
impl View for Buffer { type V = Seq<u8>; uninterp spec fn view(&self) -> Seq<u8>; }
impl Buffer {
    pub uninterp spec fn usable(&self) -> nat;
    pub uninterp spec fn capacity(&self) -> nat;
    #[verifier::external_body]
    pub proof fn axiom_empty_reset(&self)
        ensures self@.len() + self.usable() <= self.capacity(), self@.len() == 0 ==> self.usable() == self.capacity()
    {}
    #[verifier::external_body]
    pub fn with_capacity(cap: usize) -> (r: Buffer) ensures r@.len() == 0, r.capacity() >= cap, r.usable() == r.capacity() { unimplemented!() }
    #[verifier::external_body]
    pub fn is_empty(&self) -> (r: bool) ensures r == (self@.len() == 0) { unimplemented!() }
    #[verifier::external_body]
    pub fn len(&self) -> (r: usize) ensures r == self@.len() { unimplemented!() }
    #[verifier::external_body]
    pub fn copy_to_slice(&mut self, out: &mut [u8]) -> (r: usize)
        ensures
            r == (if old(self)@.len() <= old(out)@.len() { old(self)@.len() } else { old(out)@.len() }),
            final(out)@.len() == old(out)@.len(),
            final(out)@.subrange(0, r as int) == old(self)@.subrange(0, r as int),
            final(out)@.subrange(r as int, old(out)@.len() as int) == old(out)@.subrange(r as int, old(out)@.len() as int),
            final(self)@ == old(self)@.skip(r as int),
            final(self).capacity() == old(self).capacity(),
    { unimplemented!() }
    #[verifier::external_body]
    pub fn copy_from_slice(&mut self, src: &[u8]) -> (r: usize)
        ensures
            r == (if old(self).usable() <= src@.len() { old(self).usable() } else { src@.len() }),
            final(self)@ == old(self)@ + src@.subrange(0, r as int),
            final(self).usable() == old(self).usable() - r,
            final(self).capacity() == old(self).capacity(),
    { unimplemented!() }
}

//@trusted T2 buffer_redux::BufReader<R: Read> (std_buf backend, default policy; read_into_buf() does not consult the policy): window() = buffered bytes [pos, end), head() = pos, space() = cap() - end = free room BEHIND the window, so head() + |window()| + space() == cap() always; an empty window is reset (head() == 0, space() == cap()); src() = what the wrapped reader still holds (io::Read::rest); buf_len()/buffer() expose the window; read_into_buf() performs at most ONE read of the wrapped reader into the free room (Ok(0) WITHOUT reading when space() == 0) and appends what it got, head() unchanged, on Err nothing in the buffer changes; consume(n) drops m = min(n, len) bytes from the front of the window: head() advances by m, space() is unchanged, unless the window becomes empty (then head() == 0, space() == cap()); cap() never changes
//@trusted T2 BufReader::with_capacity(c, r) has cap() == c EXACTLY: the backing store is Vec::<u8>::with_capacity(c) turned into a boxed slice of length Vec::capacity(); std documents capacity() >= c only, the RawVec implementation stores exactly the requested capacity for non-zero-sized element types (no rounding, for every allocator)
#[verifier::external_body]
#[verifier::accept_recursive_types(R)]
pub struct BufReader<R> { r: R }
impl<R: io::Read> BufReader<R> {
    pub uninterp spec fn window(&self) -> Seq<u8>;
    pub uninterp spec fn space(&self) -> nat;
    pub uninterp spec fn src(&self) -> Seq<u8>;
    pub uninterp spec fn cap(&self) -> nat;
    pub uninterp spec fn head(&self) -> nat;
    /// cursors: pos + len + usable_space == capacity; an empty window sits at the start (StdBuf::check_cursors)
    #[verifier::external_body]
    pub proof fn axiom_cursors(&self)
        ensures self.head() + self.window().len() + self.space() == self.cap(), self.window().len() == 0 ==> self.head() == 0
    {}
    /// (the weaker statement of shims/buffer_redux.rs, kept under its name; a consequence of axiom_cursors)
    pub proof fn axiom_window_reset(&self)
        ensures self.window().len() + self.space() <= self.cap(), self.window().len() == 0 ==> self.space() == self.cap()
    { self.axiom_cursors(); }
    #[verifier::external_body]
    pub fn with_capacity(cap: usize, inner: R) -> (r: BufReader<R>) ensures r.window().len() == 0, r.cap() == cap, r.space() == r.cap(), r.head() == 0, r.src() == inner.rest() { unimplemented!() }
    #[verifier::external_body]
    pub fn buf_len(&self) -> (r: usize) ensures r == self.window().len() { unimplemented!() }
    #[verifier::external_body]
    pub fn buffer(&self) -> (r: &[u8]) ensures r@ == self.window() { unimplemented!() }
    #[verifier::external_body]
    pub fn read_into_buf(&mut self) -> (r: io::Result<usize>)
        ensures
            final(self).cap() == old(self).cap(),
            final(self).head() == old(self).head(),
            match r {
                Ok(n) => n <= old(self).space() && n <= old(self).src().len()
                    && final(self).window() == old(self).window() + old(self).src().subrange(0, n as int)
                    && final(self).src() == old(self).src().skip(n as int)
                    && final(self).space() == old(self).space() - n
                    // the wrapped reader's own contract: 0 only for no room or end of stream; otherwise ANY short count
                    && (n == 0 ==> old(self).space() == 0 || old(self).src().len() == 0),
                // (nothing is known about the wrapped reader after an error, as in shims/io.rs)
                Err(_) => final(self).window() == old(self).window() && final(self).space() == old(self).space(),
            }
    { unimplemented!() }
    #[verifier::external_body]
    pub fn consume(&mut self, amt: usize)
        ensures
            final(self).window() == old(self).window().skip(if amt as nat <= old(self).window().len() { amt as int } else { old(self).window().len() as int }),
            final(self).src() == old(self).src(),
            final(self).cap() == old(self).cap(),
            amt as nat >= old(self).window().len() ==> final(self).head() == 0 && final(self).space() == old(self).cap(),
            (amt as nat) < old(self).window().len() ==> final(self).head() == old(self).head() + amt && final(self).space() == old(self).space(),
    { unimplemented!() }
}
