// ---------------------------------------------------------------------------------
// shims/serlen_mpi.rs - crate::types::Mpi as an *assumed* component contract for the units of the
// length-agreement sweep that come after U75a (where the two Serialize methods are proved on the real code
// WITHOUT the canonicity invariant).  Include after shims/io_sink.rs, shims/bytes.rs,
// shims/serlen_sink.rs (or shims/io.rs, shims/secret_reader.rs: U75a proves the stronger contract, with same_dest) and shims/serlen_ext.rs.
// ---------------------------------------------------------------------------------
use vstd::std_specs::bits::u8_leading_zeros;

/// index of the first non-zero octet (|s| if there is none)  (definition of U15)
pub open spec fn lz_off(s: Seq<u8>) -> int
    decreases s.len()
{
    if s.len() == 0 { 0 } else if s[0] != 0 { 0 } else { 1 + lz_off(s.skip(1)) }
}
pub open spec fn strip(s: Seq<u8>) -> Seq<u8> { s.skip(lz_off(s)) }
pub open spec fn spec_bits(s: Seq<u8>) -> int {
    if s.len() == 0 { 0 } else { 8 * s.len() - u8_leading_zeros(s[0]) as int }
}
/// RFC 9580 3.2: two-octet big-endian bit count, then the magnitude
pub open spec fn mpi_wire(s: Seq<u8>) -> Seq<u8> { be16(spec_bits(s) as u16) + s }
pub proof fn lemma_mpi_wire_len(s: Seq<u8>)
    ensures mpi_wire(s).len() == 2 + s.len()
{}
pub proof fn lemma_strip_len(s: Seq<u8>)
    ensures 0 <= lz_off(s) <= s.len(), strip(s).len() <= s.len()
    decreases s.len()
{
    if s.len() == 0 || s[0] != 0 { } else { lemma_strip_len(s.skip(1)); }
}

//@trusted T4 types::Mpi with its magnitude mv(): to_writer appends mpi_wire(mv()) = be16(bit length) ++ magnitude, write_len() == 2 + |mv()| == |mpi_wire(mv())|, for EVERY value (proved in U75a; U15 proves the same under the canonicity invariant); from_slice(raw) holds strip(raw) (proved in U15); from_raw(b) wraps b unchanged, Mpi::from(BigUint / &BigUint) holds to_bytes_be() (proved in U75a)
#[verifier::external_body]
pub struct Mpi { v: u8 }
impl Mpi {
    pub uninterp spec fn mv(&self) -> Seq<u8>;
    pub open spec fn spec_write_len(&self) -> nat { 2 + self.mv().len() }
    #[verifier::external_body]
    pub fn from_slice(raw: &[u8]) -> (r: Mpi) ensures r.mv() == strip(raw@) { unimplemented!() }
    #[verifier::external_body]
    pub(crate) fn from_raw(bytes: Bytes) -> (r: Mpi) ensures r.mv() == bytes@ { unimplemented!() }
}
impl Serialize for Mpi {
    open spec fn wire(&self) -> Seq<u8> { mpi_wire(self.mv()) }
    open spec fn ser_inv(&self) -> bool { true }
    #[verifier::external_body]
    fn to_writer<W: io::Write>(&self, writer: &mut W) -> (r: errors::Result<()>) { unimplemented!() }
    #[verifier::external_body]
    fn write_len(&self) -> (r: usize) { unimplemented!() }
}
//@trusted T1 an MPI magnitude is an in-memory byte string, shorter than 2^56 octets (address space; lemma_mpi_len of U75a derives it from the Bytes axiom)
#[verifier::external_body]
pub proof fn axiom_mpi_len(m: &Mpi)
    ensures m.mv().len() < 0x0100_0000_0000_0000
{}
// (include shims/serlen_ext.rs first: BigUint)
impl<'a> core::convert::From<&'a BigUint> for Mpi {
    #[verifier::external_body]
    fn from(b: &'a BigUint) -> (r: Mpi) ensures r.mv() == b.be_bytes() { unimplemented!() }
}
impl core::convert::From<BigUint> for Mpi {
    #[verifier::external_body]
    fn from(b: BigUint) -> (r: Mpi) ensures r.mv() == b.be_bytes() { unimplemented!() }
}
