// ---------------------------------------------------------------------------------
// shims/keygen_sign_env.rs - what the key-generation units (U95c KeyDetails::sign / subkey binding, U95d
// SecretKeyParams::generate / RawSecretKey::sign) assume about code that is not their subject.
// Include after shims/io.rs, after the extraction of the REAL KeyVersion (+ shims/keyversion_ord.rs), Fingerprint,
// SignatureType, inside verus!{}.  The unit extracts the REAL SignatureConfig / SignatureVersionSpecific AFTER this file.
// ---------------------------------------------------------------------------------

// ---- opaque values ----------------------------------------------------------------------------------------
//@trusted T7 Timestamp, KeyId, Password, HashAlgorithm, PublicKeyAlgorithm, SymmetricKeyAlgorithm, CompressionAlgorithm, AeadAlgorithm, Duration, Bytes, RevocationCode, Notation, RevocationKey, UserAttribute, S2kParams, PacketHeaderVersion are opaque values (only their identity matters); Clone / Copy return the same value
#[verifier::external_body] #[derive(Clone, Copy)] pub struct Timestamp { v: u32 }
#[verifier::external_body] #[derive(Clone, Copy)] pub struct KeyId { v: [u8; 8] }
#[verifier::external_body] pub struct Password { v: u8 }
#[verifier::external_body] #[derive(Clone, Copy)] pub struct HashAlgorithm { v: u8 }
#[verifier::external_body] #[derive(Clone, Copy)] pub struct SymmetricKeyAlgorithm { v: u8 }
#[verifier::external_body] #[derive(Clone, Copy)] pub struct CompressionAlgorithm { v: u8 }
#[verifier::external_body] #[derive(Clone, Copy)] pub struct AeadAlgorithm { v: u8 }
#[verifier::external_body] pub struct Duration { v: u32 }
#[verifier::external_body] pub struct Bytes { v: Vec<u8> }
#[verifier::external_body] pub struct RevocationCode { v: u8 }
#[verifier::external_body] pub struct Notation { v: u8 }
#[verifier::external_body] pub struct RevocationKey { v: u8 }
#[verifier::external_body] pub struct S2kParams { v: u8 }
impl Timestamp {
    #[verifier::external_body]
    pub fn now() -> (r: Timestamp) { unimplemented!() }
}

//@trusted T2 rand::{Rng, CryptoRng} are opaque capabilities; `&mut R` is an Rng when R is
pub trait Rng {}
pub trait CryptoRng {}
impl<R: Rng> Rng for &mut R {}
impl<R: CryptoRng> CryptoRng for &mut R {}

//@trusted T2 smallvec::SmallVec<A> is an opaque list value: clone() returns an equal list (the same elements in the same order); every other operation a rewrite of the code could use (len, truncate, reverse, pop, clear, iter().rev()/take()/skip()/cloned()/copied().collect()) exists WITHOUT a postcondition, so that such a rewrite is decided (the "same list" clauses can then not be proved) instead of leaving the verifier's reach
#[verifier::external_body] #[verifier::reject_recursive_types(A)] pub struct SmallVec<A> { v: Vec<A> }
#[verifier::external_body] #[verifier::reject_recursive_types(A)] pub struct SvIter<A> { v: Vec<A> }
impl<A> Clone for SmallVec<A> {
    #[verifier::external_body]
    fn clone(&self) -> (r: SmallVec<A>) ensures r == *self { unimplemented!() }
}
impl<A> core::default::Default for SmallVec<A> {
    #[verifier::external_body] fn default() -> (r: SmallVec<A>) { unimplemented!() }
}
impl<A> SmallVec<A> {
    #[verifier::external_body] pub fn new() -> (r: SmallVec<A>) { unimplemented!() }
    #[verifier::external_body] pub fn len(&self) -> (r: usize) { unimplemented!() }
    #[verifier::external_body] pub fn is_empty(&self) -> (r: bool) { unimplemented!() }
    #[verifier::external_body] pub fn truncate(&mut self, n: usize) { unimplemented!() }
    #[verifier::external_body] pub fn reverse(&mut self) { unimplemented!() }
    #[verifier::external_body] pub fn clear(&mut self) { unimplemented!() }
    #[verifier::external_body] pub fn iter(&self) -> (r: SvIter<A>) { unimplemented!() }
    #[verifier::external_body] pub fn into_iter(self) -> (r: SvIter<A>) { unimplemented!() }
}
impl<A> SvIter<A> {
    #[verifier::external_body] pub fn rev(self) -> (r: SvIter<A>) { unimplemented!() }
    #[verifier::external_body] pub fn take(self, n: usize) -> (r: SvIter<A>) { unimplemented!() }
    #[verifier::external_body] pub fn skip(self, n: usize) -> (r: SvIter<A>) { unimplemented!() }
    #[verifier::external_body] pub fn cloned(self) -> (r: SvIter<A>) { unimplemented!() }
    #[verifier::external_body] pub fn copied(self) -> (r: SvIter<A>) { unimplemented!() }
    #[verifier::external_body] pub fn collect<B>(self) -> (r: B) { unimplemented!() }
}

// ---- key flags / features -----------------------------------------------------------------------------------
/// the named bits of a Key Flags subpacket (RFC 9580 5.2.3.29); their octet/bit positions are the subject of U69s
pub struct KeyFlagBits {
    pub certify: bool, pub sign: bool, pub encrypt_comms: bool, pub encrypt_storage: bool,
    pub shared: bool, pub authentication: bool, pub group: bool, pub adsk: bool, pub timestamping: bool,
}
pub open spec fn no_key_flags() -> KeyFlagBits {
    KeyFlagBits { certify: false, sign: false, encrypt_comms: false, encrypt_storage: false, shared: false, authentication: false, group: false, adsk: false, timestamping: false }
}
//@trusted T7 KeyFlags / Features (packet/signature/types.rs:1251, bitfield-struct setters): default() has no flag set; set_X(v) sets exactly the flag X to v and leaves every other flag; the getters read them; clone() returns the same value
#[verifier::external_body] pub struct KeyFlags { v: u16 }
impl KeyFlags {
    pub uninterp spec fn bits(&self) -> KeyFlagBits;
    #[verifier::external_body] pub fn default() -> (r: KeyFlags) ensures r.bits() == no_key_flags() { unimplemented!() }
    #[verifier::external_body] pub fn set_certify(&mut self, val: bool) ensures final(self).bits() == (KeyFlagBits { certify: val, ..old(self).bits() }) { unimplemented!() }
    #[verifier::external_body] pub fn set_sign(&mut self, val: bool) ensures final(self).bits() == (KeyFlagBits { sign: val, ..old(self).bits() }) { unimplemented!() }
    #[verifier::external_body] pub fn set_encrypt_comms(&mut self, val: bool) ensures final(self).bits() == (KeyFlagBits { encrypt_comms: val, ..old(self).bits() }) { unimplemented!() }
    #[verifier::external_body] pub fn set_encrypt_storage(&mut self, val: bool) ensures final(self).bits() == (KeyFlagBits { encrypt_storage: val, ..old(self).bits() }) { unimplemented!() }
    #[verifier::external_body] pub fn set_shared(&mut self, val: bool) ensures final(self).bits() == (KeyFlagBits { shared: val, ..old(self).bits() }) { unimplemented!() }
    #[verifier::external_body] pub fn set_authentication(&mut self, val: bool) ensures final(self).bits() == (KeyFlagBits { authentication: val, ..old(self).bits() }) { unimplemented!() }
    #[verifier::external_body] pub fn set_group(&mut self, val: bool) ensures final(self).bits() == (KeyFlagBits { group: val, ..old(self).bits() }) { unimplemented!() }
    #[verifier::external_body] pub fn set_adsk(&mut self, val: bool) ensures final(self).bits() == (KeyFlagBits { adsk: val, ..old(self).bits() }) { unimplemented!() }
    #[verifier::external_body] pub fn set_timestamping(&mut self, val: bool) ensures final(self).bits() == (KeyFlagBits { timestamping: val, ..old(self).bits() }) { unimplemented!() }
    #[verifier::external_body] pub fn certify(&self) -> (r: bool) ensures r == self.bits().certify { unimplemented!() }
    #[verifier::external_body] pub fn sign(&self) -> (r: bool) ensures r == self.bits().sign { unimplemented!() }
    #[verifier::external_body] pub fn encrypt_comms(&self) -> (r: bool) ensures r == self.bits().encrypt_comms { unimplemented!() }
    #[verifier::external_body] pub fn encrypt_storage(&self) -> (r: bool) ensures r == self.bits().encrypt_storage { unimplemented!() }
    #[verifier::external_body] pub fn authentication(&self) -> (r: bool) ensures r == self.bits().authentication { unimplemented!() }
}
impl Clone for KeyFlags {
    #[verifier::external_body]
    fn clone(&self) -> (r: KeyFlags) ensures r == *self { unimplemented!() }
}
#[verifier::external_body] pub struct Features { v: u8 }
impl Features {
    pub uninterp spec fn seipd_v1(&self) -> bool;
    pub uninterp spec fn seipd_v2(&self) -> bool;
    #[verifier::external_body] pub fn default() -> (r: Features) ensures !r.seipd_v1(), !r.seipd_v2() { unimplemented!() }
    #[verifier::external_body] pub fn set_seipd_v1(&mut self, val: bool) ensures final(self).seipd_v1() == val, final(self).seipd_v2() == old(self).seipd_v2() { unimplemented!() }
    #[verifier::external_body] pub fn set_seipd_v2(&mut self, val: bool) ensures final(self).seipd_v2() == val, final(self).seipd_v1() == old(self).seipd_v1() { unimplemented!() }
}
impl Clone for Features {
    #[verifier::external_body]
    fn clone(&self) -> (r: Features) ensures r == *self { unimplemented!() }
}

// ---- packets: tags, user ids, subpackets, signatures -----------------------------------------------------------
//@trusted T7 Tag is re-declared with the variants key generation meets (every other one: Other)
#[derive(PartialEq, Eq, Clone, Copy, Structural)]
pub enum Tag { UserId, UserAttribute, PublicKey, PublicSubkey, SecretKey, SecretSubkey, Signature, Other(u8) }

//@trusted T7 SubpacketData (packet/signature/subpacket.rs:283) is re-declared with all its variants; Subpacket::regular(data) / critical(data) = Ok(p) is a subpacket carrying exactly `data` with the critical bit clear / set (sp_data / sp_critical; lengths are U60s' subject)
pub enum SubpacketData {
    SignatureCreationTime(Timestamp),
    SignatureExpirationTime(Duration),
    KeyExpirationTime(Duration),
    IssuerKeyId(KeyId),
    PreferredSymmetricAlgorithms(SmallVec<[SymmetricKeyAlgorithm; 8]>),
    PreferredHashAlgorithms(SmallVec<[HashAlgorithm; 8]>),
    PreferredCompressionAlgorithms(SmallVec<[CompressionAlgorithm; 8]>),
    KeyServerPreferences(SmallVec<[u8; 4]>),
    KeyFlags(KeyFlags),
    Features(Features),
    RevocationReason(RevocationCode, Bytes),
    IsPrimary(bool),
    Revocable(bool),
    EmbeddedSignature(Box<Signature>),
    PreferredKeyServer(String),
    Notation(Notation),
    RevocationKey(RevocationKey),
    SignersUserID(Bytes),
    PolicyURI(String),
    TrustSignature(u8, u8),
    RegularExpression(Bytes),
    ExportableCertification(bool),
    IssuerFingerprint(Fingerprint),
    PreferredEncryptionModes(SmallVec<[AeadAlgorithm; 2]>),
    IntendedRecipientFingerprint(Fingerprint),
    PreferredAeadAlgorithms(SmallVec<[(SymmetricKeyAlgorithm, AeadAlgorithm); 4]>),
    Experimental(u8, Bytes),
    Other(u8, Bytes),
    SignatureTarget(PublicKeyAlgorithm, HashAlgorithm, Bytes),
}
#[verifier::external_body] pub struct Subpacket { v: u8 }
pub uninterp spec fn sp_data(p: Subpacket) -> SubpacketData;
pub uninterp spec fn sp_critical(p: Subpacket) -> bool;
impl Subpacket {
    #[verifier::external_body]
    pub fn regular(data: SubpacketData) -> (r: errors::Result<Subpacket>)
        ensures r matches Ok(p) ==> sp_data(p) == data && !sp_critical(p)
    { unimplemented!() }
    #[verifier::external_body]
    pub fn critical(data: SubpacketData) -> (r: errors::Result<Subpacket>)
        ensures r matches Ok(p) ==> sp_data(p) == data && sp_critical(p)
    { unimplemented!() }
}
impl Clone for Subpacket {
    #[verifier::external_body]
    fn clone(&self) -> (r: Subpacket) ensures r == *self { unimplemented!() }
}

//@trusted T4 packet::Signature is an opaque value that carries the SignatureConfig it was made from (cfg(); Signature::from_config stores the config, U36)
#[verifier::external_body] pub struct Signature { v: u8 }
impl Signature {
    pub uninterp spec fn cfg(&self) -> SignatureConfig;
}

// ---- keys ------------------------------------------------------------------------------------------------------
//@trusted T3 types::KeyDetails / SigningKey / Serialize: version(), fingerprint(), legacy_key_id(), algorithm(), created_at(), hash_alg() are pure observers of a key (spec_*); nothing is assumed about their values
pub trait Serialize {
    /// the octets Serialize::to_writer produces (U36: what is framed and hashed)
    spec fn ser(&self) -> Seq<u8>;
    /// Serialize::write_len: offered (without a contract here; U75/U76 relate it to ser()) so that code which starts to use it is decided
    fn write_len(&self) -> (r: usize);
}
pub mod ser {
    #[allow(unused_imports)] use super::*;
    pub use super::Serialize;
}
pub mod types {
    #[allow(unused_imports)] use super::*;
    pub use super::KeyVersion;
    pub use super::Password;
    pub use super::Timestamp;
    pub use super::S2kParams;
    #[verifier::external_body] #[derive(Clone, Copy)] pub struct PacketHeaderVersion { v: u8 }
    impl core::default::Default for PacketHeaderVersion {
        #[verifier::external_body]
        fn default() -> (r: PacketHeaderVersion) { unimplemented!() }
    }
    pub trait KeyDetails {
        spec fn spec_version(&self) -> KeyVersion;
        spec fn spec_fingerprint(&self) -> Fingerprint;
        spec fn spec_key_id(&self) -> KeyId;
        spec fn spec_algorithm(&self) -> PublicKeyAlgorithm;
        spec fn spec_created_at(&self) -> Timestamp;
        fn version(&self) -> (r: KeyVersion) ensures r == self.spec_version();
        fn fingerprint(&self) -> (r: Fingerprint) ensures r == self.spec_fingerprint();
        fn legacy_key_id(&self) -> (r: KeyId) ensures r == self.spec_key_id();
        fn algorithm(&self) -> (r: PublicKeyAlgorithm) ensures r == self.spec_algorithm();
        fn created_at(&self) -> (r: Timestamp) ensures r == self.spec_created_at();
    }
    pub trait SigningKey: KeyDetails {
        spec fn spec_hash_alg(&self) -> HashAlgorithm;
        /// the passphrase octets `pw` give access to the secret material (always true for an unlocked key): signing with another passphrase fails
        spec fn spec_unlocks(&self, pw: Seq<u8>) -> bool;
        fn hash_alg(&self) -> (r: HashAlgorithm) ensures r == self.spec_hash_alg();
    }
}
pub use types::SigningKey;

// ---- what the signing functions of SignatureConfig establish (PROVED in U36, abstracted) -------------------------
// keys, User IDs and User Attributes are identified by their serialisation ser() (the octets that are framed and hashed), the signer by its fingerprint
/// sig is a signature by the key `signer` whose digest is the RFC 9580 5.2.4 pre-image of a certification (0x10..0x13) over (key, User ID / User
/// Attribute `id` of packet type `tag`) under sig.cfg() - U36 SignatureConfig::sign_certification: digest_signed(cert_preimage(..))
pub uninterp spec fn certification_by(sig: Signature, signer: Fingerprint, key: Seq<u8>, tag: Tag, id: Seq<u8>) -> bool;
/// ... of a direct-key signature (0x1F) over `key` - U36 sign_key: digest_signed(key_sig_preimage(..))
pub uninterp spec fn key_signature_by(sig: Signature, signer: Fingerprint, key: Seq<u8>) -> bool;
/// ... of a subkey binding (0x18) by the primary key `signer` over (primary, subkey) - U36 sign_subkey_binding: digest_signed(binding_preimage(primary, subkey))
pub uninterp spec fn subkey_binding_by(sig: Signature, signer: Fingerprint, primary: Seq<u8>, subkey: Seq<u8>) -> bool;
/// ... of a primary key binding (0x19, "back signature") by the SUBKEY `signer` (public half `subkey`) over (primary, subkey) - U36
/// sign_primary_key_binding: digest_signed(binding_preimage(primary = signee, subkey = signer_pub))
pub uninterp spec fn primary_binding_by(sig: Signature, signer: Fingerprint, subkey: Seq<u8>, primary: Seq<u8>) -> bool;
