// ---------------------------------------------------------------------------------
// shims/generic_array.rs - assumed contracts for generic_array::GenericArray<u8, N> and
// the typenum items used by src/line_writer.rs.  Include AFTER shims/io.rs inside verus!{}.
// A GenericArray<u8, N> is modelled as a fixed-length byte array: view(): Seq<u8> with
// len() == N::val().  Indexing, range indexing, len() and copy_from_slice go through
// Deref/DerefMut to [u8] exactly as in the real crate, so Verus' own slice rules (bounds
// obligations, framing of `&mut a[x..y]`) apply.
// ---------------------------------------------------------------------------------

//@trusted T2 typenum::Unsigned: N::to_usize() returns the type-level natural N::val() (a compile-time constant that fits usize); ArrayLength<T> is a marker on top of Unsigned
pub trait Unsigned {
    spec fn val() -> nat;
    fn to_usize() -> (r: usize) ensures r == Self::val();
}
pub trait ArrayLength<T>: Unsigned {}

//@trusted T2 typenum::{U2, Sum}: Sum<N, U2> = <N as Add<U2>>::Output is the type-level natural N::val() + 2 (axiom_sum_u2)
pub struct U2;
pub type Sum<A, B> = <A as core::ops::Add<B>>::Output;

#[verifier::external_body]
pub proof fn axiom_sum_u2<N>()
    where N: Unsigned + ArrayLength<u8>, N: core::ops::Add<U2>, Sum<N, U2>: ArrayLength<u8>,
    ensures <Sum<N, U2> as Unsigned>::val() == N::val() + 2
{}

//@trusted T2 generic_array::GenericArray<u8, N> derefs (immutably and mutably) to a byte slice of length exactly N::val(); writing through the mutable slice updates the array in place; Default::default() yields an array of that length
#[verifier::external_body]
#[verifier::accept_recursive_types(T)]
#[verifier::accept_recursive_types(N)]
pub struct GenericArray<T, N: ArrayLength<T>> { v: Vec<T>, p: core::marker::PhantomData<N> }

impl<N: ArrayLength<u8>> View for GenericArray<u8, N> {
    type V = Seq<u8>;
    uninterp spec fn view(&self) -> Seq<u8>;
}

impl<N: ArrayLength<u8>> GenericArray<u8, N> {
    //@trusted T2 a Rust value never occupies more than isize::MAX bytes: the length of an existing GenericArray<u8, N> is at most isize::MAX
    #[verifier::external_body]
    pub proof fn axiom_object_size(&self)
        ensures self@.len() == N::val(), N::val() <= isize::MAX as nat
    {}
}

impl<N: ArrayLength<u8>> core::ops::Deref for GenericArray<u8, N> {
    type Target = [u8];
    #[verifier::external_body]
    fn deref(&self) -> (r: &[u8])
        ensures r@ == self@, r@.len() == N::val()
    { unimplemented!() }
}

impl<N: ArrayLength<u8>> core::ops::DerefMut for GenericArray<u8, N> {
    #[verifier::external_body]
    fn deref_mut(&mut self) -> (r: &mut [u8])
        ensures r@ == old(self)@, r@.len() == N::val(), final(self)@ == final(r)@
    { unimplemented!() }
}

impl<N: ArrayLength<u8>> Default for GenericArray<u8, N> {
    #[verifier::external_body]
    fn default() -> (r: Self)
        ensures r@.len() == N::val()
    { unimplemented!() }
}
