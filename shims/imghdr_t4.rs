// ---------------------------------------------------------------------------------
// shims/imghdr_t4.rs - packet::user_attribute::ImageHeader::{try_from_reader, to_writer, write_len}
// as *assumed* contracts for the unit whose subject (UserAttribute) merely calls them.  The contracts
// are the ones of units/U66h_image_header.vu, where the functions are extracted and checked.
// Include after the extracted `enum ImageHeader` / `enum ImageHeaderV1`, lemmas/imghdr_wire.rs,
// shims/codec_reader.rs and shims/codec_take.rs.
// ---------------------------------------------------------------------------------
//@trusted T4 ImageHeader::{to_writer, write_len}: to_writer = Ok appends imghdr_wire(h) (RFC 9580 5.12.1), write_len() is its length (contracts of U66h).  Proved in U66h for all three shapes (for ImageHeader::Unknown, a header version other than 1, since /repo commit 80a2524; before it the clauses imghdr_unknown_version_length_field / imghdr_unknown_version_write_len failed there)
//@trusted T4 ImageHeader::try_from_reader at B := Take<B0> taken by reference (the call `ImageHeader::try_from_reader(&mut rest)`): the contract imghdr_parse_post proved in U66h for every B, and in addition the lock step take_rel of the Take with its inner reader: the function is generic in B and reaches the Take only through Take::{read, fill_buf, consume} (take_rel proved for them in U60s; reflexive, transitive)
impl ImageHeader {
    #[verifier::external_body]
    pub fn to_writer<W: io::Write>(&self, writer: &mut W) -> (r: errors::Result<()>)
        ensures r is Ok ==> imghdr_fits(*self) && (*final(writer)).out() == (*old(writer)).out() + imghdr_wire(*self)
    { unimplemented!() }
    #[verifier::external_body]
    pub fn write_len(&self) -> (r: usize)
        ensures r == imghdr_wire(*self).len()
    { unimplemented!() }
    #[verifier::external_body]
    pub fn try_from_reader_take<'a, B0: io::BufRead>(i: &mut Take<'a, B0>) -> (r: errors::Result<ImageHeader>)
        ensures match r {
            Ok(h) => imghdr_parse_post(h, io::Read::rest(&*old(i)), io::Read::rest(&*final(i))) && take_rel(*old(i), *final(i)),
            Err(_) => true }
    { unimplemented!() }
}
