// ---------------------------------------------------------------------------------
// shims/base64_engine.rs - assumed contract for base64 0.22 `general_purpose::STANDARD`
// (RFC 4648 alphabet, canonical padding required on decode).  Include after shims/io.rs.
// The codec is NOT interpreted: b64_encode / b64_decode are uninterpreted functions related by
// the round-trip law and by length facts.
// ---------------------------------------------------------------------------------

//@trusted T2 base64 STANDARD engine: b64_encode(bytes) / b64_decode(chars) are uninterpreted; assumed laws: decode(encode(x)) == Some(x); encode(x).len() == 4*ceil(|x|/3); a successful decode of c yields at most 3*(|c|/4) bytes (and at least 1 byte for a non-empty c), and only if |c| % 4 == 0 (padding is mandatory for STANDARD)
pub uninterp spec fn b64_encode(bytes: Seq<u8>) -> Seq<u8>;
pub uninterp spec fn b64_decode(chars: Seq<u8>) -> Option<Seq<u8>>;

#[verifier::external_body]
pub proof fn axiom_b64_roundtrip(x: Seq<u8>)
    ensures b64_decode(b64_encode(x)) == Some(x), b64_encode(x).len() == 4 * ((x.len() + 2) / 3)
{}
#[verifier::external_body]
pub proof fn axiom_b64_decode_len(c: Seq<u8>)
    requires b64_decode(c) is Some
    ensures c.len() % 4 == 0, b64_decode(c)->Some_0.len() <= 3 * (c.len() / 4),
        c.len() > 0 ==> b64_decode(c)->Some_0.len() >= 3 * (c.len() / 4) - 2
{}

pub struct DecodeError;
pub struct DecodeSliceError;
pub struct GeneralPurpose;

/// the owned `String` returned by Engine::encode, modelled by its bytes
#[verifier::external_body]
pub struct B64String { s: String }
impl View for B64String { type V = Seq<u8>; uninterp spec fn view(&self) -> Seq<u8>; }
impl B64String {
    #[verifier::external_body]
    pub fn as_bytes(&self) -> (r: &[u8]) ensures r@ == self@ { unimplemented!() }
}

//@trusted T2 Engine::encode(input) returns the string b64_encode(input); Engine::decode(input) returns Ok(d) iff b64_decode(input) == Some(d); Engine::decode_slice(input, out) decodes like decode into the front of `out` (rest of `out` unchanged) and fails, leaving `out` unspecified, if the input is invalid or `out` is too small
impl GeneralPurpose {
    #[verifier::external_body]
    pub fn encode(&self, input: [u8; 3]) -> (r: B64String) ensures r@ == b64_encode(input@) { unimplemented!() }
    #[verifier::external_body]
    pub fn decode(&self, input: &[u8]) -> (r: core::result::Result<Vec<u8>, DecodeError>)
        ensures match r { Ok(d) => b64_decode(input@) == Some(d@), Err(_) => b64_decode(input@) is None }
    { unimplemented!() }
    #[verifier::external_body]
    pub fn decode_slice(&self, input: &[u8], output: &mut [u8]) -> (r: core::result::Result<usize, DecodeSliceError>)
        ensures final(output)@.len() == old(output)@.len(),
            match r {
                Ok(n) => b64_decode(input@) is Some && n == b64_decode(input@)->Some_0.len() && n <= old(output)@.len()
                    && final(output)@.subrange(0, n as int) == b64_decode(input@)->Some_0
                    && final(output)@.subrange(n as int, old(output)@.len() as int) == old(output)@.subrange(n as int, old(output)@.len() as int),
                Err(_) => b64_decode(input@) is None || b64_decode(input@)->Some_0.len() > old(output)@.len(),
            }
    { unimplemented!() }
}
pub const STANDARD: GeneralPurpose = GeneralPurpose;
pub mod general_purpose {
    pub use super::GeneralPurpose;
    pub const STANDARD: GeneralPurpose = GeneralPurpose;
}

//@trusted T2 byteorder::BigEndian::read_u32(buf) reads the first four bytes as a big-endian u32 and panics on a shorter slice (precondition); io::Error: From<io::ErrorKind>
impl BigEndian {
    #[verifier::external_body]
    pub fn read_u32(buf: &[u8]) -> (r: u32)
        requires buf@.len() >= 4
        ensures r == from_be32(buf@.subrange(0, 4))
    { unimplemented!() }
}
impl core::convert::From<io::ErrorKind> for io::Error {
    #[verifier::external_body]
    fn from(k: io::ErrorKind) -> (r: io::Error) { unimplemented!() }
}

// path used by src/base64/decoder.rs: `base64::engine::general_purpose::STANDARD`
pub mod base64 {
    pub mod engine {
        pub mod general_purpose {
            pub use super::super::super::GeneralPurpose;
            pub const STANDARD: GeneralPurpose = GeneralPurpose;
        }
    }
}
