// ---------------------------------------------------------------------------------
// shims/pkesk_identity_env.rs - what the PKESK identity unit (U14) assumes about code that is not its
// subject.  Include AFTER shims/io.rs, shims/bytes.rs inside verus!{}.  The unit extracts the REAL Fingerprint, KeyId, PublicKeyEncryptedSessionKey,
// EncryptionSeipdV1/V2 and Builder AFTER part 1 and includes part 2 (shims/pkesk_identity_callees.rs) after them.
// ---------------------------------------------------------------------------------

//@trusted T7 value types the identity logic never looks into are opaque values: PacketHeader, PkeskBytes, RawSessionKey, PublicParams, SymKeyEncryptedSessionKey, AeadAlgorithm, ChunkSize, CompressionAlgorithm, DataMode, SignatureType, Source<R>, SigningConfig, DummyReader, NoEncryption; SymmetricKeyAlgorithm is an opaque Copy value
#[verifier::external_body] pub struct PacketHeader { v: u8 }
#[verifier::external_body] pub struct PkeskBytes { v: u8 }
#[verifier::external_body] pub struct RawSessionKey { v: u8 }
#[verifier::external_body] pub struct PublicParams { v: u8 }
#[verifier::external_body] pub struct SymKeyEncryptedSessionKey { v: u8 }
#[verifier::external_body] #[derive(Clone, Copy)] pub struct SymmetricKeyAlgorithm { v: u8 }
#[verifier::external_body] pub struct AeadAlgorithm { v: u8 }
#[verifier::external_body] pub struct ChunkSize { v: u8 }
#[verifier::external_body] pub struct CompressionAlgorithm { v: u8 }
#[verifier::external_body] pub struct DataMode { v: u8 }
#[verifier::external_body] pub struct SignatureType { v: u8 }
#[verifier::external_body] pub struct DummyReader { v: u8 }
#[verifier::external_body] pub struct NoEncryption { v: u8 }
#[verifier::external_body] pub struct SigningConfig<'a> { v: core::marker::PhantomData<&'a u8> }
#[verifier::external_body]
#[verifier::accept_recursive_types(R)]
pub struct Source<R> { v: core::marker::PhantomData<R> }

//@trusted T7 Tag, EskType, PublicKeyAlgorithm are reduced to the cases this unit distinguishes (the PKESK tag; the two ESK kinds; ElGamal or not); derive(PartialEq) on PublicKeyAlgorithm is equality of values
pub enum Tag { PublicKeyEncryptedSessionKey, Other }
pub enum EskType { V3_4, V6 }
#[derive(PartialEq, Eq, Clone, Copy, Structural)]
pub enum PublicKeyAlgorithm { Elgamal, NotElgamal(u8) }

//@trusted T2 rand::{Rng, CryptoRng} are opaque capabilities; `&mut R` is an Rng when R is
pub trait Rng {}
pub trait CryptoRng {}
impl<R: Rng> Rng for &mut R {}
impl<R: CryptoRng> CryptoRng for &mut R {}

//@trusted T2 a failed integer conversion converts into the opaque crate error via `?`
impl core::convert::From<core::num::TryFromIntError> for errors::Error {
    #[verifier::external_body]
    fn from(e: core::num::TryFromIntError) -> (r: errors::Error) { unimplemented!() }
}

/// the all-zero key id (RFC 9580 5.1.8: "wildcard" / anonymous recipient)
pub open spec fn zeros8() -> Seq<u8> { seq![0u8, 0u8, 0u8, 0u8, 0u8, 0u8, 0u8, 0u8] }
