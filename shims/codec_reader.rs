// ---------------------------------------------------------------------------------
// shims/codec_reader.rs - crate::parsing_reader::BufReadParsing as *assumed* contracts for the
// packet codec units (U60s..U65s), whose subjects merely call these readers.  This is the union of
// shims/parsing_reader.rs and shims/secret_reader.rs (neither has all of read_be_u32, read_arr,
// take_bytes, rest, read_tag together), plus crate::ser::Serialize as the C05 trait-level contract.
// The reader contracts are copied from the ensures clauses PROVED on the real default methods in
// units/U71_parsing_reader.vu.  Include after shims/io.rs and shims/bytes.rs; do not combine with
// shims/parsing_reader.rs or shims/secret_reader.rs (same trait name).
// ---------------------------------------------------------------------------------
//@trusted T4 BufReadParsing::{read_u8, read_be_u16, read_be_u32, read_arr::<C>, take_bytes, has_remaining}: Ok means the stream held enough bytes, the value is exactly the next 1/2/4/C/size bytes (big endian) and exactly those are consumed; take_bytes requests at most min(size, 1024) bytes of capacity up front; has_remaining consumes nothing; drain (for a stream shorter than 2^64 octets) consumes everything and returns the count; on Err nothing is known (proved in U71)
//@trusted T4 BufReadParsing::read_tag::<C>(tag): Ok means the next C bytes equal tag and exactly those are consumed (read_arr + array comparison; not proved in U71)
//@trusted T4 BufReadParsing::rest (= Read::read_to_end): Ok(b) returns all remaining bytes and leaves the stream empty (not proved in U71: std read_to_end)
pub trait BufReadParsing: io::BufRead + Sized {
    fn read_u8(&mut self) -> (r: io::Result<u8>)
        ensures match r {
            Ok(v) => (*old(self)).rest().len() >= 1 && v == (*old(self)).rest()[0] && (*final(self)).rest() == (*old(self)).rest().skip(1),
            Err(_) => true };
    fn read_be_u16(&mut self) -> (r: io::Result<u16>)
        ensures match r {
            Ok(v) => (*old(self)).rest().len() >= 2 && be16(v) == (*old(self)).rest().subrange(0, 2) && (*final(self)).rest() == (*old(self)).rest().skip(2),
            Err(_) => true };
    fn read_be_u32(&mut self) -> (r: io::Result<u32>)
        ensures match r {
            Ok(v) => (*old(self)).rest().len() >= 4 && be32(v) == (*old(self)).rest().subrange(0, 4) && (*final(self)).rest() == (*old(self)).rest().skip(4),
            Err(_) => true };
    fn has_remaining(&mut self) -> (r: io::Result<bool>)
        ensures match r {
            Ok(v) => v == ((*old(self)).rest().len() > 0) && (*final(self)).rest() == (*old(self)).rest(),
            Err(_) => true };
    fn read_arr<const C: usize>(&mut self) -> (r: io::Result<[u8; C]>)
        ensures match r {
            Ok(a) => (*old(self)).rest().len() >= C && a@ == (*old(self)).rest().subrange(0, C as int) && (*final(self)).rest() == (*old(self)).rest().skip(C as int),
            Err(e) => true };
    fn take_bytes(&mut self, size: usize) -> (r: io::Result<BytesMut>)
        ensures match r {
            Ok(a) => (*old(self)).rest().len() >= size && a@ == (*old(self)).rest().subrange(0, size as int) && (*final(self)).rest() == (*old(self)).rest().skip(size as int)
                && a.requested() <= 1024 && a.requested() <= size,
            Err(e) => true };
    fn rest(&mut self) -> (r: io::Result<BytesMut>)
        ensures match r {
            Ok(a) => a@ == (*old(self)).rest() && (*final(self)).rest() == Seq::<u8>::empty(),
            Err(e) => true };
    fn read_tag<const C: usize>(&mut self, tag: &[u8; C]) -> (r: io::Result<()>)
        ensures match r {
            Ok(_) => (*old(self)).rest().len() >= C && tag@ == (*old(self)).rest().subrange(0, C as int) && (*final(self)).rest() == (*old(self)).rest().skip(C as int),
            Err(e) => true };
    fn drain(&mut self) -> (r: io::Result<u64>)
        requires (*old(self)).rest().len() < u64::MAX
        ensures match r {
            Ok(n) => n == (*old(self)).rest().len() && (*final(self)).rest().len() == 0,
            Err(e) => true };
}
impl<B: io::BufRead> BufReadParsing for B {
    #[verifier::external_body]
    fn read_u8(&mut self) -> (r: io::Result<u8>) { unimplemented!() }
    #[verifier::external_body]
    fn read_be_u16(&mut self) -> (r: io::Result<u16>) { unimplemented!() }
    #[verifier::external_body]
    fn read_be_u32(&mut self) -> (r: io::Result<u32>) { unimplemented!() }
    #[verifier::external_body]
    fn has_remaining(&mut self) -> (r: io::Result<bool>) { unimplemented!() }
    #[verifier::external_body]
    fn read_arr<const C: usize>(&mut self) -> (r: io::Result<[u8; C]>) { unimplemented!() }
    #[verifier::external_body]
    fn take_bytes(&mut self, size: usize) -> (r: io::Result<BytesMut>) { unimplemented!() }
    #[verifier::external_body]
    fn rest(&mut self) -> (r: io::Result<BytesMut>) { unimplemented!() }
    #[verifier::external_body]
    fn read_tag<const C: usize>(&mut self, tag: &[u8; C]) -> (r: io::Result<()>) { unimplemented!() }
    #[verifier::external_body]
    fn drain(&mut self) -> (r: io::Result<u64>) { unimplemented!() }
}

//@trusted T2 bytes::Bytes derefs to the byte slice of its content; no allocation exceeds isize::MAX bytes (std allocator rule), so Bytes::len(), Vec::len() and slice lengths are <= isize::MAX
impl core::ops::Deref for Bytes {
    type Target = [u8];
    #[verifier::external_body]
    fn deref(&self) -> (r: &[u8])
        ensures r@ == self@
    { unimplemented!() }
}
#[verifier::external_body]
pub proof fn axiom_bytes_len(b: &Bytes)
    ensures b@.len() <= isize::MAX
{}
//@trusted T1 no in-memory byte string is longer than 2^56 octets (virtual address space of every supported 64-bit target), so sums of a few lengths fit usize
#[verifier::external_body]
pub proof fn axiom_addr_space_bytes(b: &Bytes)
    ensures b@.len() < 0x0100_0000_0000_0000
{}
#[verifier::external_body]
pub proof fn axiom_vec_len<T>(v: &Vec<T>)
    ensures v@.len() <= isize::MAX
{}
#[verifier::external_body]
pub proof fn axiom_slice_len<T>(b: &[T])
    ensures b@.len() <= isize::MAX
{}

//@trusted T4 crate::ser::Serialize: the trait only declares to_writer/write_len; the ghost fn wire() names the byte string a value stands for on the wire (defined per type from RFC 9580 in lemmas/packet_wire.rs), so that "to_writer appends wire()" and "write_len() == |wire()|" (C05) are the trait-level contracts every impl has to meet; ser_inv() is the documented type invariant under which they hold, len_inv() / wr_inv() what write_len / to_writer need in order not to panic
pub trait Serialize {
    spec fn wire(&self) -> Seq<u8>;
    spec fn ser_inv(&self) -> bool;
    /// what the length query needs in order not to panic (true for almost every type)
    spec fn len_inv(&self) -> bool;
    /// what to_writer needs in order not to panic (true for almost every type: a value without a wire form makes
    /// to_writer return Err, which every impl states as `Ok ==> ser_inv()`)
    spec fn wr_inv(&self) -> bool;
    fn to_writer<W: io::Write>(&self, writer: &mut W) -> (r: errors::Result<()>)
        requires self.wr_inv(),
        ensures match r {
            Ok(_) => (*final(writer)).out() == (*old(writer)).out() + self.wire(),
            Err(_) => true };
    // no precondition: the length query must be callable on every value (constructors call it before
    // anything is known); it has to be right on every value that has a wire form
    fn write_len(&self) -> (r: usize)
        requires self.len_inv(),
        ensures self.ser_inv() ==> r == self.wire().len();
}

//@trusted T2 std: `impl Read/BufRead for &[u8]`: the remaining content of a byte-slice reader is the slice itself; `impl Write for Vec<u8>` appends; `impl Write for &mut W` forwards
impl io::Read for &[u8] {
    open spec fn rest(&self) -> Seq<u8> { (*self)@ }
    #[verifier::external_body]
    fn read(&mut self, buf: &mut [u8]) -> (r: io::Result<usize>) { unimplemented!() }
}
impl io::BufRead for &[u8] {
    open spec fn buffered(&self) -> nat { (*self)@.len() }
    proof fn buffered_le_rest(&self) {}
    #[verifier::external_body]
    fn fill_buf(&mut self) -> (r: io::Result<&[u8]>) { unimplemented!() }
    #[verifier::external_body]
    fn consume(&mut self, amt: usize) { unimplemented!() }
}
impl io::Write for Vec<u8> {
    open spec fn out(&self) -> Seq<u8> { self@ }
    #[verifier::external_body]
    fn write(&mut self, buf: &[u8]) -> (r: io::Result<usize>) { unimplemented!() }
    #[verifier::external_body]
    fn write_all(&mut self, buf: &[u8]) -> (r: io::Result<()>) { unimplemented!() }
    #[verifier::external_body]
    fn flush(&mut self) -> (r: io::Result<()>) { unimplemented!() }
}
impl<W: io::Write> io::Write for &mut W {
    open spec fn out(&self) -> Seq<u8> { (**self).out() }
    #[verifier::external_body]
    fn write(&mut self, buf: &[u8]) -> (r: io::Result<usize>) { unimplemented!() }
    #[verifier::external_body]
    fn write_all(&mut self, buf: &[u8]) -> (r: io::Result<()>) { unimplemented!() }
    #[verifier::external_body]
    fn flush(&mut self) -> (r: io::Result<()>) { unimplemented!() }
}

//@trusted T2 snafu context selector InvalidInputSnafu.build() is an opaque crate::errors::Error value
pub struct InvalidInputSnafu;
impl InvalidInputSnafu {
    #[verifier::external_body]
    pub fn build(self) -> (e: errors::Error) { unimplemented!() }
}
