// ---------------------------------------------------------------------------------
// shims/serlen_sink_sum.rs - std::hash::Hasher and crypto::checksum::SimpleChecksum for PlainSecretParams::to_writer
// (U75e), phrased for the Write trait of shims/io_sink.rs.  Include after shims/io_sink.rs, shims/checksum_env.rs.
// ---------------------------------------------------------------------------------
//@trusted T2 std::hash::Hasher::write(bytes) feeds exactly `bytes` to the hasher: a ghost accumulator seen()
pub mod hash {
    use super::*;
    pub trait Hasher {
        spec fn seen(&self) -> Seq<u8>;
        fn write(&mut self, bytes: &[u8])
            ensures final(self).seen() == old(self).seen() + bytes@;
    }
}
//@trusted T4 crypto::checksum::SimpleChecksum: default() has absorbed nothing; as a Hasher it absorbs what is written; to_writer appends the two octets be16(sum of all absorbed octets mod 65536) and returns an io::Result (proved in U17: incremental == one-shot, to_writer emits the big-endian state; U17's finding simple-sum-u32-overflow for single buffers > 16 MiB is not repeated here)
pub mod checksum {
    use super::*;
    #[verifier::external_body]
    pub struct SimpleChecksum { _x: u8 }
    impl SimpleChecksum {
        pub uninterp spec fn absorbed(&self) -> Seq<u8>;
        #[verifier::external_body]
        pub fn default() -> (r: SimpleChecksum) ensures r.absorbed() == Seq::<u8>::empty() { unimplemented!() }
        #[verifier::external_body]
        pub fn to_writer<W: io::Write>(&self, writer: &mut W) -> (r: io::Result<()>)
            ensures r is Ok ==> (*final(writer)).out() == (*old(writer)).out() + be16(sum16(self.absorbed())),
                (*old(writer)).same_dest(&*final(writer)),
        { unimplemented!() }
    }
    impl hash::Hasher for SimpleChecksum {
        open spec fn seen(&self) -> Seq<u8> { self.absorbed() }
        #[verifier::external_body]
        fn write(&mut self, bytes: &[u8]) { unimplemented!() }
    }
}
