// ---------------------------------------------------------------------------------
// shims/keytypes.rs - the small value types around key packets that the fingerprint /
// key-id / framing units share: crate::ser::Serialize (abstract contract), Vec<u8> as an
// io::Write sink, KeyVersion, PublicKeyAlgorithm, Timestamp, PublicParams (RSA | other),
// Mpi, KeyId.  Include AFTER shims/io.rs and lemmas/keyhash.rs.
// ---------------------------------------------------------------------------------

//@trusted T4 crate::ser::Serialize is a function: every value has one wire image ser(); to_writer(w) = Ok appends exactly ser() to w, Err leaves w extended by an arbitrary part of it; write_len() == |ser()| (the repo's proptests `*_write_len` check this per type)
pub mod ser {
    use super::*;
    pub trait Serialize {
        spec fn ser(&self) -> Seq<u8>;
        fn to_writer<W: io::Write>(&self, w: &mut W) -> (r: crate::errors::Result<()>)
            ensures
                match r {
                    Ok(_) => final(w).out() == old(w).out() + self.ser(),
                    Err(_) => true,
                };
        fn write_len(&self) -> (n: usize)
            ensures n == self.ser().len();
    }
    impl<T: Serialize> Serialize for &T {
        open spec fn ser(&self) -> Seq<u8> { (**self).ser() }
        #[verifier::external_body]
        fn to_writer<W: io::Write>(&self, w: &mut W) -> (r: crate::errors::Result<()>) { unimplemented!() }
        #[verifier::external_body]
        fn write_len(&self) -> (n: usize) { unimplemented!() }
    }
}
// Result::expect needs E: Debug; the io.rs error shim has no Debug impl
#[verifier::external]
impl core::fmt::Debug for crate::errors::Error {
    fn fmt(&self, f: &mut core::fmt::Formatter<'_>) -> core::fmt::Result { f.write_str("Error") }
}
#[verifier::external]
impl core::fmt::Debug for PublicParams {
    fn fmt(&self, f: &mut core::fmt::Formatter<'_>) -> core::fmt::Result { f.write_str("PublicParams") }
}
/// writers whose write/write_all never return Err
pub uninterp spec fn sink_never_fails<W>() -> bool;

//@trusted T2 impl io::Write for Vec<u8> appends and never fails
impl io::Write for Vec<u8> {
    open spec fn out(&self) -> Seq<u8> { self@ }
    #[verifier::external_body]
    fn write(&mut self, buf: &[u8]) -> (r: io::Result<usize>) { unimplemented!() }
    #[verifier::external_body]
    fn write_all(&mut self, buf: &[u8]) -> (r: io::Result<()>) { unimplemented!() }
    #[verifier::external_body]
    fn flush(&mut self) -> (r: io::Result<()>) { unimplemented!() }
}
pub mod key_axioms {
    use super::*;
    #[verifier::external_body]
    pub proof fn axiom_vec_sink_never_fails()
        ensures sink_never_fails::<Vec<u8>>()
    {}
    #[verifier::external_body]
    pub proof fn axiom_mpi_of_biguint()
        ensures forall|b: &BigUint| (#[trigger] mpi_of_biguint(b))@ == b.be_bytes()
    {}
}

/// crate::types::KeyVersion (src/types/packet.rs:414), same variants; derives kept so that `==` is structural
#[derive(PartialEq, Eq, Clone, Copy)]
pub enum KeyVersion { V2, V3, V4, V5, V6, Other(u8) }

//@trusted T2 PublicKeyAlgorithm is a one-octet id; u8::from(alg) is that octet (num_enum IntoPrimitive)
#[derive(PartialEq, Eq, Clone, Copy)]
pub struct PublicKeyAlgorithm { pub id: u8 }
impl vstd::std_specs::convert::FromSpecImpl<PublicKeyAlgorithm> for u8 {
    open spec fn obeys_from_spec() -> bool { true }
    open spec fn from_spec(a: PublicKeyAlgorithm) -> u8 { a.id }
}
impl core::convert::From<PublicKeyAlgorithm> for u8 {
    fn from(a: PublicKeyAlgorithm) -> (r: u8) { a.id }
}

/// crate::types::Timestamp (src/types/timestamp.rs:15): seconds since the epoch
#[derive(PartialEq, Eq, Clone, Copy)]
pub struct Timestamp(pub u32);
impl Timestamp {
    pub fn as_secs(self) -> (r: u32) ensures r == self.0 { self.0 }
}

// ---- public key material ----------------------------------------------------------------
//@trusted T2 num_bigint::BigUint / rsa::RsaPublicKey: n() and e() are unsigned integers; BigUint -> Mpi (to_bytes_be) is the big-endian magnitude without leading zero octets (the number 0 is the single octet 0x00)
#[verifier::external_body]
pub struct BigUint { _x: u8 }
impl BigUint {
    /// big-endian magnitude as produced by to_bytes_be()
    pub uninterp spec fn be_bytes(&self) -> Seq<u8>;
}
#[verifier::external_body]
pub struct RsaPublicKey { _x: u8 }
impl RsaPublicKey {
    pub uninterp spec fn n_bytes(&self) -> Seq<u8>;
    pub uninterp spec fn e_bytes(&self) -> Seq<u8>;
    #[verifier::external_body]
    pub fn n(&self) -> (r: &BigUint) ensures r.be_bytes() == self.n_bytes() { unimplemented!() }
    #[verifier::external_body]
    pub fn e(&self) -> (r: &BigUint) ensures r.be_bytes() == self.e_bytes() { unimplemented!() }
}
pub struct RsaPublicParams { pub key: RsaPublicKey }

/// crate::types::Mpi (src/types/mpi.rs:22): the integer's octets, no length prefix
#[verifier::external_body]
pub struct Mpi { _x: u8 }
impl View for Mpi {
    type V = Seq<u8>;
    uninterp spec fn view(&self) -> Seq<u8>;
}
impl Mpi {
    #[verifier::external_body]
    pub fn len(&self) -> (r: usize) ensures r == self@.len() { unimplemented!() }
    #[verifier::external_body]
    pub fn as_ref(&self) -> (r: &[u8]) ensures r@ == self@ { unimplemented!() }
}
pub uninterp spec fn mpi_of_biguint(b: &BigUint) -> Mpi;
impl<'a> vstd::std_specs::convert::FromSpecImpl<&'a BigUint> for Mpi {
    open spec fn obeys_from_spec() -> bool { true }
    open spec fn from_spec(b: &'a BigUint) -> Mpi { mpi_of_biguint(b) }
}
impl<'a> core::convert::From<&'a BigUint> for Mpi {
    #[verifier::external_body]
    fn from(b: &'a BigUint) -> (r: Mpi) { unimplemented!() }
}

/// every non-RSA variant of crate::types::PublicParams collapsed into one opaque case
#[verifier::external_body]
pub struct OtherPublicParams { _x: u8 }
impl OtherPublicParams { pub uninterp spec fn wire(&self) -> Seq<u8>; }

/// crate::types::PublicParams (src/types/params/public.rs): RSA(..) kept, all other variants = NonRsa
pub enum PublicParams { RSA(RsaPublicParams), NonRsa(OtherPublicParams) }

//@trusted T4 PublicParams::to_writer for RSA writes MPI(n) then MPI(e), an MPI being the two-octet bit count followed by the octets (read off src/types/params/public/rsa.rs:40 and src/types/mpi.rs:103); for every other algorithm the image is opaque; the only fallible steps of PublicParams::to_writer are writes (and `oid.len() as u8` for OIDs, which are at most 39 octets), so writing into a sink that never fails returns Ok
impl ser::Serialize for PublicParams {
    open spec fn ser(&self) -> Seq<u8> {
        match self {
            PublicParams::RSA(p) => mpi_enc(p.key.n_bytes()) + mpi_enc(p.key.e_bytes()),
            PublicParams::NonRsa(o) => o.wire(),
        }
    }
    #[verifier::external_body]
    fn to_writer<W: io::Write>(&self, w: &mut W) -> (r: crate::errors::Result<()>)
        ensures sink_never_fails::<W>() ==> r is Ok
    { unimplemented!() }
    #[verifier::external_body]
    fn write_len(&self) -> (n: usize) { unimplemented!() }
}

//@trusted T2 core::array::TryFromSliceError is an opaque error value
#[verifier::external_type_specification]
#[verifier::external_body]
pub struct ExTryFromSliceError(core::array::TryFromSliceError);

//@trusted T2 <&[u8] as TryInto<[u8; N]>>::try_into succeeds exactly for slices of length N and copies the octets (Verus cannot attach a spec to the std impl; units call it through the shim method try_into_shim)
pub trait TryIntoArrShim {
    fn try_into_shim<const N: usize>(&self) -> (r: core::result::Result<[u8; N], ()>);
}
impl TryIntoArrShim for [u8] {
    #[verifier::external_body]
    fn try_into_shim<const N: usize>(&self) -> (r: core::result::Result<[u8; N], ()>)
        ensures (r is Ok) == (self@.len() == N), r is Ok ==> r->Ok_0@ == self@
    { unimplemented!() }
}

/// crate::types::KeyId (src/types/key_id.rs:19)
pub struct KeyId(pub [u8; 8]);
impl View for KeyId {
    type V = Seq<u8>;
    open spec fn view(&self) -> Seq<u8> { self.0@ }
}
impl vstd::std_specs::convert::FromSpecImpl<[u8; 8]> for KeyId {
    open spec fn obeys_from_spec() -> bool { true }
    open spec fn from_spec(a: [u8; 8]) -> KeyId { KeyId(a) }
}
impl core::convert::From<[u8; 8]> for KeyId {
    fn from(value: [u8; 8]) -> (r: KeyId) { KeyId(value) }
}
