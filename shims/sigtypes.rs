// ---------------------------------------------------------------------------------
// shims/sigtypes.rs - assumed contracts used by the signature units (U30..U34).
// Include AFTER shims/io.rs and shims/bytes.rs, inside verus!{}.  The unit file must start with
// `#![feature(allocator_api)]` (the std specs below name Vec's allocator parameter).
//
// What is NOT in here: SignatureConfig, SignatureVersionSpecific, Subpacket, SubpacketData,
// SubpacketType, SubpacketLength, Fingerprint, Signature, InnerSignature - those are extracted
// verbatim from /repo by the units.
// ---------------------------------------------------------------------------------

// ---- std ------------------------------------------------------------------------
//@trusted T2 Vec::extend(iter) appends the items the iterator yields; for an array [T; N] and a Vec<T> these are its elements in order
//@trusted T2 <Vec<T> as AsRef<[T]>>::as_ref is the slice of all elements
//@trusted T2 `[u8; N] == [u8]` (core::array::equality) holds iff both have the same elements
// (the axioms live in a sub-module because Verus allows one module-level `broadcast use` per module and
//  rejects it in the module that defines the broadcast lemmas)
pub mod std_axioms {
    use vstd::prelude::*;
    pub uninterp spec fn iter_seq<T, I: IntoIterator<Item = T>>(i: I) -> Seq<T>;
    #[verifier::external_body]
    pub broadcast proof fn axiom_iter_seq_array<T, const N: usize>(a: [T; N])
        ensures #[trigger] iter_seq::<T, [T; N]>(a) == a@ { }
    #[verifier::external_body]
    pub broadcast proof fn axiom_iter_seq_vec<T>(a: Vec<T>)
        ensures #[trigger] iter_seq::<T, Vec<T>>(a) == a@ { }
    #[verifier::external_body]
    pub broadcast proof fn axiom_array_slice_eq_u8<const N: usize>(a: &[u8; N], b: &[u8])
        ensures #[trigger] vstd::std_specs::cmp::PartialEqSpec::eq_spec(a, b) == (a@ == b@) { }
    pub uninterp spec fn writer_may_fail<W>() -> bool;
    #[verifier::external_body]
    pub broadcast proof fn axiom_vec_writer_never_fails()
        ensures !(#[trigger] writer_may_fail::<Vec<u8>>()) { }
    pub assume_specification<T, A: core::alloc::Allocator, I: IntoIterator<Item = T>>[ <Vec<T, A> as Extend<T>>::extend ](v: &mut Vec<T, A>, i: I)
        ensures final(v)@ == old(v)@ + iter_seq::<T, I>(i);
    pub assume_specification<T, A: core::alloc::Allocator>[ <Vec<T, A> as AsRef<[T]>>::as_ref ](v: &Vec<T, A>) -> (r: &[T])
        ensures r@ == v@;
}
broadcast use {std_axioms::axiom_iter_seq_array, std_axioms::axiom_iter_seq_vec, std_axioms::axiom_array_slice_eq_u8, std_axioms::axiom_vec_writer_never_fails};

//@trusted T2 u16/u32::to_be_bytes are the big-endian encoders (free-function form: the inherent methods have an unevaluated const in their return type which assume_specification cannot name)
#[verifier::external_body]
pub fn u16_to_be_bytes(x: u16) -> (r: [u8; 2]) ensures r@ == be16(x) { x.to_be_bytes() }
#[verifier::external_body]
pub fn u32_to_be_bytes(x: u32) -> (r: [u8; 4]) ensures r@ == be32(x) { x.to_be_bytes() }

//@trusted T2 byteorder::BigEndian::write_u32(buf, n) overwrites buf[0..4] with the big-endian encoding of n, panics if buf is shorter than 4
impl BigEndian {
    #[verifier::external_body]
    pub fn write_u32(buf: &mut [u8], n: u32)
        requires old(buf)@.len() >= 4
        ensures final(buf)@ == be32(n) + old(buf)@.skip(4)
    { unimplemented!() }
}

//@trusted T2 a failed integer conversion (TryFromIntError) and an unsupported hash algorithm convert into the opaque crate error via `?`
impl core::convert::From<core::num::TryFromIntError> for errors::Error {
    #[verifier::external_body]
    fn from(e: core::num::TryFromIntError) -> (r: errors::Error) { unimplemented!() }
}

//@trusted T2 impl io::Write for Vec<u8>: out() is the content of the vector; the methods satisfy the Write contract of shims/io.rs
impl io::Write for Vec<u8> {
    open spec fn out(&self) -> Seq<u8> { self@ }
    #[verifier::external_body]
    fn write(&mut self, buf: &[u8]) -> (r: io::Result<usize>) { unimplemented!() }
    #[verifier::external_body]
    fn write_all(&mut self, buf: &[u8]) -> (r: io::Result<()>) { unimplemented!() }
    #[verifier::external_body]
    fn flush(&mut self) -> (r: io::Result<()>) { unimplemented!() }
}

// ---- num_enum types ---------------------------------------------------------------
//@trusted T7 num_enum derive (IntoPrimitive with catch_all): SignatureVersion, SignatureType, HashAlgorithm, KeyVersion are re-declared by hand with the discriminants of the source; `.into()` yields the discriminant, Other(n) yields n; derive(PartialEq) is structural equality
#[derive(PartialEq, Eq, Clone, Copy, Structural)]
pub enum SignatureVersion { V2, V3, V4, V5, V6, Other(u8) }
impl SignatureVersion {
    pub open spec fn id(self) -> u8 {
        match self {
            SignatureVersion::V2 => 2, SignatureVersion::V3 => 3, SignatureVersion::V4 => 4,
            SignatureVersion::V5 => 5, SignatureVersion::V6 => 6, SignatureVersion::Other(n) => n,
        }
    }
}
impl core::convert::From<SignatureVersion> for u8 {
    #[verifier::external_body]
    fn from(v: SignatureVersion) -> (r: u8) ensures r == v.id() { unimplemented!() }
}

#[derive(PartialEq, Eq, Clone, Copy, Structural)]
pub enum SignatureType {
    Binary, Text, Standalone, CertGeneric, CertPersona, CertCasual, CertPositive, SubkeyBinding, KeyBinding,
    Key, KeyRevocation, SubkeyRevocation, CertRevocation, Timestamp, ThirdParty, Other(u8),
}
impl SignatureType {
    pub open spec fn id(self) -> u8 {
        match self {
            SignatureType::Binary => 0x00, SignatureType::Text => 0x01, SignatureType::Standalone => 0x02,
            SignatureType::CertGeneric => 0x10, SignatureType::CertPersona => 0x11, SignatureType::CertCasual => 0x12,
            SignatureType::CertPositive => 0x13, SignatureType::SubkeyBinding => 0x18, SignatureType::KeyBinding => 0x19,
            SignatureType::Key => 0x1F, SignatureType::KeyRevocation => 0x20, SignatureType::SubkeyRevocation => 0x28,
            SignatureType::CertRevocation => 0x30, SignatureType::Timestamp => 0x40, SignatureType::ThirdParty => 0x50,
            SignatureType::Other(n) => n,
        }
    }
}
impl core::convert::From<SignatureType> for u8 {
    #[verifier::external_body]
    fn from(v: SignatureType) -> (r: u8) ensures r == v.id() { unimplemented!() }
}

#[derive(PartialEq, Eq, Clone, Copy, Structural)]
pub enum HashAlgorithm { None, Md5, Sha1, Ripemd160, Sha256, Sha384, Sha512, Sha224, Sha3_256, Sha3_512, Private10, Other(u8) }
impl HashAlgorithm {
    pub open spec fn id(self) -> u8 {
        match self {
            HashAlgorithm::None => 0, HashAlgorithm::Md5 => 1, HashAlgorithm::Sha1 => 2, HashAlgorithm::Ripemd160 => 3,
            HashAlgorithm::Sha256 => 8, HashAlgorithm::Sha384 => 9, HashAlgorithm::Sha512 => 10, HashAlgorithm::Sha224 => 11,
            HashAlgorithm::Sha3_256 => 12, HashAlgorithm::Sha3_512 => 14, HashAlgorithm::Private10 => 110,
            HashAlgorithm::Other(n) => n,
        }
    }
}
impl core::convert::From<HashAlgorithm> for u8 {
    #[verifier::external_body]
    fn from(v: HashAlgorithm) -> (r: u8) ensures r == v.id() { unimplemented!() }
}

#[derive(PartialEq, Eq, Clone, Copy, Structural)]
pub enum KeyVersion { V2, V3, V4, V5, V6, Other(u8) }
impl KeyVersion {
    pub open spec fn id(self) -> u8 {
        match self {
            KeyVersion::V2 => 2, KeyVersion::V3 => 3, KeyVersion::V4 => 4,
            KeyVersion::V5 => 5, KeyVersion::V6 => 6, KeyVersion::Other(n) => n,
        }
    }
}

//@trusted T7 PublicKeyAlgorithm is an abstract Copy value with an uninterpreted octet id(); `.into()` yields id(); `==` is equality of values (equal values have equal ids)
#[verifier::external_body]
#[derive(Clone, Copy)]
pub struct PublicKeyAlgorithm { v: u8 }
impl PublicKeyAlgorithm {
    pub uninterp spec fn id(self) -> u8;
}
impl PartialEq for PublicKeyAlgorithm {
    #[verifier::external_body]
    fn eq(&self, o: &PublicKeyAlgorithm) -> (r: bool) ensures r == (*self == *o) { unimplemented!() }
}
impl core::convert::From<PublicKeyAlgorithm> for u8 {
    #[verifier::external_body]
    fn from(v: PublicKeyAlgorithm) -> (r: u8) ensures r == v.id() { unimplemented!() }
}

// ---- small value types ------------------------------------------------------------
//@trusted T7 Timestamp is a u32 of seconds (as_secs returns it); KeyId is 8 octets; their derive(PartialEq) is structural equality
#[derive(PartialEq, Eq, Clone, Copy, Structural)]
pub struct Timestamp(pub u32);
impl Timestamp {
    pub fn as_secs(self) -> (r: u32) ensures r == self.0 { self.0 }
}
#[derive(PartialEq, Eq, Clone, Copy, Structural)]
pub struct KeyId(pub [u8; 8]);

//@trusted T7 payload types of subpackets and packets that the signature units never look into are opaque values
#[verifier::external_body] pub struct Duration { v: u32 }
#[verifier::external_body] pub struct SymmetricKeyAlgorithm { v: u8 }
#[verifier::external_body] pub struct CompressionAlgorithm { v: u8 }
#[verifier::external_body] pub struct AeadAlgorithm { v: u8 }
#[verifier::external_body] pub struct KeyFlags { v: u8 }
#[verifier::external_body] pub struct Features { v: u8 }
#[verifier::external_body] pub struct RevocationCode { v: u8 }
#[verifier::external_body] pub struct Notation { v: u8 }
#[verifier::external_body] pub struct RevocationKey { v: u8 }
#[verifier::external_body] pub struct PacketHeader { v: u8 }
#[verifier::external_body] pub struct SignatureBytes { v: u8 }
#[verifier::external_body]
#[verifier::accept_recursive_types(A)]
pub struct SmallVec<A> { v: core::marker::PhantomData<A> }

// ---- serialisation ----------------------------------------------------------------
//@trusted T4 Serialize::to_writer appends the value's serialisation ser() to the writer on Ok; nothing is known about the writer after Err.  It fails only if the value itself cannot be serialised (!ser_ok(), e.g. an inconsistent length field) or the writer fails; a Vec<u8> writer never fails.  Subpacket::ser() (length octets, type octet with critical bit, body) is an uninterpreted function of the subpacket: its byte-level correctness is the subject of the subpacket serialisation units, not of this one
pub use std_axioms::writer_may_fail;
pub trait Serialize {
    spec fn ser(&self) -> Seq<u8>;
    spec fn ser_ok(&self) -> bool;
    fn to_writer<W: io::Write>(&self, w: &mut W) -> (r: errors::Result<()>)
        ensures match r {
            Ok(_) => final(w).out() == old(w).out() + self.ser(),
            Err(_) => !self.ser_ok() || writer_may_fail::<W>(),
        };
}
pub uninterp spec fn subpacket_ser(p: Subpacket) -> Seq<u8>;
pub uninterp spec fn subpacket_ser_ok(p: Subpacket) -> bool;
impl Serialize for Subpacket {
    open spec fn ser(&self) -> Seq<u8> { subpacket_ser(*self) }
    open spec fn ser_ok(&self) -> bool { subpacket_ser_ok(*self) }
    #[verifier::external_body]
    fn to_writer<W: io::Write>(&self, w: &mut W) -> (r: errors::Result<()>) { unimplemented!() }
}

/// concatenation of the serialisations of a list of subpackets = the (hashed) subpacket area
pub open spec fn ser_all(s: Seq<Subpacket>) -> Seq<u8>
    decreases s.len()
{
    if s.len() == 0 { Seq::<u8>::empty() } else { ser_all(s.drop_last()) + subpacket_ser(s.last()) }
}

// ---- hashing ----------------------------------------------------------------------
//@trusted T2 digest::DynDigest is a ghost byte accumulator for one fixed hash algorithm alg(): update(d) appends d to view() (same contract as shims/digest.rs) and keeps alg(); finalize() returns the uninterpreted digest H(alg(), view()), at least 2 octets long for every algorithm new_hasher supports; HashAlgorithm::new_hasher yields an empty accumulator for that algorithm or Err
pub uninterp spec fn H(alg: HashAlgorithm, s: Seq<u8>) -> Seq<u8>;
pub trait DynDigest {
    spec fn view(&self) -> Seq<u8>;
    spec fn alg(&self) -> HashAlgorithm;
    fn update(&mut self, data: &[u8])
        ensures final(self).view() == old(self).view() + data@, final(self).alg() == old(self).alg();
    fn finalize(self: Box<Self>) -> (r: Box<[u8]>)
        ensures r@ == H(self.alg(), self.view()), r@.len() >= 2;
}
pub mod hash {
    use super::*;
    pub struct Error { pub tag: u8 }
}
impl core::convert::From<hash::Error> for errors::Error {
    #[verifier::external_body]
    fn from(e: hash::Error) -> (r: errors::Error) { unimplemented!() }
}
impl HashAlgorithm {
    #[verifier::external_body]
    pub fn new_hasher(self) -> (r: core::result::Result<Box<dyn DynDigest>, hash::Error>)
        ensures match r { Ok(h) => h.view() == Seq::<u8>::empty() && h.alg() == self, Err(_) => true }
    { unimplemented!() }
}
