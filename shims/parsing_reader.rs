// ---------------------------------------------------------------------------------
// shims/parsing_reader.rs - crate::parsing_reader::BufReadParsing as *assumed* contracts, for
// units whose subject merely calls these readers.  The contracts are copied verbatim from the
// ensures clauses PROVED on the real default methods in units/U71_parsing_reader.vu.
// Include after shims/io.rs.
// ---------------------------------------------------------------------------------
//@trusted T4 BufReadParsing::{read_u8, read_be_u16, read_be_u32}: Ok(v) means the stream held enough bytes, v is the big-endian value of exactly the next 1/2/4 bytes and exactly those are consumed; on Err nothing is known (proved in U71)
pub trait BufReadParsing: io::BufRead + Sized {
    fn read_u8(&mut self) -> (r: io::Result<u8>)
        ensures match r {
            Ok(v) => old(self).rest().len() >= 1 && v == old(self).rest()[0] && (*final(self)).rest() == old(self).rest().skip(1),
            Err(_) => true };
    fn read_be_u16(&mut self) -> (r: io::Result<u16>)
        ensures match r {
            Ok(v) => old(self).rest().len() >= 2 && be16(v) == old(self).rest().subrange(0, 2) && (*final(self)).rest() == old(self).rest().skip(2),
            Err(_) => true };
    fn read_be_u32(&mut self) -> (r: io::Result<u32>)
        ensures match r {
            Ok(v) => old(self).rest().len() >= 4 && be32(v) == old(self).rest().subrange(0, 4) && (*final(self)).rest() == old(self).rest().skip(4),
            Err(_) => true };
}
impl<B: io::BufRead> BufReadParsing for B {
    #[verifier::external_body]
    fn read_u8(&mut self) -> (r: io::Result<u8>) { unimplemented!() }
    #[verifier::external_body]
    fn read_be_u16(&mut self) -> (r: io::Result<u16>) { unimplemented!() }
    #[verifier::external_body]
    fn read_be_u32(&mut self) -> (r: io::Result<u32>) { unimplemented!() }
}
