// ---------------------------------------------------------------------------------
// shims/buffer_redux.rs - assumed contracts for buffer_redux 1.0.2 `Buffer` and `BufReader<R>`
// (std_buf backend: a fixed window [pos, end) inside a fixed capacity; nothing is ever moved or
// grown by the methods used in src/base64/decoder.rs).  Include after shims/io.rs.
// ---------------------------------------------------------------------------------

//@trusted T2 buffer_redux::Buffer: content view(), free space usable() at the tail; is_empty/len; copy_to_slice(out) moves min(len, out.len()) bytes to the front of out and consumes them; copy_from_slice(src) appends min(usable, src.len()) bytes WITHOUT growing and returns that count; a buffer that becomes empty is reset, i.e. usable() == capacity(); with_capacity(c) has capacity() >= c
#[verifier::external_body]
pub struct Buffer { b: Vec<u8> }
impl View for Buffer { type V = Seq<u8>; uninterp spec fn view(&self) -> Seq<u8>; }
impl Buffer {
    pub uninterp spec fn usable(&self) -> nat;
    pub uninterp spec fn capacity(&self) -> nat;
    #[verifier::external_body]
    pub proof fn axiom_empty_reset(&self)
        ensures self@.len() + self.usable() <= self.capacity(), self@.len() == 0 ==> self.usable() == self.capacity()
    {}
    #[verifier::external_body]
    pub fn with_capacity(cap: usize) -> (r: Buffer) ensures r@.len() == 0, r.capacity() >= cap, r.usable() == r.capacity() { unimplemented!() }
    #[verifier::external_body]
    pub fn is_empty(&self) -> (r: bool) ensures r == (self@.len() == 0) { unimplemented!() }
    #[verifier::external_body]
    pub fn len(&self) -> (r: usize) ensures r == self@.len() { unimplemented!() }
    #[verifier::external_body]
    pub fn copy_to_slice(&mut self, out: &mut [u8]) -> (r: usize)
        ensures
            r == (if old(self)@.len() <= old(out)@.len() { old(self)@.len() } else { old(out)@.len() }),
            final(out)@.len() == old(out)@.len(),
            final(out)@.subrange(0, r as int) == old(self)@.subrange(0, r as int),
            final(out)@.subrange(r as int, old(out)@.len() as int) == old(out)@.subrange(r as int, old(out)@.len() as int),
            final(self)@ == old(self)@.skip(r as int),
            final(self).capacity() == old(self).capacity(),
    { unimplemented!() }
    #[verifier::external_body]
    pub fn copy_from_slice(&mut self, src: &[u8]) -> (r: usize)
        ensures
            r == (if old(self).usable() <= src@.len() { old(self).usable() } else { src@.len() }),
            final(self)@ == old(self)@ + src@.subrange(0, r as int),
            final(self).usable() == old(self).usable() - r,
            final(self).capacity() == old(self).capacity(),
    { unimplemented!() }
}

//@trusted T2 buffer_redux::BufReader<R: Read>: window() = buffered bytes, space() = free room behind them (both inside a fixed capacity cap(); an empty window is reset so that space() == cap()), src() = what the wrapped reader still holds (io::Read::rest); buf_len()/buffer() expose the window; read_into_buf() performs at most ONE read of the wrapped reader into the free room (Ok(0) without reading when space() == 0) and appends what it got; consume(n) drops min(n, len) bytes from the front of the window; nothing else changes
#[verifier::external_body]
#[verifier::accept_recursive_types(R)]
pub struct BufReader<R> { r: R }
impl<R: io::Read> BufReader<R> {
    pub uninterp spec fn window(&self) -> Seq<u8>;
    pub uninterp spec fn space(&self) -> nat;
    pub uninterp spec fn src(&self) -> Seq<u8>;
    pub uninterp spec fn cap(&self) -> nat;
    /// window and free room live inside the fixed capacity; an empty window is reset to the start (StdBuf::check_cursors)
    #[verifier::external_body]
    pub proof fn axiom_window_reset(&self)
        ensures self.window().len() + self.space() <= self.cap(), self.window().len() == 0 ==> self.space() == self.cap()
    {}
    #[verifier::external_body]
    pub fn with_capacity(cap: usize, inner: R) -> (r: BufReader<R>) ensures r.window().len() == 0, r.cap() >= cap, r.space() == r.cap(), r.src() == inner.rest() { unimplemented!() }
    #[verifier::external_body]
    pub fn buf_len(&self) -> (r: usize) ensures r == self.window().len() { unimplemented!() }
    #[verifier::external_body]
    pub fn buffer(&self) -> (r: &[u8]) ensures r@ == self.window() { unimplemented!() }
    #[verifier::external_body]
    pub fn read_into_buf(&mut self) -> (r: io::Result<usize>)
        ensures match r {
            Ok(n) => n <= old(self).space() && n <= old(self).src().len()
                && final(self).window() == old(self).window() + old(self).src().subrange(0, n as int)
                && final(self).src() == old(self).src().skip(n as int)
                && final(self).space() == old(self).space() - n
                && final(self).cap() == old(self).cap()
                // the wrapped reader's own contract: 0 only for no room or end of stream; otherwise ANY short count
                && (n == 0 ==> old(self).space() == 0 || old(self).src().len() == 0),
            Err(_) => final(self).window() == old(self).window() && final(self).cap() == old(self).cap(),
        }
    { unimplemented!() }
    #[verifier::external_body]
    pub fn consume(&mut self, amt: usize)
        ensures
            final(self).window() == old(self).window().skip(if amt as nat <= old(self).window().len() { amt as int } else { old(self).window().len() as int }),
            final(self).src() == old(self).src(),
            final(self).space() >= old(self).space(),
            final(self).cap() == old(self).cap(),
    { unimplemented!() }
}
