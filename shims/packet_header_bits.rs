// ---------------------------------------------------------------------------------
// shims/packet_header_bits.rs - hand-written models of the macro-generated header types:
//   * `Tag` (src/types/packet.rs): hand-written From<u8>/From<Tag> pair over an enum with
//     newtype payloads; verified separately (Kani) to be mutually inverse bijections u8 <-> Tag.
//     Modelled as an abstract value that carries its Packet Type ID.
//   * `OldPacketHeader`, `NewPacketHeader` and their `*Builder`s (src/packet/header.rs): generated
//     by `#[bitfield(u8, order = msb)]` of the `bitfields` crate 1.0.0.  The model is the u8
//     the tuple struct wraps; accessor contracts transcribe the generated code
//     (bitfields-impl-1.0.0/src/generation/*.rs): from_bits/into_bits are the identity on all 8
//     bits (from_bits ignores field defaults), a getter is (val >> offset) & mask, an unchecked
//     builder setter masks its argument to the field width, a checked setter rejects values that
//     do not fit.  Bit layout (msb order): Old = 1 | 0 | tag:4 | length_type:2,  New = 1 | 1 | tag:6.
//     Stated arithmetically:  x >> k == x / 2^k,  x & (2^k - 1) == x % 2^k.
// Include after shims/io.rs.
// ---------------------------------------------------------------------------------
//@trusted T7 Tag <-> u8: u8::from(tag) is the Packet Type ID, Tag::from(v) is the unique Tag with that ID (all 256 values; verified separately with Kani)
#[derive(Clone, Copy)]
pub struct Tag { pub id: u8 }
impl core::convert::From<Tag> for u8 {
    #[verifier::external_body]
    fn from(value: Tag) -> (r: u8) ensures r == value.id { unimplemented!() }
}
impl core::convert::From<u8> for Tag {
    #[verifier::external_body]
    fn from(value: u8) -> (r: Tag) ensures r.id == value { unimplemented!() }
}

//@trusted T7 bitfields-generated OldPacketHeader(u8): from_bits/into_bits identity; tag() = bits 5..2; length_type() = bits 1..0; builder new() = 0b1000_0000, checked_with_tag rejects exactly values > 15, with_length_type masks to 2 bits
#[derive(Clone, Copy)]
pub struct OldPacketHeader { pub bits: u8 }
impl OldPacketHeader {
    #[verifier::external_body]
    pub fn from_bits(bits: u8) -> (r: Self) ensures r.bits == bits { unimplemented!() }
    #[verifier::external_body]
    pub fn into_bits(self) -> (r: u8) ensures r == self.bits { unimplemented!() }
    #[verifier::external_body]
    pub fn tag(&self) -> (r: u8) ensures r == (self.bits / 4) % 16 { unimplemented!() }
    #[verifier::external_body]
    pub fn length_type(&self) -> (r: u8) ensures r == self.bits % 4 { unimplemented!() }
}
pub struct OldPacketHeaderBuilder { pub this: OldPacketHeader }
impl OldPacketHeaderBuilder {
    #[verifier::external_body]
    pub fn new() -> (r: Self) ensures r.this.bits == 128 { unimplemented!() }
    #[verifier::external_body]
    pub fn checked_with_tag(self, bits: u8) -> (r: core::result::Result<Self, &'static str>)
        ensures match r {
            Ok(b) => bits <= 15 && b.this.bits == self.this.bits - ((self.this.bits / 4) % 16) * 4 + bits * 4,
            Err(_) => bits > 15 }
    { unimplemented!() }
    #[verifier::external_body]
    pub fn with_length_type(self, bits: u8) -> (r: Self)
        ensures r.this.bits == self.this.bits - self.this.bits % 4 + bits % 4
    { unimplemented!() }
    #[verifier::external_body]
    pub fn build(self) -> (r: OldPacketHeader) ensures r == self.this { unimplemented!() }
}

//@trusted T7 bitfields-generated NewPacketHeader(u8): from_bits/into_bits identity; tag() = bits 5..0; builder new() = 0b1100_0000, with_tag masks its argument to 6 bits
#[derive(Clone, Copy)]
pub struct NewPacketHeader { pub bits: u8 }
impl NewPacketHeader {
    #[verifier::external_body]
    pub fn from_bits(bits: u8) -> (r: Self) ensures r.bits == bits { unimplemented!() }
    #[verifier::external_body]
    pub fn into_bits(self) -> (r: u8) ensures r == self.bits { unimplemented!() }
    #[verifier::external_body]
    pub fn tag(&self) -> (r: u8) ensures r == self.bits % 64 { unimplemented!() }
}
pub struct NewPacketHeaderBuilder { pub this: NewPacketHeader }
impl NewPacketHeaderBuilder {
    #[verifier::external_body]
    pub fn new() -> (r: Self) ensures r.this.bits == 192 { unimplemented!() }
    #[verifier::external_body]
    pub fn with_tag(self, bits: u8) -> (r: Self)
        ensures r.this.bits == self.this.bits - self.this.bits % 64 + bits % 64
    { unimplemented!() }
    #[verifier::external_body]
    pub fn build(self) -> (r: NewPacketHeader) ensures r == self.this { unimplemented!() }
}
