// shims/digest.rs - ghost hasher
//@trusted T2 digest::DynDigest is a ghost byte accumulator: update(d) appends d to view(); the digest is an uninterpreted function of view()
pub trait DynDigest {
    spec fn view(&self) -> Seq<u8>;
    fn update(&mut self, data: &[u8])
        ensures final(self).view() == old(self).view() + data@;
}

