// shims/mem.rs - std::mem::{replace, take}
//@trusted T2 std::mem::replace(dest, src) stores src in *dest and returns the previous value of *dest
pub assume_specification<T> [core::mem::replace::<T>] (dest: &mut T, src: T) -> (r: T)
    ensures *final(dest) == src, r == *old(dest);
