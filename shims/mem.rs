// shims/mem.rs - std::mem::{replace, take}
//@trusted T2 std::mem::replace(dest, src) stores src in *dest and returns the previous value of *dest
pub assume_specification<T> [core::mem::replace::<T>] (dest: &mut T, src: T) -> (r: T)
    ensures *final(dest) == src, r == *old(dest);
//@trusted T2 std::mem::take(dest) returns the previous value of *dest (nothing is assumed about the Default value left behind)
pub assume_specification<T: core::default::Default> [core::mem::take::<T>] (dest: &mut T) -> (r: T)
    ensures r == *old(dest);
