// ---------------------------------------------------------------------------------
// shims/convert.rs - `?` on a failed integer conversion (`usize.try_into()?`) inside functions that
// return crate::errors::Result.  The conversions themselves (try_into / into between integer
// types) are specified by vstd.  Include after shims/io.rs.
// ---------------------------------------------------------------------------------
//@trusted T2 crate::errors::Error: From<TryFromIntError> exists and yields an opaque error value
impl core::convert::From<core::num::TryFromIntError> for errors::Error {
    #[verifier::external_body]
    fn from(e: core::num::TryFromIntError) -> (r: errors::Error) { unimplemented!() }
}
