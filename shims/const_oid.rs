// Environment of src/crypto/ecc_curve.rs: const_oid::ObjectIdentifier (crate const-oid 0.9.6), the std string / iterator
// chains `ECCCurve::oid()` is written with (outside the accepted subset: outlined into the two functions below, whose bodies
// are the chains themselves), and `==` on byte slices.  Needs lemmas/oid_base128.rs (oid_octets, oid_arcs_ok) before it.

// ------------------------------------------------------------------ dotted decimal text <-> components (model of std)
/// left-to-right scan of dotted decimal text: Some(components) iff every piece between the dots is a non-empty run of ASCII
/// digits whose value fits u32 - exactly the texts for which `s.split('.').map(|v| v.parse::<u32>().expect(..))` does not
/// panic, apart from pieces with a leading '+' (accepted by u32::from_str, never produced here: they give None = "may panic")
pub open spec fn scan_dotted(s: Seq<char>, i: int, cur: nat, ndig: nat, acc: Seq<u32>) -> Option<Seq<u32>>
    decreases s.len() - i
{
    if i < 0 { None }
    else if i >= s.len() { if ndig >= 1 && cur <= 0xffff_ffff { Some(acc.push(cur as u32)) } else { None } }
    else if s[i] == '.' { if ndig >= 1 && cur <= 0xffff_ffff { scan_dotted(s, i + 1, 0, 0, acc.push(cur as u32)) } else { None } }
    else if 48 <= s[i] as u32 <= 57 { if cur > 0xffff_ffff { None } else { scan_dotted(s, i + 1, cur * 10 + (s[i] as u32 - 48) as nat, ndig + 1, acc) } }
    else { None }
}
pub open spec fn dotted_parse(s: Seq<char>) -> Option<Seq<u32>> { scan_dotted(s, 0, 0, 0, Seq::<u32>::empty()) }

//@trusted T2 std str::split('.') + str::parse::<u32>() + Iterator::map/collect::<Vec<u32>>() (outlined verbatim from ECCCurve::oid into split_dots_parse_u32): for a text made of non-empty runs of ASCII digits (each <= u32::MAX) separated by '.', no piece fails to parse (expect does not panic) and the Vec holds the decimal values of the pieces in order (dotted_parse)
#[verifier::external_body]
pub fn split_dots_parse_u32(s: String) -> (r: Vec<u32>)
    requires dotted_parse(s@) is Some,
    ensures r@ == dotted_parse(s@)->Some_0,
{
    s.split('.').map(|v| v.parse::<u32>().expect("bad oid string")).collect()
}

// ------------------------------------------------------------------ iter().flat_map(f).collect()
/// `r` is the concatenation, in order, of one result of `f` for each element of `v`
pub open spec fn flat_split(head: Seq<u8>, o: Vec<u8>) -> bool { true }   // (trigger term only: a recursive call cannot serve as trigger across fuel levels)
pub open spec fn flat_map_rel<F: Fn(&u32) -> Vec<u8>>(f: F, v: Seq<u32>, r: Seq<u8>) -> bool
    decreases v.len()
{
    if v.len() == 0 { r.len() == 0 }
    else { exists|head: Seq<u8>, o: Vec<u8>| #[trigger] flat_split(head, o) && flat_map_rel(f, v.drop_last(), head) && call_ensures(f, (&v.last(),), o) && r == head + o@ }
}

//@trusted T2 std slice::iter() + Iterator::flat_map(f) + collect::<Vec<u8>>() (outlined verbatim from ECCCurve::oid into iter_flat_map_collect): f is called once per element, in order, and the Vec is the concatenation of the Vecs it returned (flat_map_rel)
#[verifier::external_body]
pub fn iter_flat_map_collect<F: Fn(&u32) -> Vec<u8>>(v: &Vec<u32>, f: F) -> (r: Vec<u8>)
    requires forall|i: int| #![trigger v@[i]] 0 <= i < v@.len() ==> call_requires(f, (&v@[i],)),
    ensures flat_map_rel(f, v@, r@),
{
    v.iter().flat_map(f).collect()
}

// ------------------------------------------------------------------ == on byte slices
pub mod slice_eq_axioms {
    use vstd::prelude::*;
    #[verifier::external_body]
    pub broadcast proof fn axiom_slice_ref_eq_u8(a: &[u8], b: &[u8])
        ensures #[trigger] vstd::std_specs::cmp::PartialEqSpec::eq_spec(&a, &b) == (a@ == b@) { }
    #[verifier::external_body]
    pub broadcast proof fn axiom_slice_eq_u8(a: &[u8], b: &[u8])
        ensures #[trigger] vstd::std_specs::cmp::PartialEqSpec::eq_spec(a, b) == (a@ == b@) { }
}
//@trusted T2 `==` between two `&[u8]` (and between two `[u8]`) is equality of the element sequences
// (the unit's single `broadcast use` names slice_eq_axioms::axiom_slice_ref_eq_u8 and slice_eq_axioms::axiom_slice_eq_u8)

// ------------------------------------------------------------------ const_oid::ObjectIdentifier
//@trusted T2 const_oid::ObjectIdentifier 0.9.6: a value keeps the BER contents octets it was built from (ber(); from_bytes stores its argument verbatim and accepts only 3..=39 octets) and denotes the components comps(): at least 3, first <= 2, second <= 39 (ONE root octet 40*X+Y); if ber() is the X.690 encoding of components a (oid_octets(a), fewest octets) then comps() == a (Arcs::try_next folds 7-bit groups, which is exact for values < 2^32); Display prints comps() in decimal separated by '.' (so dotted_parse(to_string()) == Some(comps())).  NOT assumed: that from_bytes rejects non-minimal series (it does not) or accepts every u32 component (it refuses a 5-octet series whose LAST octet is > 0x0f)
#[verifier::external_body]
#[derive(Clone, Copy)]
pub struct ObjectIdentifier { length: u8, bytes: [u8; 39] }
#[verifier::external_body]
pub struct OidError { e: u8 }

/// the octet strings ObjectIdentifier::from_bytes accepts (a pure function of its argument; only bounded here: 3..=39 octets)
pub uninterp spec fn constoid_accepts(b: Seq<u8>) -> bool;

pub open spec fn constoid_valid(a: Seq<u32>) -> bool {
    a.len() >= 3 && a[0] <= 2 && a[1] <= 39
}

impl ObjectIdentifier {
    pub uninterp spec fn ber(&self) -> Seq<u8>;
    pub uninterp spec fn comps(&self) -> Seq<u32>;

    #[verifier::external_body]
    pub proof fn axiom_valid(&self)
        ensures constoid_valid(self.comps()), 3 <= self.ber().len() <= 39 { }

    #[verifier::external_body]
    pub proof fn axiom_canonical_decodes(&self, a: Seq<u32>)
        requires oid_arcs_ok(a), oid_octets(a) == self.ber()
        ensures self.comps() == a { }

    #[verifier::external_body]
    pub fn from_bytes(ber_bytes: &[u8]) -> (r: Result<ObjectIdentifier, OidError>)
        ensures
            r is Ok == constoid_accepts(ber_bytes@),
            r matches Ok(o) ==> o.ber() == ber_bytes@,
            !(3 <= ber_bytes@.len() <= 39) ==> r is Err,
    { unimplemented!() }

    #[verifier::external_body]
    pub fn as_bytes(&self) -> (r: &[u8]) ensures r@ == self.ber(), 3 <= r@.len() <= 39 { unimplemented!() }

    /// `impl Display` through the blanket ToString
    #[verifier::external_body]
    pub fn to_string(&self) -> (r: String) ensures dotted_parse(r@) == Some(self.comps()), constoid_valid(self.comps()) { unimplemented!() }

    #[verifier::external_body]
    pub fn len(&self) -> (r: usize) ensures r == self.comps().len(), constoid_valid(self.comps()) { unimplemented!() }

    #[verifier::external_body]
    pub fn arc(&self, index: usize) -> (r: Option<u32>)
        ensures r == (if index < self.comps().len() { Some(self.comps()[index as int]) } else { None::<u32> }) { unimplemented!() }

    /// `arcs()` returns the iterator `Arcs`; stand-in: the components collected (no postcondition beyond the components)
    #[verifier::external_body]
    pub fn arcs(&self) -> (r: Vec<u32>) ensures r@ == self.comps(), constoid_valid(self.comps()) { unimplemented!() }

    // the remaining constructors / accessors of the real type: present so that code that starts using them stays within reach; no postcondition
    #[verifier::external_body]
    pub fn new(s: &str) -> (r: Result<ObjectIdentifier, OidError>) { unimplemented!() }
    #[verifier::external_body]
    pub fn new_unwrap(s: &str) -> (r: ObjectIdentifier) { unimplemented!() }
    #[verifier::external_body]
    pub fn from_arcs(arcs: Vec<u32>) -> (r: Result<ObjectIdentifier, OidError>) { unimplemented!() }
    #[verifier::external_body]
    pub fn parent(&self) -> (r: Option<ObjectIdentifier>) { unimplemented!() }
    #[verifier::external_body]
    pub fn push_arc(self, arc: u32) -> (r: Result<ObjectIdentifier, OidError>) { unimplemented!() }
}
