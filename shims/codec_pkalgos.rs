// ---------------------------------------------------------------------------------
// shims/codec_pkalgos.rs - algorithm-id enums and small value types for the PKESK unit (U63s), which
// matches on the VARIANTS of crypto::public_key::PublicKeyAlgorithm and therefore cannot use the
// opaque PublicKeyAlgorithm of shims/secret_algos.rs.  SymmetricKeyAlgorithm and KeyVersion are
// copied verbatim from shims/secret_algos.rs, KeyId / PacketHeader / the KeyVersion octet maps from
// shims/codec_sigtypes.rs (do not combine with either).  Scope: the default feature set (draft-pqc
// OFF), i.e. without the ML-KEM / ML-DSA / SLH-DSA algorithm ids.
// Include after shims/io.rs and shims/bytes.rs, inside verus!{}.
// ---------------------------------------------------------------------------------
use vstd::std_specs::cmp::PartialEqSpecImpl;

//@trusted T7 num_enum FromPrimitive/IntoPrimitive (+ #[num_enum(catch_all)]) on PublicKeyAlgorithm, SymmetricKeyAlgorithm, KeyVersion: variant lists and discriminants copied from the repo (RFC 9580 9.1 / 9.3); From<u8> maps a listed discriminant to its variant and every other octet v to the catch-all (Unknown(v) / Other(v)); From<Enum> for u8 maps a variant to its discriminant and the catch-all to its payload.  Hence u8 -> enum -> u8 is the identity for all 256 octets
//@trusted T7 derive(PartialEq, Clone, Copy) on these enums is structural equality / bit copy
#[derive(Clone, Copy)]
pub enum PublicKeyAlgorithm { RSA, RSAEncrypt, RSASign, ElgamalEncrypt, DSA, ECDH, ECDSA, Elgamal, DiffieHellman, EdDSALegacy, X25519, X448, Ed25519, Ed448, Private100, Private101, Private102, Private103, Private104, Private105, Private106, Private107, Private108, Private109, Private110, Unknown(u8) }
/// RFC 9580 9.1 (Table 18): public-key algorithm ids
pub open spec fn pk_to_u8(a: PublicKeyAlgorithm) -> u8 {
    match a {
        PublicKeyAlgorithm::RSA => 1,
        PublicKeyAlgorithm::RSAEncrypt => 2,
        PublicKeyAlgorithm::RSASign => 3,
        PublicKeyAlgorithm::ElgamalEncrypt => 16,
        PublicKeyAlgorithm::DSA => 17,
        PublicKeyAlgorithm::ECDH => 18,
        PublicKeyAlgorithm::ECDSA => 19,
        PublicKeyAlgorithm::Elgamal => 20,
        PublicKeyAlgorithm::DiffieHellman => 21,
        PublicKeyAlgorithm::EdDSALegacy => 22,
        PublicKeyAlgorithm::X25519 => 25,
        PublicKeyAlgorithm::X448 => 26,
        PublicKeyAlgorithm::Ed25519 => 27,
        PublicKeyAlgorithm::Ed448 => 28,
        PublicKeyAlgorithm::Private100 => 100,
        PublicKeyAlgorithm::Private101 => 101,
        PublicKeyAlgorithm::Private102 => 102,
        PublicKeyAlgorithm::Private103 => 103,
        PublicKeyAlgorithm::Private104 => 104,
        PublicKeyAlgorithm::Private105 => 105,
        PublicKeyAlgorithm::Private106 => 106,
        PublicKeyAlgorithm::Private107 => 107,
        PublicKeyAlgorithm::Private108 => 108,
        PublicKeyAlgorithm::Private109 => 109,
        PublicKeyAlgorithm::Private110 => 110,
        PublicKeyAlgorithm::Unknown(v) => v,
    }
}
pub open spec fn pk_from_u8(v: u8) -> PublicKeyAlgorithm {
    if v == 1 { PublicKeyAlgorithm::RSA }
    else if v == 2 { PublicKeyAlgorithm::RSAEncrypt }
    else if v == 3 { PublicKeyAlgorithm::RSASign }
    else if v == 16 { PublicKeyAlgorithm::ElgamalEncrypt }
    else if v == 17 { PublicKeyAlgorithm::DSA }
    else if v == 18 { PublicKeyAlgorithm::ECDH }
    else if v == 19 { PublicKeyAlgorithm::ECDSA }
    else if v == 20 { PublicKeyAlgorithm::Elgamal }
    else if v == 21 { PublicKeyAlgorithm::DiffieHellman }
    else if v == 22 { PublicKeyAlgorithm::EdDSALegacy }
    else if v == 25 { PublicKeyAlgorithm::X25519 }
    else if v == 26 { PublicKeyAlgorithm::X448 }
    else if v == 27 { PublicKeyAlgorithm::Ed25519 }
    else if v == 28 { PublicKeyAlgorithm::Ed448 }
    else if v == 100 { PublicKeyAlgorithm::Private100 }
    else if v == 101 { PublicKeyAlgorithm::Private101 }
    else if v == 102 { PublicKeyAlgorithm::Private102 }
    else if v == 103 { PublicKeyAlgorithm::Private103 }
    else if v == 104 { PublicKeyAlgorithm::Private104 }
    else if v == 105 { PublicKeyAlgorithm::Private105 }
    else if v == 106 { PublicKeyAlgorithm::Private106 }
    else if v == 107 { PublicKeyAlgorithm::Private107 }
    else if v == 108 { PublicKeyAlgorithm::Private108 }
    else if v == 109 { PublicKeyAlgorithm::Private109 }
    else if v == 110 { PublicKeyAlgorithm::Private110 }
    else { PublicKeyAlgorithm::Unknown(v) }
}
impl core::convert::From<u8> for PublicKeyAlgorithm {
    #[verifier::external_body]
    fn from(v: u8) -> (r: PublicKeyAlgorithm) ensures r == pk_from_u8(v) { unimplemented!() }
}
impl core::convert::From<PublicKeyAlgorithm> for u8 {
    #[verifier::external_body]
    fn from(a: PublicKeyAlgorithm) -> (r: u8) ensures r == pk_to_u8(a) { unimplemented!() }
}
pub proof fn lemma_pk_round_trip(v: u8)
    ensures pk_to_u8(pk_from_u8(v)) == v
{}

#[derive(Clone, Copy)]
pub enum SymmetricKeyAlgorithm { Plaintext, IDEA, TripleDES, CAST5, Blowfish, AES128, AES192, AES256, Twofish, Camellia128, Camellia192, Camellia256, Private10, Other(u8) }

pub open spec fn sym_to_u8(a: SymmetricKeyAlgorithm) -> u8 {
    match a {
        SymmetricKeyAlgorithm::Plaintext => 0, SymmetricKeyAlgorithm::IDEA => 1, SymmetricKeyAlgorithm::TripleDES => 2,
        SymmetricKeyAlgorithm::CAST5 => 3, SymmetricKeyAlgorithm::Blowfish => 4, SymmetricKeyAlgorithm::AES128 => 7,
        SymmetricKeyAlgorithm::AES192 => 8, SymmetricKeyAlgorithm::AES256 => 9, SymmetricKeyAlgorithm::Twofish => 10,
        SymmetricKeyAlgorithm::Camellia128 => 11, SymmetricKeyAlgorithm::Camellia192 => 12, SymmetricKeyAlgorithm::Camellia256 => 13,
        SymmetricKeyAlgorithm::Private10 => 110, SymmetricKeyAlgorithm::Other(v) => v,
    }
}
pub open spec fn sym_from_u8(v: u8) -> SymmetricKeyAlgorithm {
    if v == 0 { SymmetricKeyAlgorithm::Plaintext } else if v == 1 { SymmetricKeyAlgorithm::IDEA } else if v == 2 { SymmetricKeyAlgorithm::TripleDES }
    else if v == 3 { SymmetricKeyAlgorithm::CAST5 } else if v == 4 { SymmetricKeyAlgorithm::Blowfish } else if v == 7 { SymmetricKeyAlgorithm::AES128 }
    else if v == 8 { SymmetricKeyAlgorithm::AES192 } else if v == 9 { SymmetricKeyAlgorithm::AES256 } else if v == 10 { SymmetricKeyAlgorithm::Twofish }
    else if v == 11 { SymmetricKeyAlgorithm::Camellia128 } else if v == 12 { SymmetricKeyAlgorithm::Camellia192 } else if v == 13 { SymmetricKeyAlgorithm::Camellia256 }
    else if v == 110 { SymmetricKeyAlgorithm::Private10 } else { SymmetricKeyAlgorithm::Other(v) }
}
impl core::convert::From<u8> for SymmetricKeyAlgorithm {
    #[verifier::external_body]
    fn from(v: u8) -> (r: SymmetricKeyAlgorithm) ensures r == sym_from_u8(v) { unimplemented!() }
}
impl core::convert::From<SymmetricKeyAlgorithm> for u8 {
    #[verifier::external_body]
    fn from(a: SymmetricKeyAlgorithm) -> (r: u8) ensures r == sym_to_u8(a) { unimplemented!() }
}
impl PartialEqSpecImpl for SymmetricKeyAlgorithm {
    open spec fn obeys_eq_spec() -> bool { true }
    open spec fn eq_spec(&self, other: &SymmetricKeyAlgorithm) -> bool { *self == *other }
}
impl PartialEq for SymmetricKeyAlgorithm {
    #[verifier::external_body]
    fn eq(&self, other: &SymmetricKeyAlgorithm) -> (r: bool) { unimplemented!() }
}


#[derive(Clone, Copy)]
pub enum KeyVersion { V2, V3, V4, V5, V6, Other(u8) }
impl PartialEqSpecImpl for KeyVersion {
    open spec fn obeys_eq_spec() -> bool { true }
    open spec fn eq_spec(&self, other: &KeyVersion) -> bool { *self == *other }
}
impl PartialEq for KeyVersion {
    #[verifier::external_body]
    fn eq(&self, other: &KeyVersion) -> (r: bool) { unimplemented!() }
}


pub open spec fn kv_to_u8(v: KeyVersion) -> u8 {
    match v {
        KeyVersion::V2 => 2, KeyVersion::V3 => 3, KeyVersion::V4 => 4,
        KeyVersion::V5 => 5, KeyVersion::V6 => 6, KeyVersion::Other(n) => n,
    }
}
pub open spec fn kv_from_u8(v: u8) -> KeyVersion {
    if v == 2 { KeyVersion::V2 } else if v == 3 { KeyVersion::V3 } else if v == 4 { KeyVersion::V4 }
    else if v == 5 { KeyVersion::V5 } else if v == 6 { KeyVersion::V6 } else { KeyVersion::Other(v) }
}
impl core::convert::From<u8> for KeyVersion {
    #[verifier::external_body]
    fn from(v: u8) -> (r: KeyVersion) ensures r == kv_from_u8(v) { unimplemented!() }
}
impl core::convert::From<KeyVersion> for u8 {
    #[verifier::external_body]
    fn from(v: KeyVersion) -> (r: u8) ensures r == kv_to_u8(v) { unimplemented!() }
}


// ---- small value types ------------------------------------------------------------
//@trusted T7 KeyId is 8 octets (src/types/key_id.rs: From<[u8; 8]>, AsRef<[u8]>); Timestamp / Duration are a u32 of seconds (from_secs / as_secs)
#[derive(Clone, Copy)]
pub struct KeyId(pub [u8; 8]);
impl vstd::std_specs::convert::FromSpecImpl<[u8; 8]> for KeyId {
    open spec fn obeys_from_spec() -> bool { true }
    open spec fn from_spec(a: [u8; 8]) -> KeyId { KeyId(a) }
}
impl core::convert::From<[u8; 8]> for KeyId {
    fn from(value: [u8; 8]) -> (r: KeyId) { KeyId(value) }
}
impl KeyId {
    // AsRef<[u8]>::as_ref as an inherent method (method-call syntax in the sources resolves to it)
    pub fn as_ref(&self) -> (r: &[u8]) ensures r@ == self.0@ { self.0.as_slice() }
}

//@trusted T4 types::PacketHeaderVersion has the two variants Old / New; packet::PacketHeader is an opaque value that packet bodies only store and hand back (version() reads its format)
#[derive(Clone, Copy)]
pub enum PacketHeaderVersion { Old, New }
#[verifier::external_body]
pub struct PacketHeader { p: u8 }
impl PacketHeader {
    pub uninterp spec fn ph_version(&self) -> PacketHeaderVersion;
    #[verifier::external_body]
    pub fn version(&self) -> (r: PacketHeaderVersion) ensures r == self.ph_version() { unimplemented!() }
}


//@trusted T2 a failed integer conversion (TryFromIntError) converts into the opaque crate error via `?`
impl core::convert::From<core::num::TryFromIntError> for errors::Error {
    #[verifier::external_body]
    fn from(e: core::num::TryFromIntError) -> (r: errors::Error) { unimplemented!() }
}
