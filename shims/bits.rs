// ---------------------------------------------------------------------------------
// shims/bits.rs - u32::count_ones (not specified by vstd) and facts about count_ones /
// trailing_zeros of powers of two.  u32::trailing_zeros itself is specified by vstd
// (vstd::std_specs::bits::u32_trailing_zeros + axiom_u32_trailing_zeros).
// Include after `use vstd::prelude::*;` inside verus!{}.
// ---------------------------------------------------------------------------------
use vstd::std_specs::bits::{u32_trailing_zeros, axiom_u32_trailing_zeros};
use vstd::arithmetic::power2::{pow2 as bits_pow2, lemma2_to64 as bits_lemma2_to64, lemma_pow2_unfold as bits_lemma_pow2_unfold, lemma_pow2_pos as bits_lemma_pow2_pos, lemma_pow2_strictly_increases as bits_lemma_pow2_incr};
use vstd::bits::lemma_u32_shl_is_mul;

/// number of one bits of the binary expansion
pub open spec fn popcnt(x: nat) -> nat decreases x { if x == 0 { 0 } else { (x % 2) + popcnt(x / 2) } }
pub open spec fn u32_count_ones(x: u32) -> u32 { popcnt(x as nat) as u32 }

//@trusted T2 u32::count_ones returns the number of one bits of the binary expansion (popcnt)
#[verifier::when_used_as_spec(u32_count_ones)]
pub assume_specification[u32::count_ones](x: u32) -> (r: u32) ensures r == u32_count_ones(x);

pub proof fn lemma_popcnt_pow2(k: nat)
    ensures popcnt(bits_pow2(k)) == 1
    decreases k
{
    bits_lemma_pow2_pos(k);
    if k == 0 {
        bits_lemma2_to64();
        assert(popcnt(1) == 1 + popcnt(0)) by { reveal_with_fuel(popcnt, 2); }
    } else {
        bits_lemma_pow2_unfold(k);
        bits_lemma_pow2_pos((k - 1) as nat);
        assert(bits_pow2(k) / 2 == bits_pow2((k - 1) as nat));
        assert(bits_pow2(k) % 2 == 0);
        lemma_popcnt_pow2((k - 1) as nat);
    }
}

/// 1u32 << k is 2^k
pub proof fn lemma_shl_is_pow2(k: nat)
    requires k <= 31
    ensures (1u32 << (k as u32)) as nat == bits_pow2(k), bits_pow2(k) <= 0x8000_0000
{
    bits_lemma2_to64();
    if k < 31 { bits_lemma_pow2_incr(k, 31); }
    lemma_u32_shl_is_mul(1u32, k as u32);
}

/// count_ones(2^k) == 1 and trailing_zeros(2^k) == k
pub proof fn lemma_bits_of_pow2(n: u32, k: nat)
    requires k <= 31, n as nat == bits_pow2(k)
    ensures u32_count_ones(n) == 1, u32_trailing_zeros(n) == k
{
    lemma_popcnt_pow2(k);
    lemma_shl_is_pow2(k);
    let ku = k as u32;
    assert(n == 1u32 << ku);
    axiom_u32_trailing_zeros(n);
    let tz = u32_trailing_zeros(n);
    assert(n != 0) by (bit_vector) requires n == 1u32 << ku, ku < 32;
    assert(tz < 32);
    // bit j of 1 << k is set iff j == k
    assert(forall|j: u32| j < 32 ==> #[trigger] ((n >> j) & 1u32) == (if j == ku { 1u32 } else { 0u32 })) by (bit_vector)
        requires n == 1u32 << ku, ku < 32;
    assert((n >> tz) & 1u32 == 1u32);
    assert(tz == ku);
}

/// b^e
pub open spec fn ipow(b: nat, e: nat) -> nat decreases e { if e == 0 { 1 } else { b * ipow(b, (e - 1) as nat) } }
pub open spec fn u32_pow(b: u32, e: u32) -> u32 { ipow(b as nat, e as nat) as u32 }
//@trusted T2 u32::pow(b, e) is b^e; overflow (a panic in debug builds, wrap-around in release) is excluded by a precondition
#[verifier::when_used_as_spec(u32_pow)]
pub assume_specification[u32::pow](b: u32, e: u32) -> (r: u32)
    requires ipow(b as nat, e as nat) <= u32::MAX
    ensures r == u32_pow(b, e);
