// ---------------------------------------------------------------------------------
// shims/serlen_b_sig.rs - std / smallvec / bitfield items around signature subpackets for the
// length-agreement sweep units U76b, U76c.  Include after shims/io.rs, shims/bytes.rs,
// shims/serlen_b.rs, shims/secret_algos.rs, shims/serlen_b_types.rs, inside verus!{}.
// ---------------------------------------------------------------------------------

//@trusted T7 smallvec::SmallVec<[T; N]> behaves as a Vec<T> (len, deref to the slice of its elements, indexing by `[..]`); the inline capacity N is not modelled
pub trait ArrayLike { type Item; }
impl<T, const N: usize> ArrayLike for [T; N] { type Item = T; }
pub type SmallVec<A> = Vec<<A as ArrayLike>::Item>;

//@trusted T2 std::string::String: as_bytes() is the UTF-8 encoding of the text (vstd::utf8::encode_utf8 of the char sequence, defined in vstd), len() is the number of octets of that encoding, chars().count() is the number of chars
pub assume_specification[ String::as_bytes ](s: &String) -> (r: &[u8])
    ensures r@ == vstd::utf8::encode_utf8(s@);
pub assume_specification[ String::len ](s: &String) -> (r: usize)
    ensures r == vstd::utf8::encode_utf8(s@).len();
/// `s.chars().count()` (a str iterator chain Verus does not accept)
#[verifier::external_body]
pub fn string_chars_count(s: &String) -> (r: usize)
    ensures r == s@.len()
{ s.chars().count() }

//@trusted T2 core::iter on slices: `s.iter().map(|&a| u8::from(a)).collect::<Vec<_>>()` (resp. `|&a| a.into()`) yields one octet per element; `s.iter().flat_map(|&(a, b)| [a.into(), b.into()]).collect::<Vec<_>>()` yields two octets per element (iterator adaptor chains Verus does not accept; the octet VALUES are not modelled, the sweep only counts)
#[verifier::external_body]
pub fn map_to_octets<T: Copy>(s: &[T]) -> (r: Vec<u8>) where u8: From<T>
    ensures r@.len() == s@.len()
{ s.iter().map(|&a| u8::from(a)).collect::<Vec<_>>() }
#[verifier::external_body]
pub fn pairs_to_octets<A: Copy, B: Copy>(s: &[(A, B)]) -> (r: Vec<u8>) where u8: From<A> + From<B>
    ensures r@.len() == 2 * s@.len()
{ s.iter().flat_map(|&(a, b)| [u8::from(a), u8::from(b)]).collect::<Vec<_>>() }

//@trusted T2 <Bytes as AsRef<[u8]>>::as_ref is the content (as an inherent method: method-call syntax resolves to it)
impl Bytes {
    #[verifier::external_body]
    pub fn as_ref(&self) -> (r: &[u8]) ensures r@ == self@ { unimplemented!() }
}

//@trusted T2 u16::to_le_bytes is [low octet, high octet]; u8::from(bool) is 0 / 1
/// `let [a, b] = x.to_le_bytes();` (an array pattern Verus does not accept) as `let (a, b) = u16_to_le_pair(x);`
#[verifier::external_body]
pub fn u16_to_le_pair(x: u16) -> (r: (u8, u8))
    ensures r.0 == (x & 0xff) as u8, r.1 == (x >> 8) as u8
{ let [a, b] = x.to_le_bytes(); (a, b) }
pub assume_specification[ <u8 as core::convert::From<bool>>::from ](b: bool) -> (r: u8)
    ensures r == (if b { 1u8 } else { 0u8 });

//@trusted T7 bitfields derive on KnownKeyFlags (u16) / KnownFeatures (u8): the value is its bits; into_bits() returns them (KnownKeyFlags from_bits/into_bits identity is checked on the compiled expansion by Kani unit K07c)
#[derive(Clone, Copy)]
pub struct KnownKeyFlags(pub u16);
impl KnownKeyFlags {
    pub fn into_bits(self) -> (r: u16) ensures r == self.0 { self.0 }
}
#[derive(Clone, Copy)]
pub struct KnownFeatures(pub u8);

//@trusted T4 Timestamp / Duration (src/types/timestamp.rs, duration.rs): to_writer appends 4 octets, write_len() == 4 (proved in U76e)
#[verifier::external_body]
#[derive(Clone, Copy)]
pub struct Timestamp { v: u32 }
#[verifier::external_body]
#[derive(Clone, Copy)]
pub struct Duration { v: u32 }
impl Serialize for Timestamp {
    open spec fn spec_write_len(&self) -> nat { 4 }
    open spec fn ser_inv(&self) -> bool { true }
    #[verifier::external_body]
    fn to_writer<W: io::Write>(&self, writer: &mut W) -> (r: errors::Result<()>) { unimplemented!() }
    #[verifier::external_body]
    fn write_len(&self) -> (r: usize) { unimplemented!() }
}
impl Serialize for Duration {
    open spec fn spec_write_len(&self) -> nat { 4 }
    open spec fn ser_inv(&self) -> bool { true }
    #[verifier::external_body]
    fn to_writer<W: io::Write>(&self, writer: &mut W) -> (r: errors::Result<()>) { unimplemented!() }
    #[verifier::external_body]
    fn write_len(&self) -> (r: usize) { unimplemented!() }
}
