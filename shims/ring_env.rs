// ---------------------------------------------------------------------------------
// shims/ring_env.rs - what the session-key search units (U94a, U94b: TheRing::find_session_key / try_decrypt,
// src/composed/message/types.rs) assume about code that is not their subject.
// Include inside verus!{} AFTER shims/io.rs and shims/bytes.rs.  The including unit extracts the REAL
//   enum PkeskVersion, enum SkeskVersion, enum SymmetricKeyAlgorithm, enum EskType, enum PlainSessionKey,
//   struct KeyId, enum Fingerprint, enum PublicKeyEncryptedSessionKey, enum SymKeyEncryptedSessionKey, enum Esk,
//   enum SecretParams, struct SignedSecretKey, struct SignedSecretSubKey, struct DecryptionOptions,
//   enum InnerRingResult, struct RingResult, struct TheRing
// (derive attributes are stripped by R7 and given back by the unit's //@sub lines).
// Do NOT combine with shims/esk_types.rs, shims/pkesk_identity_env.rs, shims/keytypes.rs (same opaque names).
// ---------------------------------------------------------------------------------

//@trusted T7 value types the session-key search never looks into are opaque values: PacketHeader, PkeskBytes, PublicKeyAlgorithm, PublicParams, StringToKey, AeadProps, KeyVersion, Timestamp, PlainSecretParams, EncryptedSecretParams, SignedKeyDetails, SignedPublicSubKey, packet::Signature, Seipdv1ReadMode
#[verifier::external_body] pub struct PacketHeader { v: u8 }
#[verifier::external_body] pub struct PkeskBytes { v: u8 }
#[verifier::external_body] pub struct PublicKeyAlgorithm { v: u8 }
#[verifier::external_body] pub struct PublicParams { v: u8 }
#[verifier::external_body] pub struct StringToKey { v: u8 }
#[verifier::external_body] pub struct AeadProps { v: u8 }
#[verifier::external_body] pub struct KeyVersion { v: u8 }
#[verifier::external_body] pub struct Timestamp { v: u8 }
#[verifier::external_body] pub struct PlainSecretParams { v: u8 }
#[verifier::external_body] pub struct EncryptedSecretParams { v: u8 }
#[verifier::external_body] pub struct SignedKeyDetails { v: u8 }
#[verifier::external_body] pub struct SignedPublicSubKey { v: u8 }
#[verifier::external_body] #[derive(Clone, Copy)] pub struct Seipdv1ReadMode { v: u8 }

//@trusted T7 derive(PartialEq) on PkeskVersion / SkeskVersion (src/types/packet.rs), SymmetricKeyAlgorithm (src/crypto/sym.rs) and InnerRingResult (src/composed/message/types.rs) is structural equality
impl vstd::std_specs::cmp::PartialEqSpecImpl for PkeskVersion {
    open spec fn obeys_eq_spec() -> bool { true }
    open spec fn eq_spec(&self, o: &PkeskVersion) -> bool { *self == *o }
}
impl vstd::std_specs::cmp::PartialEqSpecImpl for SkeskVersion {
    open spec fn obeys_eq_spec() -> bool { true }
    open spec fn eq_spec(&self, o: &SkeskVersion) -> bool { *self == *o }
}
impl vstd::std_specs::cmp::PartialEqSpecImpl for SymmetricKeyAlgorithm {
    open spec fn obeys_eq_spec() -> bool { true }
    open spec fn eq_spec(&self, o: &SymmetricKeyAlgorithm) -> bool { *self == *o }
}
impl vstd::std_specs::cmp::PartialEqSpecImpl for InnerRingResult {
    open spec fn obeys_eq_spec() -> bool { true }
    open spec fn eq_spec(&self, o: &InnerRingResult) -> bool { *self == *o }
}

//@trusted T4 composed::RawSessionKey (src/composed/message/decrypt.rs:43) is a byte string: From<&[u8]> / From<Vec<u8>> copy the octets, as_ref exposes them, len / is_empty are their number; derive(PartialEq) compares the octets
#[verifier::external_body]
pub struct RawSessionKey { v: Vec<u8> }
impl View for RawSessionKey { type V = Seq<u8>; uninterp spec fn view(&self) -> Seq<u8>; }
impl core::convert::From<&[u8]> for RawSessionKey {
    #[verifier::external_body]
    fn from(value: &[u8]) -> (r: RawSessionKey) ensures r@ == value@ { unimplemented!() }
}
impl core::convert::From<Vec<u8>> for RawSessionKey {
    #[verifier::external_body]
    fn from(value: Vec<u8>) -> (r: RawSessionKey) ensures r@ == value@ { unimplemented!() }
}
impl RawSessionKey {
    #[verifier::external_body]
    pub fn as_ref(&self) -> (r: &[u8]) ensures r@ == self@ { unimplemented!() }
    #[verifier::external_body]
    pub fn len(&self) -> (r: usize) ensures r == self@.len() { unimplemented!() }
    #[verifier::external_body]
    pub fn is_empty(&self) -> (r: bool) ensures r == (self@.len() == 0) { unimplemented!() }
}

/// the VALUE of a session key: its generation, (v3/v4) cipher and octets.  This is what derive(PartialEq) on PlainSessionKey compares.
pub enum SkVal { V3_4(SymmetricKeyAlgorithm, Seq<u8>), V5(Seq<u8>), V6(Seq<u8>) }
pub open spec fn sk_val(k: PlainSessionKey) -> SkVal {
    match k {
        PlainSessionKey::V3_4 { sym_alg, key } => SkVal::V3_4(sym_alg, key@),
        PlainSessionKey::V5 { key } => SkVal::V5(key@),
        PlainSessionKey::V6 { key } => SkVal::V6(key@),
    }
}
//@trusted T7 derive(PartialEq) on PlainSessionKey (src/composed/message/decrypt.rs:21) is equality of the session-key VALUE sk_val: same variant, same cipher (V3_4), same octets; `!=` is its negation
impl PartialEq for PlainSessionKey {
    #[verifier::external_body]
    fn eq(&self, o: &PlainSessionKey) -> (r: bool) ensures r == (sk_val(*self) == sk_val(*o)) { unimplemented!() }
}
impl vstd::std_specs::cmp::PartialEqSpecImpl for PlainSessionKey {
    open spec fn obeys_eq_spec() -> bool { true }
    open spec fn eq_spec(&self, o: &PlainSessionKey) -> bool { sk_val(*self) == sk_val(*o) }
}
impl PlainSessionKey {
    #[verifier::external_body]
    pub fn sym_algorithm(&self) -> (r: Option<SymmetricKeyAlgorithm>) { unimplemented!() }
}

//@trusted T7 types::Password (src/types/password.rs) is an opaque value (the passphrase it yields is not modelled here); Password::empty() is one fixed value pw_empty(); read() is unconstrained
#[verifier::external_body]
pub struct Password { v: u8 }
pub uninterp spec fn pw_empty() -> Password;
impl Password {
    #[verifier::external_body]
    pub fn empty() -> (r: Password) ensures r == pw_empty() { unimplemented!() }
    #[verifier::external_body]
    pub fn read(&self) -> (r: Vec<u8>) { unimplemented!() }
}

//@trusted T7 derive(PartialEq) on KeyId (src/types/key_id.rs:16) compares the eight octets; derive(PartialEq) on Fingerprint (src/types/fingerprint.rs:12) is equality of values (same variant, same octets); derive(Clone, Copy) on KeyId is a bit copy (same assumption as shims/pkesk_identity_callees.rs, U14)
impl PartialEq for KeyId {
    #[verifier::external_body]
    fn eq(&self, o: &KeyId) -> (r: bool) ensures r == (kid_bytes(*self) == kid_bytes(*o)) { unimplemented!() }
}
impl vstd::std_specs::cmp::PartialEqSpecImpl for KeyId {
    open spec fn obeys_eq_spec() -> bool { true }
    open spec fn eq_spec(&self, o: &KeyId) -> bool { kid_bytes(*self) == kid_bytes(*o) }
}
impl PartialEq for Fingerprint {
    #[verifier::external_body]
    fn eq(&self, o: &Fingerprint) -> (r: bool) ensures r == (*self == *o) { unimplemented!() }
}
impl vstd::std_specs::cmp::PartialEqSpecImpl for Fingerprint {
    open spec fn obeys_eq_spec() -> bool { true }
    open spec fn eq_spec(&self, o: &Fingerprint) -> bool { *self == *o }
}
/// the all-zero key id (RFC 9580 5.1.8: "wildcard" / anonymous recipient)
pub open spec fn zeros8() -> Seq<u8> { seq![0u8, 0u8, 0u8, 0u8, 0u8, 0u8, 0u8, 0u8] }

//@trusted T3 KeyDetails (src/types/key_traits.rs:17): legacy_key_id() / fingerprint() are pure observers of the key (spec_key_id / spec_fingerprint; their values are the subject of U35/U37); the other observers are unconstrained
pub trait KeyDetails {
    spec fn spec_key_id(&self) -> KeyId;
    spec fn spec_fingerprint(&self) -> Fingerprint;
    fn version(&self) -> KeyVersion;
    fn legacy_key_id(&self) -> (r: KeyId) ensures r == self.spec_key_id();
    fn fingerprint(&self) -> (r: Fingerprint) ensures r == self.spec_fingerprint();
    fn algorithm(&self) -> PublicKeyAlgorithm;
    fn created_at(&self) -> Timestamp;
    fn legacy_v3_expiration_days(&self) -> Option<u16>;
    fn public_params(&self) -> &PublicParams;
}

/// identity of a piece of secret key material (ghost)
pub struct DkId { pub n: int }
/// what DecryptionKey::decrypt yields for key material `id`, key password `pw`, the PKESK's encrypted values and ESK generation:
/// outer Err = the key could not be unlocked with pw; Ok(Err) = unlocked, but the values do not decrypt to a well-formed session key
/// (padding / checksum / algorithm plausibility: U40, U90, U93); Ok(Ok(sk)) = the session key
pub uninterp spec fn dk_decrypt(id: DkId, pw: Password, values: PkeskBytes, typ: EskType) -> errors::Result<errors::Result<PlainSessionKey>>;
//@trusted T3 DecryptionKey::decrypt (src/types/key_traits.rs:192; impls src/packet/key/secret.rs:590/603 = self.unlock(key_pw, |pub, priv| priv.decrypt(pub, values, typ, ..))) is a FUNCTION dk_decrypt of the key material did(), the password, the PKESK values and the ESK generation (RSA blinding randomness does not influence the result); nothing is assumed about its value; the supertrait bound `: KeyDetails` of the real trait is dropped here (this Verus version rejects `&dyn Trait` for a trait with a supertrait that has spec functions; try_decrypt uses the KeyDetails part of `dec` only inside debug!)
pub trait DecryptionKey {
    spec fn did(&self) -> DkId;
    fn decrypt(&self, key_pw: &Password, values: &PkeskBytes, typ: EskType) -> (r: errors::Result<errors::Result<PlainSessionKey>>)
        ensures r == dk_decrypt(self.did(), *key_pw, *values, typ);
}

//@trusted T7 packet::{PublicKey, PublicSubkey, SecretKey, SecretSubkey} (src/packet/key/{public,secret}.rs) are opaque values with the observers used by the search: key id / fingerprint of the public part, public_key() (body `&self.details`), secret_params() (body `&self.secret_params`), PublicSubkey::is_forwardee_key() (feature draft-wussler-openpgp-forwarding; in the default build the guarded statement is absent, which is the case spec_forwardee() == false); a secret key's KeyDetails are those of its public part (secret.rs: delegating impls)
pub mod packet {
    use super::*;
    #[verifier::external_body] pub struct Signature { v: u8 }
    #[verifier::external_body] pub struct PublicKey { v: u8 }
    #[verifier::external_body] pub struct PublicSubkey { v: u8 }
    #[verifier::external_body] pub struct SecretKey { v: u8 }
    #[verifier::external_body] pub struct SecretSubkey { v: u8 }
    pub uninterp spec fn pk_key_id(k: &PublicKey) -> KeyId;
    pub uninterp spec fn pk_fingerprint(k: &PublicKey) -> Fingerprint;
    pub uninterp spec fn psk_key_id(k: &PublicSubkey) -> KeyId;
    pub uninterp spec fn psk_fingerprint(k: &PublicSubkey) -> Fingerprint;
    impl KeyDetails for PublicKey {
        open spec fn spec_key_id(&self) -> KeyId { pk_key_id(self) }
        open spec fn spec_fingerprint(&self) -> Fingerprint { pk_fingerprint(self) }
        #[verifier::external_body] fn version(&self) -> KeyVersion { unimplemented!() }
        #[verifier::external_body] fn legacy_key_id(&self) -> (r: KeyId) { unimplemented!() }
        #[verifier::external_body] fn fingerprint(&self) -> (r: Fingerprint) { unimplemented!() }
        #[verifier::external_body] fn algorithm(&self) -> PublicKeyAlgorithm { unimplemented!() }
        #[verifier::external_body] fn created_at(&self) -> Timestamp { unimplemented!() }
        #[verifier::external_body] fn legacy_v3_expiration_days(&self) -> Option<u16> { unimplemented!() }
        #[verifier::external_body] fn public_params(&self) -> &PublicParams { unimplemented!() }
    }
    impl KeyDetails for PublicSubkey {
        open spec fn spec_key_id(&self) -> KeyId { psk_key_id(self) }
        open spec fn spec_fingerprint(&self) -> Fingerprint { psk_fingerprint(self) }
        #[verifier::external_body] fn version(&self) -> KeyVersion { unimplemented!() }
        #[verifier::external_body] fn legacy_key_id(&self) -> (r: KeyId) { unimplemented!() }
        #[verifier::external_body] fn fingerprint(&self) -> (r: Fingerprint) { unimplemented!() }
        #[verifier::external_body] fn algorithm(&self) -> PublicKeyAlgorithm { unimplemented!() }
        #[verifier::external_body] fn created_at(&self) -> Timestamp { unimplemented!() }
        #[verifier::external_body] fn legacy_v3_expiration_days(&self) -> Option<u16> { unimplemented!() }
        #[verifier::external_body] fn public_params(&self) -> &PublicParams { unimplemented!() }
    }
    impl PublicSubkey {
        pub uninterp spec fn spec_forwardee(&self) -> bool;
        #[verifier::external_body]
        pub fn is_forwardee_key(&self) -> (r: bool) ensures r == self.spec_forwardee() { unimplemented!() }
    }
    impl SecretKey {
        pub uninterp spec fn spec_public(&self) -> PublicKey;
        pub uninterp spec fn spec_params(&self) -> SecretParams;
        pub uninterp spec fn spec_did(&self) -> DkId;
        #[verifier::external_body]
        pub fn public_key(&self) -> (r: &PublicKey) ensures *r == self.spec_public() { unimplemented!() }
        #[verifier::external_body]
        pub fn secret_params(&self) -> (r: &SecretParams) ensures *r == self.spec_params() { unimplemented!() }
        #[verifier::external_body]
        pub fn has_sha1_checksum(&self) -> (r: bool) { unimplemented!() }
    }
    impl SecretSubkey {
        pub uninterp spec fn spec_public(&self) -> PublicSubkey;
        pub uninterp spec fn spec_params(&self) -> SecretParams;
        pub uninterp spec fn spec_did(&self) -> DkId;
        #[verifier::external_body]
        pub fn public_key(&self) -> (r: &PublicSubkey) ensures *r == self.spec_public() { unimplemented!() }
        #[verifier::external_body]
        pub fn secret_params(&self) -> (r: &SecretParams) ensures *r == self.spec_params() { unimplemented!() }
        #[verifier::external_body]
        pub fn has_sha1_checksum(&self) -> (r: bool) { unimplemented!() }
    }
    impl KeyDetails for SecretKey {
        open spec fn spec_key_id(&self) -> KeyId { pk_key_id(&self.spec_public()) }
        open spec fn spec_fingerprint(&self) -> Fingerprint { pk_fingerprint(&self.spec_public()) }
        #[verifier::external_body] fn version(&self) -> KeyVersion { unimplemented!() }
        #[verifier::external_body] fn legacy_key_id(&self) -> (r: KeyId) { unimplemented!() }
        #[verifier::external_body] fn fingerprint(&self) -> (r: Fingerprint) { unimplemented!() }
        #[verifier::external_body] fn algorithm(&self) -> PublicKeyAlgorithm { unimplemented!() }
        #[verifier::external_body] fn created_at(&self) -> Timestamp { unimplemented!() }
        #[verifier::external_body] fn legacy_v3_expiration_days(&self) -> Option<u16> { unimplemented!() }
        #[verifier::external_body] fn public_params(&self) -> &PublicParams { unimplemented!() }
    }
    impl KeyDetails for SecretSubkey {
        open spec fn spec_key_id(&self) -> KeyId { psk_key_id(&self.spec_public()) }
        open spec fn spec_fingerprint(&self) -> Fingerprint { psk_fingerprint(&self.spec_public()) }
        #[verifier::external_body] fn version(&self) -> KeyVersion { unimplemented!() }
        #[verifier::external_body] fn legacy_key_id(&self) -> (r: KeyId) { unimplemented!() }
        #[verifier::external_body] fn fingerprint(&self) -> (r: Fingerprint) { unimplemented!() }
        #[verifier::external_body] fn algorithm(&self) -> PublicKeyAlgorithm { unimplemented!() }
        #[verifier::external_body] fn created_at(&self) -> Timestamp { unimplemented!() }
        #[verifier::external_body] fn legacy_v3_expiration_days(&self) -> Option<u16> { unimplemented!() }
        #[verifier::external_body] fn public_params(&self) -> &PublicParams { unimplemented!() }
    }
    impl DecryptionKey for SecretKey {
        open spec fn did(&self) -> DkId { self.spec_did() }
        #[verifier::external_body]
        fn decrypt(&self, key_pw: &Password, values: &PkeskBytes, typ: EskType) -> (r: errors::Result<errors::Result<PlainSessionKey>>) { unimplemented!() }
    }
    impl DecryptionKey for SecretSubkey {
        open spec fn did(&self) -> DkId { self.spec_did() }
        #[verifier::external_body]
        fn decrypt(&self, key_pw: &Password, values: &PkeskBytes, typ: EskType) -> (r: errors::Result<errors::Result<PlainSessionKey>>) { unimplemented!() }
    }
}

//@trusted T2 `impl Deref for SignedSecretSubKey` (src/composed/signed_key/secret.rs:259, body `&self.key`): the method calls `subkey.public_key()` / `subkey.secret_params()` / `subkey.legacy_key_id()` on a SignedSecretSubKey are those of its `key` field; likewise `impl Deref for SignedSecretKey` (secret.rs:203, body `&self.primary_key`)
impl SignedSecretSubKey {
    #[verifier::external_body]
    pub fn public_key(&self) -> (r: &packet::PublicSubkey) ensures *r == self.key.spec_public() { unimplemented!() }
    #[verifier::external_body]
    pub fn secret_params(&self) -> (r: &SecretParams) ensures *r == self.key.spec_params() { unimplemented!() }
    #[verifier::external_body]
    pub fn legacy_key_id(&self) -> (r: KeyId) ensures r == self.key.spec_key_id() { unimplemented!() }
    #[verifier::external_body]
    pub fn fingerprint(&self) -> (r: Fingerprint) ensures r == self.key.spec_fingerprint() { unimplemented!() }
}
impl SignedSecretKey {
    #[verifier::external_body]
    pub fn public_key(&self) -> (r: &packet::PublicKey) ensures *r == self.primary_key.spec_public() { unimplemented!() }
    #[verifier::external_body]
    pub fn secret_params(&self) -> (r: &SecretParams) ensures *r == self.primary_key.spec_params() { unimplemented!() }
    #[verifier::external_body]
    pub fn legacy_key_id(&self) -> (r: KeyId) ensures r == self.primary_key.spec_key_id() { unimplemented!() }
    #[verifier::external_body]
    pub fn fingerprint(&self) -> (r: Fingerprint) ensures r == self.primary_key.spec_fingerprint() { unimplemented!() }
}

/// what decrypt_session_key_with_password yields for an SKESK packet and a message password
pub uninterp spec fn skesk_pw_decrypt(p: SymKeyEncryptedSessionKey, pw: Password) -> errors::Result<PlainSessionKey>;
//@trusted T3 composed::decrypt_session_key_with_password (src/composed/message/decrypt.rs:92; its S2K / CFB / AEAD steps and the v4 plausibility check are the subject of U12, U92) is a FUNCTION skesk_pw_decrypt of the packet and the password; nothing is assumed about its value (in particular a wrong password MAY yield Ok for a v4 SKESK, which has no integrity protection)
#[verifier::external_body]
pub fn decrypt_session_key_with_password(packet: &SymKeyEncryptedSessionKey, msg_pw: &Password) -> (r: errors::Result<PlainSessionKey>)
    ensures r == skesk_pw_decrypt(*packet, *msg_pw)
{ unimplemented!() }

//@trusted T7 composed::Edata (the encrypted container of a message, src/composed/message/types.rs) is an opaque value that remembers the session key and options it was keyed with: decrypt_with_options(key, options) = Ok means the container reader was initialised with exactly `key` (keyed_with() = Some((key, options))); on Err it stays unkeyed and the caller builds no Message from it.  Whether the key is RIGHT is decided later by the container (SEIPD v1 prefix / MDC, SEIPD v2 AEAD tags: U20-U23), not here
#[verifier::external_body]
pub struct Edata<'a> { v: core::marker::PhantomData<&'a u8> }
impl<'a> Edata<'a> {
    pub uninterp spec fn keyed_with(&self) -> Option<(PlainSessionKey, DecryptionOptions)>;
    #[verifier::external_body]
    pub fn decrypt_with_options(&mut self, key: &PlainSessionKey, options: DecryptionOptions) -> (r: errors::Result<()>)
        ensures
            r is Ok ==> final(self).keyed_with() == Some((*key, options)),
            r is Err ==> final(self).keyed_with() == old(self).keyed_with(),
    { unimplemented!() }
    #[verifier::external_body]
    pub fn decrypt(&mut self, key: &PlainSessionKey) -> (r: errors::Result<()>) { unimplemented!() }
}

//@trusted T2 Iterator semantics: `v.iter().enumerate()` over a Vec / slice yields the pairs (i, &v[i]) for i = 0 .. v.len(), in order; `for x in &v` yields &v[0], &v[1], ..: the unit rewrites these loop HEADS into the index loop `while n < v.len() { let x = &v[n]; n += 1; BODY }` because Verus has no Enumerate adaptor and does not support `continue` in for-loops (the loop bodies are verbatim)
