// ---------------------------------------------------------------------------------
// shims/chunk_size_enum.rs - the num_enum derives on crypto::aead::ChunkSize
// (`#[derive(IntoPrimitive, TryFromPrimitive)] #[repr(u8)]`, src/crypto/aead.rs): the crate has no
// hand written `impl TryFrom<u8> for ChunkSize` / `impl From<ChunkSize> for u8`, both are generated
// by the derive macros from the variant list.  Their meaning is stated here RELATIVE TO THE REAL
// ENUM DECLARATION: the including unit extracts the real `enum ChunkSize` (with its explicit
// discriminants) and this file only speaks about `v as u8`, the declared discriminant.  Nothing
// in this file lists the variants or knows the number 16: that the accepted octets are exactly
// 0..=16 is PROVED in the unit from the extracted declaration.
// Include after the extracted `enum ChunkSize`, inside verus!{}.
// ---------------------------------------------------------------------------------

/// the declared discriminant of a variant (`#[repr(u8)]`)
pub open spec fn chunk_disc(v: ChunkSize) -> u8 { v as u8 }

//@trusted T2 num_enum IntoPrimitive on ChunkSize: `u8::from(v)` / `v.into()` is the declared discriminant `v as u8` of the variant in the extracted enum declaration
impl vstd::std_specs::convert::FromSpecImpl<ChunkSize> for u8 {
    open spec fn obeys_from_spec() -> bool { true }
    open spec fn from_spec(v: ChunkSize) -> u8 { chunk_disc(v) }
}
impl core::convert::From<ChunkSize> for u8 {
    #[verifier::external_body]
    fn from(v: ChunkSize) -> (r: u8) ensures r == chunk_disc(v) { unimplemented!() }
}

//@trusted T2 num_enum TryFromPrimitive on ChunkSize: `ChunkSize::try_from(c)` / `c.try_into()` is Ok(v) for the variant v of the extracted enum declaration whose declared discriminant is c, and Err(TryFromPrimitiveError { number: c }) when no variant has the discriminant c (the derive generates one match arm per declared discriminant and an Err default arm)
pub struct TryFromPrimitiveError { pub number: u8 }
pub open spec fn chunk_has_disc(c: u8) -> bool { exists|v: ChunkSize| #[trigger] chunk_disc(v) == c }
pub open spec fn chunk_try_from(c: u8) -> core::result::Result<ChunkSize, TryFromPrimitiveError> {
    if chunk_has_disc(c) { Ok(choose|v: ChunkSize| #[trigger] chunk_disc(v) == c) } else { Err(TryFromPrimitiveError { number: c }) }
}
impl vstd::std_specs::convert::TryFromSpecImpl<u8> for ChunkSize {
    open spec fn obeys_try_from_spec() -> bool { true }
    open spec fn try_from_spec(c: u8) -> core::result::Result<ChunkSize, TryFromPrimitiveError> { chunk_try_from(c) }
}
impl core::convert::TryFrom<u8> for ChunkSize {
    type Error = TryFromPrimitiveError;
    #[verifier::external_body]
    fn try_from(c: u8) -> (r: core::result::Result<ChunkSize, TryFromPrimitiveError>) { unimplemented!() }
}
