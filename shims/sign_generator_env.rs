// ---------------------------------------------------------------------------------
// shims/sign_generator_env.rs - what the SignGenerator unit (U26) assumes about code that is not its
// subject.  Include AFTER shims/io.rs, shims/bytes.rs, shims/bytes_writer.rs, shims/mem.rs inside
// verus!{}; the unit file must start with `#![feature(allocator_api)]`.
// The unit extracts the REAL SigningConfig, SignGenerator, State, SignatureHashers, SignatureConfig,
// SignatureVersionSpecific, OpsVersionSpecific, Fingerprint, KeyVersion AFTER this file.
// ---------------------------------------------------------------------------------
use std::collections::VecDeque;

//@trusted T2 VecDeque::is_empty is len() == 0 (pop_front / pop_back / push_back / with_capacity / len / index come from vstd::std_specs::vecdeque)
pub assume_specification<T, A: core::alloc::Allocator> [std::collections::VecDeque::<T, A>::is_empty] (q: &VecDeque<T, A>) -> (r: bool)
    ensures r == (q@.len() == 0);

// ---- opaque value types ---------------------------------------------------------------------------------
//@trusted T7 SignatureType, HashAlgorithm, PublicKeyAlgorithm are opaque Copy values (only their identity matters here); KeyId, Timestamp, Password, Subpacket, LiteralDataHeader are opaque values
#[verifier::external_body] #[derive(Clone, Copy)] pub struct SignatureType { v: u8 }
#[verifier::external_body] #[derive(Clone, Copy)] pub struct HashAlgorithm { v: u8 }
#[verifier::external_body] #[derive(Clone, Copy)] pub struct PublicKeyAlgorithm { v: u8 }
#[verifier::external_body] pub struct KeyId { v: [u8; 8] }
#[verifier::external_body] pub struct Timestamp { v: u32 }
#[verifier::external_body] pub struct Password { v: u8 }
#[verifier::external_body] pub struct Subpacket { v: u8 }
#[verifier::external_body] pub struct LiteralDataHeader { v: u8 }

//@trusted T2 rand::{Rng, CryptoRng} are opaque capabilities; `&mut R` is an Rng when R is
pub trait Rng {}
pub trait CryptoRng {}
impl<R: Rng> Rng for &mut R {}
impl<R: CryptoRng> CryptoRng for &mut R {}

//@trusted T7 From<TryFromIntError> for the crate error (only the occurrence of an error is modelled)
impl core::convert::From<core::num::TryFromIntError> for errors::Error {
    #[verifier::external_body]
    fn from(e: core::num::TryFromIntError) -> (r: errors::Error) { unimplemented!() }
}
