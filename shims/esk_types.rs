// ---------------------------------------------------------------------------------
// shims/esk_types.rs - value types around the encrypted-session-key packets (PKESK / SKESK)
// and the encryption containers, for the version-alignment units (U39, U38).
// Include AFTER shims/io.rs and shims/bytes.rs inside verus!{}.  Do NOT combine with
// shims/sigtypes.rs or shims/keytypes.rs (they declare some of the same opaque names).
//
// The unit must extract the REAL `enum PkeskVersion` and `enum SkeskVersion` (src/types/packet.rs) with
//   //@sub /pub enum XVersion/ => "#[repr(u8)] #[derive(PartialEq, Eq, Copy, Clone, Structural)] pub enum XVersion"
// (R7 strips the attributes; repr(u8) is needed for explicit discriminants next to a tuple variant).
// Also NOT in here: PublicKeyEncryptedSessionKey, SymKeyEncryptedSessionKey, AeadProps, Esk, Edata,
// ProtectedDataConfig, the SEIPD Config, PlainSessionKey, SymmetricKeyAlgorithm, AeadAlgorithm, ChunkSize:
// those are extracted verbatim by the units.
// ---------------------------------------------------------------------------------

//@trusted T7 derive(PartialEq) on PkeskVersion / SkeskVersion (src/types/packet.rs:448/459) is structural equality (so Other(3) != V3, as in the source)
impl vstd::std_specs::cmp::PartialEqSpecImpl for PkeskVersion {
    open spec fn obeys_eq_spec() -> bool { true }
    open spec fn eq_spec(&self, o: &PkeskVersion) -> bool { *self == *o }
}
impl vstd::std_specs::cmp::PartialEqSpecImpl for SkeskVersion {
    open spec fn obeys_eq_spec() -> bool { true }
    open spec fn eq_spec(&self, o: &SkeskVersion) -> bool { *self == *o }
}

//@trusted T2 <[T]>::contains(x) is true exactly when some element of the slice equals x (for element types whose PartialEq is the specified equality)
pub assume_specification<T: PartialEq>[<[T]>::contains](s: &[T], x: &T) -> (r: bool)
    ensures <T as vstd::std_specs::cmp::PartialEqSpec>::obeys_eq_spec() ==>
        r == exists|i: int| 0 <= i < s@.len() && vstd::std_specs::cmp::PartialEqSpec::eq_spec(#[trigger] &s@[i], x);

//@trusted T7 payload types of ESK / container packets that the version-alignment units never look into are opaque values
#[verifier::external_body] pub struct PacketHeader { v: u8 }
#[verifier::external_body] pub struct KeyId { v: u8 }
#[verifier::external_body] pub struct Fingerprint { v: u8 }
#[verifier::external_body] pub struct PublicKeyAlgorithm { v: u8 }
#[verifier::external_body] pub struct PkeskBytes { v: u8 }
#[verifier::external_body] pub struct StringToKey { v: u8 }
