// ---------------------------------------------------------------------------------
// shims/nom_iresult.rs - nom::{IResult, Err, Needed, error::Error} as plain datatypes, for code that only
// matches on the outcome of a nom parser (Ok((rest, value)) | Err(Incomplete) | Err(Error/Failure)).
// Include after shims/io.rs.  (shims/nom.rs, nom::Input::position, is independent of this file.)
// ---------------------------------------------------------------------------------
//@trusted T2 nom 8: IResult<I, O> = Result<(I, O), nom::Err<nom::error::Error<I>>>; nom::Err has the three variants Incomplete(Needed), Error(E), Failure(E); the payloads are opaque
pub mod nom {
    pub struct Needed { pub n: u8 }
    pub enum Err<E> {
        Incomplete(Needed),
        Error(E),
        Failure(E),
    }
    pub mod error {
        pub struct Error<I> { pub input: I, pub code: u8 }
    }
}
pub type IResult<I, O> = core::result::Result<(I, O), nom::Err<nom::error::Error<I>>>;
