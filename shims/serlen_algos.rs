// ---------------------------------------------------------------------------------
// shims/serlen_algos.rs - copy of shims/secret_algos.rs WITHOUT its opaque `PublicParams` (the sweep unit
// U75b has the real enum), with `PublicKeyAlgorithm` as an opaque one-octet id that converts to u8 and
// `KeyVersion` converting to u8 (num_enum IntoPrimitive).
// Original header: the algorithm-id enums used by the secret-key / S2K units:
// crypto::hash::HashAlgorithm, crypto::sym::SymmetricKeyAlgorithm, crypto::aead::AeadAlgorithm,
// types::KeyVersion (variant lists copied from the repo; their `#[repr(u8)]` + explicit
// discriminants + num_enum derives cannot be extracted because attributes are stripped) and the
// opaque crypto::public_key::PublicKeyAlgorithm / types::PublicParams.
// The member functions block_size/key_size/nonce_size are NOT shimmed: units extract the real ones.
// Include after `use vstd::prelude::*;` inside verus!{}.
// ---------------------------------------------------------------------------------
use vstd::std_specs::cmp::PartialEqSpecImpl;

//@trusted T7 num_enum FromPrimitive/IntoPrimitive (+ #[num_enum(catch_all)] Other(u8)): From<u8> maps a listed discriminant to its variant and every other octet v to Other(v); From<Enum> for u8 maps a variant to its discriminant and Other(v) to v.  Hence u8 -> enum -> u8 is the identity for all 256 octets (enum -> u8 -> enum is NOT the identity for a hand-made Other(v) with a listed v)
//@trusted T7 derive(PartialEq, Clone, Copy) on these enums is structural equality / bit copy

#[derive(Clone, Copy)]
pub enum HashAlgorithm { None, Md5, Sha1, Ripemd160, Sha256, Sha384, Sha512, Sha224, Sha3_256, Sha3_512, Private10, Other(u8) }

pub open spec fn hash_to_u8(h: HashAlgorithm) -> u8 {
    match h {
        HashAlgorithm::None => 0, HashAlgorithm::Md5 => 1, HashAlgorithm::Sha1 => 2, HashAlgorithm::Ripemd160 => 3,
        HashAlgorithm::Sha256 => 8, HashAlgorithm::Sha384 => 9, HashAlgorithm::Sha512 => 10, HashAlgorithm::Sha224 => 11,
        HashAlgorithm::Sha3_256 => 12, HashAlgorithm::Sha3_512 => 14, HashAlgorithm::Private10 => 110, HashAlgorithm::Other(v) => v,
    }
}
pub open spec fn hash_from_u8(v: u8) -> HashAlgorithm {
    if v == 0 { HashAlgorithm::None } else if v == 1 { HashAlgorithm::Md5 } else if v == 2 { HashAlgorithm::Sha1 }
    else if v == 3 { HashAlgorithm::Ripemd160 } else if v == 8 { HashAlgorithm::Sha256 } else if v == 9 { HashAlgorithm::Sha384 }
    else if v == 10 { HashAlgorithm::Sha512 } else if v == 11 { HashAlgorithm::Sha224 } else if v == 12 { HashAlgorithm::Sha3_256 }
    else if v == 14 { HashAlgorithm::Sha3_512 } else if v == 110 { HashAlgorithm::Private10 } else { HashAlgorithm::Other(v) }
}
impl core::convert::From<u8> for HashAlgorithm {
    #[verifier::external_body]
    fn from(v: u8) -> (r: HashAlgorithm) ensures r == hash_from_u8(v) { unimplemented!() }
}
impl core::convert::From<HashAlgorithm> for u8 {
    #[verifier::external_body]
    fn from(h: HashAlgorithm) -> (r: u8) ensures r == hash_to_u8(h) { unimplemented!() }
}

#[derive(Clone, Copy)]
pub enum SymmetricKeyAlgorithm { Plaintext, IDEA, TripleDES, CAST5, Blowfish, AES128, AES192, AES256, Twofish, Camellia128, Camellia192, Camellia256, Private10, Other(u8) }

pub open spec fn sym_to_u8(a: SymmetricKeyAlgorithm) -> u8 {
    match a {
        SymmetricKeyAlgorithm::Plaintext => 0, SymmetricKeyAlgorithm::IDEA => 1, SymmetricKeyAlgorithm::TripleDES => 2,
        SymmetricKeyAlgorithm::CAST5 => 3, SymmetricKeyAlgorithm::Blowfish => 4, SymmetricKeyAlgorithm::AES128 => 7,
        SymmetricKeyAlgorithm::AES192 => 8, SymmetricKeyAlgorithm::AES256 => 9, SymmetricKeyAlgorithm::Twofish => 10,
        SymmetricKeyAlgorithm::Camellia128 => 11, SymmetricKeyAlgorithm::Camellia192 => 12, SymmetricKeyAlgorithm::Camellia256 => 13,
        SymmetricKeyAlgorithm::Private10 => 110, SymmetricKeyAlgorithm::Other(v) => v,
    }
}
pub open spec fn sym_from_u8(v: u8) -> SymmetricKeyAlgorithm {
    if v == 0 { SymmetricKeyAlgorithm::Plaintext } else if v == 1 { SymmetricKeyAlgorithm::IDEA } else if v == 2 { SymmetricKeyAlgorithm::TripleDES }
    else if v == 3 { SymmetricKeyAlgorithm::CAST5 } else if v == 4 { SymmetricKeyAlgorithm::Blowfish } else if v == 7 { SymmetricKeyAlgorithm::AES128 }
    else if v == 8 { SymmetricKeyAlgorithm::AES192 } else if v == 9 { SymmetricKeyAlgorithm::AES256 } else if v == 10 { SymmetricKeyAlgorithm::Twofish }
    else if v == 11 { SymmetricKeyAlgorithm::Camellia128 } else if v == 12 { SymmetricKeyAlgorithm::Camellia192 } else if v == 13 { SymmetricKeyAlgorithm::Camellia256 }
    else if v == 110 { SymmetricKeyAlgorithm::Private10 } else { SymmetricKeyAlgorithm::Other(v) }
}
impl core::convert::From<u8> for SymmetricKeyAlgorithm {
    #[verifier::external_body]
    fn from(v: u8) -> (r: SymmetricKeyAlgorithm) ensures r == sym_from_u8(v) { unimplemented!() }
}
impl core::convert::From<SymmetricKeyAlgorithm> for u8 {
    #[verifier::external_body]
    fn from(a: SymmetricKeyAlgorithm) -> (r: u8) ensures r == sym_to_u8(a) { unimplemented!() }
}
impl PartialEqSpecImpl for SymmetricKeyAlgorithm {
    open spec fn obeys_eq_spec() -> bool { true }
    open spec fn eq_spec(&self, other: &SymmetricKeyAlgorithm) -> bool { *self == *other }
}
impl PartialEq for SymmetricKeyAlgorithm {
    #[verifier::external_body]
    fn eq(&self, other: &SymmetricKeyAlgorithm) -> (r: bool) { unimplemented!() }
}

#[derive(Clone, Copy)]
pub enum AeadAlgorithm { None, Eax, Ocb, Gcm, Private100, Private101, Private102, Private103, Private104, Private105, Private106, Private107, Private108, Private109, Private110, Other(u8) }

pub open spec fn aead_to_u8(a: AeadAlgorithm) -> u8 {
    match a {
        AeadAlgorithm::None => 0, AeadAlgorithm::Eax => 1, AeadAlgorithm::Ocb => 2, AeadAlgorithm::Gcm => 3,
        AeadAlgorithm::Private100 => 100, AeadAlgorithm::Private101 => 101, AeadAlgorithm::Private102 => 102, AeadAlgorithm::Private103 => 103,
        AeadAlgorithm::Private104 => 104, AeadAlgorithm::Private105 => 105, AeadAlgorithm::Private106 => 106, AeadAlgorithm::Private107 => 107,
        AeadAlgorithm::Private108 => 108, AeadAlgorithm::Private109 => 109, AeadAlgorithm::Private110 => 110, AeadAlgorithm::Other(v) => v,
    }
}
pub open spec fn aead_from_u8(v: u8) -> AeadAlgorithm {
    if v == 0 { AeadAlgorithm::None } else if v == 1 { AeadAlgorithm::Eax } else if v == 2 { AeadAlgorithm::Ocb } else if v == 3 { AeadAlgorithm::Gcm }
    else if v == 100 { AeadAlgorithm::Private100 } else if v == 101 { AeadAlgorithm::Private101 } else if v == 102 { AeadAlgorithm::Private102 }
    else if v == 103 { AeadAlgorithm::Private103 } else if v == 104 { AeadAlgorithm::Private104 } else if v == 105 { AeadAlgorithm::Private105 }
    else if v == 106 { AeadAlgorithm::Private106 } else if v == 107 { AeadAlgorithm::Private107 } else if v == 108 { AeadAlgorithm::Private108 }
    else if v == 109 { AeadAlgorithm::Private109 } else if v == 110 { AeadAlgorithm::Private110 } else { AeadAlgorithm::Other(v) }
}
impl core::convert::From<u8> for AeadAlgorithm {
    #[verifier::external_body]
    fn from(v: u8) -> (r: AeadAlgorithm) ensures r == aead_from_u8(v) { unimplemented!() }
}
impl core::convert::From<AeadAlgorithm> for u8 {
    #[verifier::external_body]
    fn from(a: AeadAlgorithm) -> (r: u8) ensures r == aead_to_u8(a) { unimplemented!() }
}

#[derive(Clone, Copy)]
pub enum KeyVersion { V2, V3, V4, V5, V6, Other(u8) }
impl PartialEqSpecImpl for KeyVersion {
    open spec fn obeys_eq_spec() -> bool { true }
    open spec fn eq_spec(&self, other: &KeyVersion) -> bool { *self == *other }
}
impl PartialEq for KeyVersion {
    #[verifier::external_body]
    fn eq(&self, other: &KeyVersion) -> (r: bool) { unimplemented!() }
}

//@trusted T7 crypto::public_key::PublicKeyAlgorithm is an opaque Copy value; `u8::from(alg)` / `alg.into()` (num_enum IntoPrimitive) is an uninterpreted function pk_to_u8 of it
#[verifier::external_body]
#[derive(Clone, Copy)]
pub struct PublicKeyAlgorithm { v: u8 }
pub uninterp spec fn pk_to_u8(a: PublicKeyAlgorithm) -> u8;
impl core::convert::From<PublicKeyAlgorithm> for u8 {
    #[verifier::external_body]
    fn from(a: PublicKeyAlgorithm) -> (r: u8) ensures r == pk_to_u8(a) { unimplemented!() }
}
//@trusted T7 num_enum IntoPrimitive on KeyVersion (#[repr(u8)] V2 = 2 .. V6 = 6, catch_all Other(u8)): `version.into()` is the discriminant, resp. the payload of Other
pub open spec fn kv_to_u8(v: KeyVersion) -> u8 {
    match v { KeyVersion::V2 => 2, KeyVersion::V3 => 3, KeyVersion::V4 => 4, KeyVersion::V5 => 5, KeyVersion::V6 => 6, KeyVersion::Other(n) => n }
}
impl core::convert::From<KeyVersion> for u8 {
    #[verifier::external_body]
    fn from(v: KeyVersion) -> (r: u8) ensures r == kv_to_u8(v) { unimplemented!() }
}
