// ---------------------------------------------------------------------------------
// shims/known_digest.rs - ghost model of the statically typed hashers (`D: KnownDigest`,
// i.e. digest::Digest for md5::Md5, sha1_checked::Sha1, sha2::Sha256) and the few std /
// byteorder helpers the fingerprint code uses.  Include AFTER shims/io.rs (needs be16/be32).
// ---------------------------------------------------------------------------------

//@trusted T2 AsRef<[u8]> for byte arrays, &arrays, &Vec<u8>, &[u8]: the referenced bytes are the value's bytes
pub trait AsRefBytes { spec fn bytes(&self) -> Seq<u8>; }
impl<const N: usize> AsRefBytes for [u8; N] { open spec fn bytes(&self) -> Seq<u8> { self@ } }
impl<const N: usize> AsRefBytes for &[u8; N] { open spec fn bytes(&self) -> Seq<u8> { (**self)@ } }
impl AsRefBytes for &Vec<u8> { open spec fn bytes(&self) -> Seq<u8> { (**self)@ } }
impl AsRefBytes for &[u8] { open spec fn bytes(&self) -> Seq<u8> { (**self)@ } }

/// digest output: the value is an uninterpreted function of the absorbed bytes, which are kept
/// as a ghost so that contracts can speak about the pre-image itself
pub struct GenericArray<T, N> {
    pub _p: core::marker::PhantomData<(T, N)>,
    pub pre: Ghost<Seq<u8>>,
    pub val: Ghost<Seq<u8>>,
}
impl<T, N> GenericArray<T, N> {
    /// the bytes that were absorbed by the hasher that produced this value
    pub open spec fn absorbed(&self) -> Seq<u8> { self.pre@ }
}
impl<T, N> View for GenericArray<T, N> {
    type V = Seq<u8>;
    open spec fn view(&self) -> Seq<u8> { self.val@ }
}

//@trusted T2 digest::Digest (via KnownDigest): new() starts with nothing absorbed; update(d) appends the bytes of d to view(); finalize() returns digest_of(view()), an uninterpreted function per algorithm with a fixed output length
pub trait KnownDigest: Sized {
    type OutputSize;
    spec fn view(&self) -> Seq<u8>;
    spec fn digest_of(pre: Seq<u8>) -> Seq<u8>;
    spec fn out_len() -> nat;
    proof fn digest_len(pre: Seq<u8>) ensures Self::digest_of(pre).len() == Self::out_len();
    fn new() -> (h: Self)
        ensures h.view() == Seq::<u8>::empty();
    fn update<B: AsRefBytes>(&mut self, data: B)
        ensures final(self).view() == old(self).view() + data.bytes();
    fn finalize(self) -> (r: GenericArray<u8, Self::OutputSize>)
        ensures r.absorbed() == self.view(), r@ == Self::digest_of(self.view()), r@.len() == Self::out_len();
}

pub struct U16; pub struct U20; pub struct U32;
#[verifier::external_body] pub struct Md5 { _x: u8 }
#[verifier::external_body] pub struct Sha1 { _x: u8 }
#[verifier::external_body] pub struct Sha256 { _x: u8 }
pub uninterp spec fn md5_view(h: &Md5) -> Seq<u8>;
pub uninterp spec fn sha1_view(h: &Sha1) -> Seq<u8>;
pub uninterp spec fn sha256_view(h: &Sha256) -> Seq<u8>;
pub uninterp spec fn md5_of(pre: Seq<u8>) -> Seq<u8>;
pub uninterp spec fn sha1_of(pre: Seq<u8>) -> Seq<u8>;
pub uninterp spec fn sha256_of(pre: Seq<u8>) -> Seq<u8>;
//@trusted T2 MD5 / SHA-1 / SHA-256 outputs are 16 / 20 / 32 octets
impl KnownDigest for Md5 {
    type OutputSize = U16;
    open spec fn view(&self) -> Seq<u8> { md5_view(self) }
    open spec fn digest_of(pre: Seq<u8>) -> Seq<u8> { md5_of(pre) }
    open spec fn out_len() -> nat { 16 }
    #[verifier::external_body] proof fn digest_len(pre: Seq<u8>) {}
    #[verifier::external_body] fn new() -> (h: Self) { unimplemented!() }
    #[verifier::external_body] fn update<B: AsRefBytes>(&mut self, data: B) { unimplemented!() }
    #[verifier::external_body] fn finalize(self) -> (r: GenericArray<u8, U16>) { unimplemented!() }
}
impl KnownDigest for Sha1 {
    type OutputSize = U20;
    open spec fn view(&self) -> Seq<u8> { sha1_view(self) }
    open spec fn digest_of(pre: Seq<u8>) -> Seq<u8> { sha1_of(pre) }
    open spec fn out_len() -> nat { 20 }
    #[verifier::external_body] proof fn digest_len(pre: Seq<u8>) {}
    #[verifier::external_body] fn new() -> (h: Self) { unimplemented!() }
    #[verifier::external_body] fn update<B: AsRefBytes>(&mut self, data: B) { unimplemented!() }
    #[verifier::external_body] fn finalize(self) -> (r: GenericArray<u8, U20>) { unimplemented!() }
}
impl KnownDigest for Sha256 {
    type OutputSize = U32;
    open spec fn view(&self) -> Seq<u8> { sha256_view(self) }
    open spec fn digest_of(pre: Seq<u8>) -> Seq<u8> { sha256_of(pre) }
    open spec fn out_len() -> nat { 32 }
    #[verifier::external_body] proof fn digest_len(pre: Seq<u8>) {}
    #[verifier::external_body] fn new() -> (h: Self) { unimplemented!() }
    #[verifier::external_body] fn update<B: AsRefBytes>(&mut self, data: B) { unimplemented!() }
    #[verifier::external_body] fn finalize(self) -> (r: GenericArray<u8, U32>) { unimplemented!() }
}

//@trusted T2 From<GenericArray<u8, U16|U20|U32>> for [u8; 16|20|32] copies the octets
pub uninterp spec fn ga_arr16(a: GenericArray<u8, U16>) -> [u8; 16];
impl vstd::std_specs::convert::FromSpecImpl<GenericArray<u8, U16>> for [u8; 16] {
    open spec fn obeys_from_spec() -> bool { true }
    open spec fn from_spec(a: GenericArray<u8, U16>) -> [u8; 16] { ga_arr16(a) }
}
impl core::convert::From<GenericArray<u8, U16>> for [u8; 16] {
    #[verifier::external_body]
    fn from(a: GenericArray<u8, U16>) -> (r: [u8; 16]) { unimplemented!() }
}
pub uninterp spec fn ga_arr20(a: GenericArray<u8, U20>) -> [u8; 20];
impl vstd::std_specs::convert::FromSpecImpl<GenericArray<u8, U20>> for [u8; 20] {
    open spec fn obeys_from_spec() -> bool { true }
    open spec fn from_spec(a: GenericArray<u8, U20>) -> [u8; 20] { ga_arr20(a) }
}
impl core::convert::From<GenericArray<u8, U20>> for [u8; 20] {
    #[verifier::external_body]
    fn from(a: GenericArray<u8, U20>) -> (r: [u8; 20]) { unimplemented!() }
}
pub uninterp spec fn ga_arr32(a: GenericArray<u8, U32>) -> [u8; 32];
impl vstd::std_specs::convert::FromSpecImpl<GenericArray<u8, U32>> for [u8; 32] {
    open spec fn obeys_from_spec() -> bool { true }
    open spec fn from_spec(a: GenericArray<u8, U32>) -> [u8; 32] { ga_arr32(a) }
}
impl core::convert::From<GenericArray<u8, U32>> for [u8; 32] {
    #[verifier::external_body]
    fn from(a: GenericArray<u8, U32>) -> (r: [u8; 32]) { unimplemented!() }
}

pub mod digest_axioms {
    use super::*;
    #[verifier::external_body]
    pub proof fn axiom_ga_arr16(a: GenericArray<u8, U16>)
        ensures ga_arr16(a)@ == a@
    {}
    #[verifier::external_body]
    pub proof fn axiom_ga_arr20(a: GenericArray<u8, U20>)
        ensures ga_arr20(a)@ == a@
    {}
    #[verifier::external_body]
    pub proof fn axiom_ga_arr32(a: GenericArray<u8, U32>)
        ensures ga_arr32(a)@ == a@
    {}
}

//@trusted T2 u16/u32::to_be_bytes is the big-endian encoding (Verus cannot attach a specification to the inherent method, units call it through the same-named shim method to_be_bytes_shim)
pub trait ToBeBytesShim<const N: usize>: Sized {
    spec fn be(self) -> Seq<u8>;
    fn to_be_bytes_shim(self) -> (r: [u8; N]) ensures r@ == self.be();
}
impl ToBeBytesShim<2> for u16 {
    open spec fn be(self) -> Seq<u8> { be16(self) }
    #[verifier::external_body]
    fn to_be_bytes_shim(self) -> (r: [u8; 2]) { self.to_be_bytes() }
}
impl ToBeBytesShim<4> for u32 {
    open spec fn be(self) -> Seq<u8> { be32(self) }
    #[verifier::external_body]
    fn to_be_bytes_shim(self) -> (r: [u8; 4]) { self.to_be_bytes() }
}

//@trusted T2 byteorder::ByteOrder::write_u32 for BigEndian overwrites the first four octets of the buffer with the big-endian encoding and panics if the buffer is shorter (modelled as a precondition)
pub trait ByteOrderWrite {
    fn write_u32(buf: &mut [u8], n: u32)
        requires old(buf)@.len() >= 4
        ensures final(buf)@ == be32(n) + old(buf)@.skip(4);
}
impl ByteOrderWrite for BigEndian {
    #[verifier::external_body]
    fn write_u32(buf: &mut [u8], n: u32) { unimplemented!() }
}
