// ---------------------------------------------------------------------------------
// shims/utf8_err.rs - std::str::from_utf8 together with Utf8Error::valid_up_to, in terms of vstd::utf8
// (use INSTEAD of shims/utf8.rs: both give core::str::from_utf8 a specification).  Include after shims/io.rs.
// ---------------------------------------------------------------------------------

/// k is the largest index such that the first k bytes of s are well-formed UTF-8
/// (std: "the maximum index such that from_utf8(&input[..index]) would return Ok(_)")
pub open spec fn is_mvp(s: Seq<u8>, k: int) -> bool {
    &&& 0 <= k <= s.len()
    &&& vstd::utf8::valid_utf8(s.subrange(0, k))
    &&& forall|j: int| k < j <= s.len() ==> !vstd::utf8::valid_utf8(#[trigger] s.subrange(0, j))
}

//@trusted T2 std::str::from_utf8(v) returns Ok exactly when v is well-formed UTF-8 (vstd::utf8::valid_utf8, a DEFINITION of vstd); on Err, Utf8Error::valid_up_to() is the largest index k such that v[..k] is well-formed (std documentation of valid_up_to)
#[verifier::external_type_specification]
#[verifier::external_body]
pub struct ExUtf8Error(core::str::Utf8Error);
pub uninterp spec fn utf8_err_upto(e: core::str::Utf8Error) -> nat;

pub assume_specification<'a>[ core::str::from_utf8 ](v: &'a [u8]) -> (r: Result<&'a str, core::str::Utf8Error>)
    ensures vstd::utf8::valid_utf8(v@) <==> r is Ok, r is Err ==> is_mvp(v@, utf8_err_upto(r->Err_0) as int);

pub assume_specification[ core::str::Utf8Error::valid_up_to ](e: &core::str::Utf8Error) -> (r: usize)
    ensures r == utf8_err_upto(*e);

//@trusted T2 Vec::<T>::from(&[T]) clones the slice element by element (for u8: a copy)
pub assume_specification<'a, T: Clone>[ <Vec<T> as core::convert::From<&'a [T]>>::from ](s: &[T]) -> (v: Vec<T>)
    ensures v@.len() == s@.len(), forall|i: int| 0 <= i < s@.len() ==> vstd::prelude::cloned::<T>(#[trigger] s@[i], v@[i]);
