// ---------------------------------------------------------------------------------
// shims/codec_mpi.rs - crate::types::Mpi as *assumed* contracts for units whose subject merely
// reads / writes MPIs (U63s, U65s).  The spec functions and lemmas are copied from
// units/U15_mpi.vu, where the contracts are PROVED on the real code.  Include after shims/io.rs,
// shims/bytes.rs and shims/codec_reader.rs, inside verus!{}.
// ---------------------------------------------------------------------------------
use vstd::std_specs::bits::u8_leading_zeros;

// ---- RFC 9580 3.2: multiprecision integers (definitions of U15) ------------------------------
/// index of the first non-zero octet (|s| if there is none)
pub open spec fn lz_off(s: Seq<u8>) -> int
    decreases s.len()
{
    if s.len() == 0 { 0 } else if s[0] != 0 { 0 } else { 1 + lz_off(s.skip(1)) }
}
pub open spec fn strip(s: Seq<u8>) -> Seq<u8> { s.skip(lz_off(s)) }
pub open spec fn canonical(s: Seq<u8>) -> bool { s.len() == 0 || s[0] != 0 }
/// bit length of a big-endian magnitude without leading zero octets
pub open spec fn spec_bits(s: Seq<u8>) -> int {
    if s.len() == 0 { 0 } else { 8 * s.len() - u8_leading_zeros(s[0]) as int }
}
/// the wire form: two-octet big-endian bit count, then the magnitude
pub open spec fn mpi_wire(s: Seq<u8>) -> Seq<u8> { be16(spec_bits(s) as u16) + s }
/// number of octets an MPI occupies whose first two octets are s[0..2]
pub open spec fn mpi_span(s: Seq<u8>) -> int { 2 + (from_be16(s.subrange(0, 2)) as int + 7) / 8 }
/// `m` is what Mpi::try_from_reader returns for an input starting with the octets `c` (exactly the octets consumed)
pub open spec fn mpi_parsed(m: Seq<u8>, c: Seq<u8>) -> bool {
    &&& c.len() >= 2
    &&& from_be16(c.subrange(0, 2)) <= 16384
    &&& c.len() == mpi_span(c)
    &&& m == strip(c.skip(2))
}

pub proof fn lemma_lz_range(s: Seq<u8>)
    ensures 0 <= lz_off(s) <= s.len(), forall|j: int| 0 <= j < lz_off(s) ==> s[j] == 0, lz_off(s) == s.len() || s[lz_off(s)] != 0
    decreases s.len()
{
    if s.len() == 0 || s[0] != 0 {
    } else {
        let t = s.skip(1);
        lemma_lz_range(t);
        assert forall|j: int| 0 <= j < lz_off(s) implies s[j] == 0 by { if j > 0 { assert(t[j - 1] == s[j]); } }
    }
}
pub proof fn lemma_strip(s: Seq<u8>)
    ensures canonical(strip(s)), canonical(s) ==> strip(s) == s
{
    lemma_lz_range(s);
    if canonical(s) { assert(strip(s) =~= s); }
}

//@trusted T4 types::Mpi (src/types/mpi.rs) with its magnitude mv(): try_from_reader (instance B := &mut B0) rejects more than 16384 bits, otherwise returns strip(next ceil(bits/8) octets) and consumes exactly 2 + ceil(bits/8) octets; to_writer appends be16(bit length) ++ magnitude and fails for more than 16384 bits; write_len is 2 + |magnitude| (all proved in U15); the type invariant "no leading zero octet" (canonical) is ser_inv
#[verifier::external_body]
pub struct Mpi { v: u8 }
impl Mpi {
    pub uninterp spec fn mv(&self) -> Seq<u8>;
    #[verifier::external_body]
    pub fn try_from_reader<B: io::BufRead>(i: &mut B) -> (r: errors::Result<Mpi>)
        ensures match r {
            Ok(m) => ({
                let inp = (*old(i)).rest();
                &&& inp.len() >= 2
                &&& inp.len() >= mpi_span(inp)
                &&& mpi_parsed(m.mv(), inp.subrange(0, mpi_span(inp)))
                &&& (*final(i)).rest() == inp.skip(mpi_span(inp))
                &&& canonical(m.mv())
            }),
            Err(_) => true }
    { unimplemented!() }
}
impl Serialize for Mpi {
    open spec fn wire(&self) -> Seq<u8> { mpi_wire(self.mv()) }
    open spec fn ser_inv(&self) -> bool { canonical(self.mv()) }
    open spec fn len_inv(&self) -> bool { true }
    open spec fn wr_inv(&self) -> bool { true }
    #[verifier::external_body]
    fn to_writer<W: io::Write>(&self, writer: &mut W) -> (r: errors::Result<()>)
        ensures r is Ok ==> spec_bits(self.mv()) <= 16384
    { unimplemented!() }
    #[verifier::external_body]
    fn write_len(&self) -> (r: usize)
        ensures r == 2 + self.mv().len(), r == mpi_wire(self.mv()).len()
    { unimplemented!() }
}
//@trusted T1 an MPI magnitude is an in-memory value shorter than 2^56 octets (address space)
#[verifier::external_body]
pub proof fn axiom_mpi_len(m: &Mpi)
    ensures m.mv().len() < 0x0100_0000_0000_0000
{}
