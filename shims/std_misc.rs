// ---------------------------------------------------------------------------------
// shims/std_misc.rs - u32::is_power_of_two and Vec::into_boxed_slice.
// Include after lemmas/framing.rs (uses vstd pow2).
// ---------------------------------------------------------------------------------
pub open spec fn u32_is_pow2(n: u32) -> bool { exists|k: nat| k <= 31 && n as nat == #[trigger] pow2(k) }

//@trusted T2 u32::is_power_of_two(n) is true iff n == 2^k for some 0 <= k <= 31
pub assume_specification [<u32>::is_power_of_two] (n: u32) -> (r: bool)
    ensures r == u32_is_pow2(n);

//@trusted T2 Vec::into_boxed_slice keeps the elements
pub assume_specification<T, A: std::alloc::Allocator> [std::vec::Vec::<T, A>::into_boxed_slice] (v: std::vec::Vec<T, A>) -> (r: std::boxed::Box<[T], A>)
    ensures r@ == v@;
