// ---------------------------------------------------------------------------------
// shims/io_take_get_mut.rs - std::io::Take::get_mut (announced in the //@trusted line of shims/io_take.rs
// but not defined there).  Include after shims/io_take.rs.
// ---------------------------------------------------------------------------------
//@trusted T2 std::io::Take::get_mut(&mut self) -> &mut R lends the wrapped reader: what the caller does to it is what happens to `inner`; `limit` is not touched (std documents that reading through it "may corrupt the limit" - the limit is simply not adjusted)
impl<R> IoTake<R> {
    #[verifier::external_body]
    pub fn get_mut(&mut self) -> (r: &mut R)
        ensures *r == old(self).inner, final(self).inner == *final(r), final(self).limit == old(self).limit
    { unimplemented!() }
}
