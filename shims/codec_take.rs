// ---------------------------------------------------------------------------------
// shims/codec_take.rs - crate::parsing_reader::Take and BufReadParsing::read_take as *assumed*
// contracts for units whose subject merely uses them (U62s, U65s).  Everything stated here is
// PROVED on the real code: the Read/BufRead trait contracts of Take in units/U71_parsing_reader.vu,
// the lock step (take_rel) of read/fill_buf/consume and the contract of read_take in
// units/U60s_subpacket_len.vu.  Include after shims/io.rs, shims/bytes.rs and shims/codec_reader.rs.
// ---------------------------------------------------------------------------------
//@trusted T4 parsing_reader::Take<T> {inner, limit}: as a reader it offers the next min(limit, available) octets of the inner reader (proved in U71); read / fill_buf / consume advance the inner reader and decrease the limit by the same number of octets and never re-seat `inner` (take_rel; proved in U60s); BufReadParsing::read_take(limit) wraps a mutable borrow of self (proved in U60s)
pub struct Take<'a, T> {
    pub inner: &'a mut T,
    pub limit: usize,
}
impl<'a, T: io::Read> Take<'a, T> {
    pub open spec fn lim(&self) -> nat { self.limit as nat }
    pub open spec fn inner_rest(&self) -> Seq<u8> { (*self.inner).rest() }
}
pub open spec fn min_nat(a: nat, b: nat) -> nat { if a <= b { a } else { b } }
/// what any sequence of Read/BufRead calls does to a Take: the inner reader advances by n octets, the limit drops by n
#[verifier::prophetic]
pub open spec fn take_rel<'a, T: io::Read>(a: Take<'a, T>, b: Take<'a, T>) -> bool {
    &&& b.lim() <= a.lim()
    &&& a.lim() - b.lim() <= a.inner_rest().len()
    &&& b.inner_rest() == a.inner_rest().skip(a.lim() - b.lim())
    // it is still the same borrow of the same inner reader (`inner` is never re-seated)
    &&& *final(b.inner) == *final(a.inner)
}
impl<T: io::Read> io::Read for Take<'_, T> {
    open spec fn rest(&self) -> Seq<u8> {
        (*self.inner).rest().subrange(0, if self.limit as int <= (*self.inner).rest().len() { self.limit as int } else { (*self.inner).rest().len() as int })
    }
    #[verifier::external_body]
    fn read(&mut self, buf: &mut [u8]) -> (r: io::Result<usize>)
        ensures r is Ok ==> take_rel(*old(self), *final(self)) && old(self).lim() - final(self).lim() == r->Ok_0
    { unimplemented!() }
}
impl<T: io::BufRead> io::BufRead for Take<'_, T> {
    open spec fn buffered(&self) -> nat {
        if self.limit as nat <= self.inner.buffered() { self.limit as nat } else { self.inner.buffered() }
    }
    proof fn buffered_le_rest(&self) { self.inner.buffered_le_rest(); }
    #[verifier::external_body]
    fn fill_buf(&mut self) -> (r: io::Result<&[u8]>)
        ensures r is Ok ==> take_rel(*old(self), *final(self)) && final(self).lim() == old(self).lim()
    { unimplemented!() }
    #[verifier::external_body]
    fn consume(&mut self, amt: usize)
        ensures take_rel(*old(self), *final(self)) && old(self).lim() - final(self).lim() == min_nat(amt as nat, old(self).lim())
    { unimplemented!() }
}
pub proof fn lemma_take_rel_refl<'a, T: io::Read>(a: Take<'a, T>)
    ensures take_rel(a, a)
{
    assert(a.inner_rest().skip(0) =~= a.inner_rest());
}
pub proof fn lemma_take_rel_trans<'a, T: io::Read>(a: Take<'a, T>, b: Take<'a, T>, c: Take<'a, T>)
    requires take_rel(a, b), take_rel(b, c)
    ensures take_rel(a, c)
{
    let n1 = a.lim() - b.lim();
    let n2 = b.lim() - c.lim();
    assert(a.inner_rest().skip(n1 as int).skip(n2 as int) =~= a.inner_rest().skip(n1 + n2));
}
pub trait ReadTake: io::BufRead + Sized {
    fn read_take(&mut self, limit: usize) -> (r: Take<'_, Self>)
        ensures r.lim() == limit, r.inner_rest() == (*old(self)).rest(),
            // the borrow: whatever the Take has done to its inner reader when it is dropped has been done to self
            *final(r.inner) == *final(self);
}
impl<B: io::BufRead> ReadTake for B {
    #[verifier::external_body]
    fn read_take(&mut self, limit: usize) -> (r: Take<'_, Self>) { unimplemented!() }
}
