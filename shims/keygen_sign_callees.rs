// ---------------------------------------------------------------------------------
// shims/keygen_sign_callees.rs - contracts of the functions the key-generation units call and that are the subject of
// OTHER units.  Include after shims/keygen_sign_env.rs and after the extraction of the REAL SignatureConfig /
// SignatureVersionSpecific, inside verus!{}.
// ---------------------------------------------------------------------------------

// `&K` is a key / serialisable value when K is (the real code passes `&self`, `&pub_key`, `&self.public_key()` where a `&K` is expected)
impl<T: types::KeyDetails> types::KeyDetails for &T {
    open spec fn spec_version(&self) -> KeyVersion { (**self).spec_version() }
    open spec fn spec_fingerprint(&self) -> Fingerprint { (**self).spec_fingerprint() }
    open spec fn spec_key_id(&self) -> KeyId { (**self).spec_key_id() }
    open spec fn spec_algorithm(&self) -> PublicKeyAlgorithm { (**self).spec_algorithm() }
    open spec fn spec_created_at(&self) -> Timestamp { (**self).spec_created_at() }
    #[verifier::external_body] fn version(&self) -> (r: KeyVersion) { unimplemented!() }
    #[verifier::external_body] fn fingerprint(&self) -> (r: Fingerprint) { unimplemented!() }
    #[verifier::external_body] fn legacy_key_id(&self) -> (r: KeyId) { unimplemented!() }
    #[verifier::external_body] fn algorithm(&self) -> (r: PublicKeyAlgorithm) { unimplemented!() }
    #[verifier::external_body] fn created_at(&self) -> (r: Timestamp) { unimplemented!() }
}
impl<T: Serialize> Serialize for &T {
    open spec fn ser(&self) -> Seq<u8> { (**self).ser() }
    #[verifier::external_body] fn write_len(&self) -> (r: usize) { unimplemented!() }
}

//@trusted T4 SignatureConfig::v4 / v6 (config.rs:158/186): the config has exactly the given type and algorithms, empty subpacket areas, version V4 resp. V6 with a fresh salt
//@trusted T4 SignatureConfig::{sign_key, sign_certification, sign_subkey_binding, sign_primary_key_binding} (config.rs:251..460) under the contracts PROVED in U36: Ok(sig) carries exactly the configuration `self` (Signature::from_config) and the signer's primitive was given the RFC 9580 5.2.4 digest over the keys / User ID passed, in the order of the arguments (key_signature_by / certification_by / subkey_binding_by / primary_binding_by name that fact; keys and ids are identified by their serialisation ser(), the signer by its fingerprint); they return Err unless the signature version matches the signer's key version (v4/v4, v6/v6) and the type fits
impl SignatureConfig {
    #[verifier::external_body]
    pub fn v4(typ: SignatureType, pub_alg: PublicKeyAlgorithm, hash_alg: HashAlgorithm) -> (r: SignatureConfig)
        ensures r.typ == typ, r.pub_alg == pub_alg, r.hash_alg == hash_alg, r.version_specific is V4,
            r.hashed_subpackets@.len() == 0, r.unhashed_subpackets@.len() == 0
    { unimplemented!() }
    #[verifier::external_body]
    pub fn v6<R: CryptoRng + Rng>(rng: R, typ: SignatureType, pub_alg: PublicKeyAlgorithm, hash_alg: HashAlgorithm) -> (r: errors::Result<SignatureConfig>)
        ensures r matches Ok(c) ==> c.typ == typ && c.pub_alg == pub_alg && c.hash_alg == hash_alg && c.version_specific is V6
            && c.hashed_subpackets@.len() == 0 && c.unhashed_subpackets@.len() == 0
    { unimplemented!() }
    #[verifier::external_body]
    pub fn sign_key<S, K>(self, signing_key: &S, key_pw: &Password, key: &K) -> (r: errors::Result<Signature>)
        where S: SigningKey, K: types::KeyDetails + Serialize
        ensures r matches Ok(sig) ==> sig.cfg() == self && key_signature_by(sig, signing_key.spec_fingerprint(), key.ser())
            && (self.typ is Key || self.typ is KeyRevocation)
            && ((self.version_specific is V4 && signing_key.spec_version() is V4) || (self.version_specific is V6 && signing_key.spec_version() is V6))
    { unimplemented!() }
    #[verifier::external_body]
    pub fn sign_certification<S, K, I>(self, key: &S, pub_key: &K, key_pw: &Password, tag: Tag, id: &I) -> (r: errors::Result<Signature>)
        where S: SigningKey, K: types::KeyDetails + Serialize, I: Serialize
        ensures r matches Ok(sig) ==> sig.cfg() == self && certification_by(sig, key.spec_fingerprint(), pub_key.ser(), tag, id.ser())
            && (self.typ is CertGeneric || self.typ is CertPersona || self.typ is CertCasual || self.typ is CertPositive || self.typ is CertRevocation)
            && ((self.version_specific is V4 && key.spec_version() is V4) || (self.version_specific is V6 && key.spec_version() is V6))
    { unimplemented!() }
    #[verifier::external_body]
    pub fn sign_subkey_binding<S, K1, K2>(self, signer: &S, signer_pub: &K1, signer_pw: &Password, signee: &K2) -> (r: errors::Result<Signature>)
        where S: SigningKey, K1: types::KeyDetails + Serialize, K2: types::KeyDetails + Serialize
        ensures r matches Ok(sig) ==> sig.cfg() == self && subkey_binding_by(sig, signer.spec_fingerprint(), signer_pub.ser(), signee.ser())
            && ((self.version_specific is V4 && signer.spec_version() is V4) || (self.version_specific is V6 && signer.spec_version() is V6))
    { unimplemented!() }
    #[verifier::external_body]
    pub fn sign_primary_key_binding<S, K1, K2>(self, signer: &S, signer_pub: &K1, signer_pw: &Password, signee: &K2) -> (r: errors::Result<Signature>)
        where S: SigningKey, K1: types::KeyDetails + Serialize, K2: types::KeyDetails + Serialize
        ensures r matches Ok(sig) ==> sig.cfg() == self && primary_binding_by(sig, signer.spec_fingerprint(), signer_pub.ser(), signee.ser())
            && ((self.version_specific is V4 && signer.spec_version() is V4) || (self.version_specific is V6 && signer.spec_version() is V6))
    { unimplemented!() }
}

// ---- subpacket areas: vocabulary -----------------------------------------------------------------------------------
/// the area carries a subpacket with exactly this content
pub open spec fn has(area: Seq<Subpacket>, d: SubpacketData) -> bool {
    exists|i: int| 0 <= i < area.len() && #[trigger] sp_data(area[i]) == d
}
pub proof fn lemma_has_at(area: Seq<Subpacket>, i: int, d: SubpacketData)
    requires 0 <= i < area.len(), sp_data(area[i]) == d
    ensures has(area, d)
{}
