// ---------------------------------------------------------------------------------
// shims/io_copy.rs - std::io::copy, `impl Read for &[u8]`, `impl Write for &mut W`.
// Include after shims/io.rs.  Units rewrite the path `io::copy(` to `io_copy(` with a //@sub
// (module io of shims/io.rs cannot be re-opened).
// ---------------------------------------------------------------------------------
//@trusted T2 std::io::Read for &[u8]: the remaining content is the slice itself
impl io::Read for &[u8] {
    open spec fn rest(&self) -> Seq<u8> { (*self)@ }
    #[verifier::external_body]
    fn read(&mut self, buf: &mut [u8]) -> (r: io::Result<usize>) { unimplemented!() }
}

//@trusted T2 std::io::Write for &mut W forwards to W
impl<W: io::Write> io::Write for &mut W {
    open spec fn out(&self) -> Seq<u8> { (**self).out() }
    #[verifier::external_body]
    fn write(&mut self, buf: &[u8]) -> (r: io::Result<usize>) { unimplemented!() }
    #[verifier::external_body]
    fn write_all(&mut self, buf: &[u8]) -> (r: io::Result<()>) { unimplemented!() }
    #[verifier::external_body]
    fn flush(&mut self) -> (r: io::Result<()>) { unimplemented!() }
}

//@trusted T2 std::io::copy(r, w): Ok(n) means all of r's remaining content (n octets) was read to the end and appended to w; Err: some prefix of it was appended
#[verifier::external_body]
pub fn io_copy<R: io::Read, W: io::Write>(reader: &mut R, writer: &mut W) -> (r: io::Result<u64>)
    ensures match r {
        Ok(n) => n == old(reader).rest().len()
            && (*final(writer)).out() == old(writer).out() + old(reader).rest()
            && (*final(reader)).rest().len() == 0,
        Err(_) => exists|k: int| 0 <= k <= old(reader).rest().len() && (*final(writer)).out() == old(writer).out() + #[trigger] old(reader).rest().subrange(0, k),
    }
{ unimplemented!() }
