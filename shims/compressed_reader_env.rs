// ---------------------------------------------------------------------------------
// shims/compressed_reader_env.rs - what the CompressedDataReader unit (U27) assumes about code that is
// not its subject.  Include AFTER shims/io.rs, shims/bytes.rs, shims/mem.rs inside verus!{}
// (do not combine with shims/parsing_reader.rs: same trait name).
// ---------------------------------------------------------------------------------
use io::{BufRead, Read};

/// an attribute of a reader that reading does not change (fixed at construction), as an uninterpreted integer (same device as shims/packet_ser.rs)
pub uninterp spec fn read_invariant<R>(r: R) -> int;
pub uninterp spec fn hdr_of(x: int) -> PacketHeader;

//@trusted T4 BufReadParsing::read_u8 (PROVED in U71): Ok(v) means the stream held a byte, v is exactly the next byte and exactly it is consumed; it touches the reader only through BufRead::{fill_buf, consume}, hence leaves every read-invariant attribute unchanged; on Err nothing is known
pub trait BufReadParsing: io::BufRead + Sized {
    fn read_u8(&mut self) -> (r: io::Result<u8>)
        ensures match r {
            Ok(v) => old(self).rest().len() >= 1 && v == old(self).rest()[0] && (*final(self)).rest() == old(self).rest().skip(1)
                && read_invariant(*final(self)) == read_invariant(*old(self)),
            Err(_) => true };
}
impl<B: io::BufRead> BufReadParsing for B {
    #[verifier::external_body]
    fn read_u8(&mut self) -> (r: io::Result<u8>) { unimplemented!() }
}

//@trusted T4 PacketHeader / Tag are opaque values here; PacketBodyReader<R> is some BufRead (contract of shims/io.rs, PROVED for the real type in U07) whose remaining content rest() is the de-framed packet body still to come; packet_header() is an accessor of a value fixed at construction (U07: header() is unchanged by every method)
pub enum Tag { CompressedData, Other }
pub struct PacketHeader { pub p: u8 }
impl Clone for PacketHeader { fn clone(&self) -> Self { PacketHeader { p: self.p } } }
impl Copy for PacketHeader {}
impl PacketHeader {
    pub uninterp spec fn ptag(&self) -> Tag;
}
#[verifier::external_body]
#[verifier::accept_recursive_types(R)]
pub struct PacketBodyReader<R> { r: R }
impl<R: BufRead> Read for PacketBodyReader<R> {
    uninterp spec fn rest(&self) -> Seq<u8>;
    #[verifier::external_body]
    fn read(&mut self, buf: &mut [u8]) -> (r: io::Result<usize>) { unimplemented!() }
}
impl<R: BufRead> BufRead for PacketBodyReader<R> {
    uninterp spec fn buffered(&self) -> nat;
    #[verifier::external_body]
    proof fn buffered_le_rest(&self) {}
    #[verifier::external_body]
    fn fill_buf(&mut self) -> (r: io::Result<&[u8]>) { unimplemented!() }
    #[verifier::external_body]
    fn consume(&mut self, amt: usize) { unimplemented!() }
}
impl<R: BufRead> PacketBodyReader<R> {
    /// fixed at construction: a read-invariant attribute
    pub open spec fn header(&self) -> PacketHeader { hdr_of(read_invariant(*self)) }
    #[verifier::external_body]
    pub fn packet_header(&self) -> (r: PacketHeader) ensures r == self.header() { unimplemented!() }
}

//@trusted T7 DebugBufRead (src/composed/message/types.rs:27) is BufRead + Debug + Send with a blanket impl; only the BufRead part is modelled
pub trait DebugBufRead: BufRead {}
impl<T: BufRead> DebugBufRead for T {}

//@trusted T7 CompressionAlgorithm (num_enum, src/types/compression.rs) is its one-octet id: From<u8> keeps the octet
pub struct CompressionAlgorithm { pub id: u8 }
impl core::convert::From<u8> for CompressionAlgorithm {
    #[verifier::external_body]
    fn from(v: u8) -> (r: CompressionAlgorithm) ensures r.id == v { unimplemented!() }
}

/// the decompressed content of the compressed stream `s` under algorithm `alg` (RFC 9580 5.6: 0 = uncompressed, 1 = ZIP/RFC 1951,
/// 2 = ZLIB/RFC 1950, 3 = BZip2); for a malformed stream: the octets that can be delivered before the fault
pub uninterp spec fn inflated(alg: u8, s: Seq<u8>) -> Seq<u8>;
/// the algorithms Decompressor::from_algorithm has a decoder for (0, 1, 2 and, with the bzip2 feature, 3)
pub uninterp spec fn alg_supported(alg: u8) -> bool;

//@trusted T2 Decompressor<R> (src/packet/compressed_data.rs:37: flate2 / bzip2 bufread decoders behind a std BufReader, or the reader itself for algorithm 0) is a std::io::BufRead over the decompressed content of its source, for every short-read schedule of the source and every consumer buffer size (contract of shims/io.rs with rest() = content()); from_algorithm(alg, r) = Ok(d): d will deliver inflated(alg, r.rest()) and holds r (src()); it fails exactly for an algorithm without decoder and reads nothing; get_ref / into_inner hand out the reader it holds; a fault in the compressed stream or a source error is an Err of read / fill_buf
#[verifier::external_body]
#[verifier::accept_recursive_types(R)]
pub struct Decompressor<R> { r: R }
impl<R: BufRead> Decompressor<R> {
    pub uninterp spec fn content(&self) -> Seq<u8>;
    pub uninterp spec fn src(&self) -> R;
    #[verifier::external_body]
    pub fn from_algorithm(alg: CompressionAlgorithm, r: R) -> (res: io::Result<Decompressor<R>>)
        ensures match res {
            Ok(d) => d.content() == inflated(alg.id, r.rest()) && d.src() == r && alg_supported(alg.id),
            Err(_) => !alg_supported(alg.id) }
    { unimplemented!() }
    #[verifier::external_body]
    pub fn get_ref(&self) -> (r: &R) ensures *r == self.src() { unimplemented!() }
    #[verifier::external_body]
    pub fn into_inner(self) -> (r: R) ensures r == self.src() { unimplemented!() }
    #[verifier::external_body]
    pub fn get_mut(&mut self) -> (r: &mut R) ensures *r == old(self).src() { unimplemented!() }
}
impl<R: BufRead> Read for Decompressor<R> {
    open spec fn rest(&self) -> Seq<u8> { self.content() }
    #[verifier::external_body]
    fn read(&mut self, buf: &mut [u8]) -> (r: io::Result<usize>) { unimplemented!() }
}
impl<R: BufRead> BufRead for Decompressor<R> {
    uninterp spec fn buffered(&self) -> nat;
    #[verifier::external_body]
    proof fn buffered_le_rest(&self) {}
    #[verifier::external_body]
    fn fill_buf(&mut self) -> (r: io::Result<&[u8]>) { unimplemented!() }
    #[verifier::external_body]
    fn consume(&mut self, amt: usize) { unimplemented!() }
}

pub open spec fn min_int(a: int, b: int) -> int { if a <= b { a } else { b } }
