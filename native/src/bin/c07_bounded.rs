//! C07 / C08 / C12 / C04 bounded stand-in (never counted as proved).
//!
//! Runs the REAL library through its PUBLIC API on an enumerated finite family and checks the properties with
//! oracles that do not look at the implementation.  N = number of RNG seeds per cheap key shape.
//!
//! section 1 (C07)  key generation: for every shape of a list (v4 Ed25519Legacy + ECDH Curve25519Legacy + signing
//!     subkey, v6 Ed25519 + X25519 (+ signing subkey), v4 ECDSA P256 + ECDH P256, v4/v6 with 0..2 further user ids, with
//!     and without passphrase, v4 Ed25519/X25519; thorough (N >= 200): P384, P521, secp256k1, Ed448/X448, RSA 2048,
//!     library default S2K) and for ChaCha8Rng / ChaCha20Rng seeds 0..N (expensive shapes: N / cost):
//!       (gen)    SecretKeyParamsBuilder..generate succeeds, version / algorithm / creation time as requested
//!       (bind)   verify_bindings() of the secret key and of to_public_key()
//!       (backsig) the embedded primary key binding signature of each signing subkey verifies (checked directly)
//!       (bin)    binary export -> import yields exactly one key, equal to the generated one, still valid
//!       (armor)  armored export -> import equal
//!       (len)    write_len() == to_bytes().len() for the key, for each component and for each packet of the export;
//!                re-serialising the parsed packets gives the same octets
//!       (pub)    public key: binary and armored export -> import equal, write_len agrees
//!       (flags)  key flags / features / preferences / primary flag / user ids on the self-signatures are the
//!                requested ones (v4: every user id certification, v6: direct key signature), subkey binding flags
//!       (sign)   a message signed by the primary and by each signing subkey verifies with the re-imported public
//!                key and does NOT verify with a different key
//!       (crypt)  a message encrypted to each encryption key decrypts with the re-imported secret key
//!       (lock)   every secret packet is locked iff ITS passphrase was requested (also per-subkey passphrases that differ
//!                from the primary's), unlocks with ITS passphrase, a wrong one / another packet's one fails
//!     The number of generated secret scalars with a leading zero octet is counted and must be > 0 for the
//!     MPI-encoded EdDSALegacy and ECDSA/ECDH-NIST scalars (extra seeds are listed for that).
//! section 2 (C08)  lock matrix: a v4 and a v6 key, primary and subkey packet x {usage 254 CFB with Simple (v4) /
//!     Salted / Iterated S2K, usage 253 AEAD (OCB, GCM, EAX) with Argon2 (small) / Iterated} x {AES128, AES256} x
//!     passphrase lengths {0,1,8,31,32,33,1016..1025}:
//!       (lock) locking succeeds, (right) the right passphrase gives the original material (in memory and after
//!       write+parse), (wrong) last octet flipped / dropped / one octet appended fail, (wire) write -> parse -> write is
//!       identical and keeps the parameters, (flip) one flipped bit at 16 spread positions of the encrypted data and in
//!       the IV / nonce / salt makes unlocking fail
//! section 2b (C08) secret material guarded only by the two-octet additive checksum: hand-built v4 secret key packets
//!     (Elgamal with a one-block x, generated Ed25519Legacy keys incl. the short scalar of seed 201; thorough: P256,
//!     RSA 2048) with S2K usage 255, a legacy cipher usage octet (MD5 key) and unprotected:
//!       (right) parses and unlocks to the original material, (wrong) not with another passphrase,
//!       (flip) EVERY single-bit flip of the protected / secret octets (blobs <= 64 octets; a spread selection for
//!       RSA) is rejected by parse or unlock; it never yields DIFFERENT material; the SAME material is tolerated only
//!       for a flip in an MPI bit-count octet (non-canonical count of the same length) or in the RSA u (recomputed)
//!       (trunc) cut short by 1, 2, 3 octets is rejected, (extra) one appended octet is rejected
//! section 3 (C12)  StringToKey::derive_key == independent RFC 9580 3.7.1.1-3 implementation (sha1/sha2 crates) for
//!     Simple / Salted / Iterated, SHA1 SHA224 SHA256 SHA512, coded counts {0,1,16,96,(255)}, key sizes 16 24 32 and
//!     passphrase lengths around the decoded count
//! section 4 (C12)  ECDH wrap: crypto::ecdh::encrypt of every length 1..=64 (thorough ..=239), Curve25519Legacy and
//!     P256: wrapped length == 8 * (len / 8 + 1) + 8; for Curve25519Legacy an INDEPENDENT recipient (x25519-dalek, own
//!     RFC 6637 KDF with a hand-built parameter block, own RFC 3394 unwrap over the aes crate) finds 1..=8 pad octets
//!     of that value and the message; the library decrypts its own output; (kdf) ecdh::kdf == HASH(00 00 00 01 || x || Param)
//!     for 32/48/66 octet shared secrets with 0/1/2/31 leading zero octets and all-zero; (kdf-e2e) Curve25519Legacy exchanges
//!     whose shared secret starts with 00 (searched): independent recipient / independent sender interoperate
//! section 5 (C04)  hostile ECDH padding: validly wrapped plaintexts consisting only of one octet p (p = 0..255,
//!     1..=5 blocks), produced by an independent sender, through ecdh::derive_session_key, SecretKey::decrypt and
//!     Message::decrypt (hand-built PKESK v3): never a panic, p > len => error, 1 <= p < len => the unpadded value
//!     (p == 0 is kept out: recorded separately)
//! section 6 (C12)  SEIPDv2: SymEncryptedProtectedData::encrypt_seipdv2 (AES128 x GCM / OCB / EAX, 64 octet chunks) of
//!     plaintexts of 0, 1, 2, 3, 254..257, 300 (thorough: 511, 512, 700, 1024, 65535..65537) chunks with and without a
//!     partial last chunk, and the MessageBuilder with a password recipient: an INDEPENDENT RFC 9580 5.13.2 recipient
//!     (hkdf + sha2 key schedule with info D2 02 07 mode 00, per chunk nonce IV || be64(index) and AD = info, final tag
//!     over the empty string with AD = info || be64(total octets); aes-gcm / ocb3 / eax crates as single-shot AEAD
//!     primitives) authenticates every chunk and the final tag and gets the plaintext; the library decrypts it too
//! usage: c07_bounded <N> [replay-case-hex]
use std::panic::{catch_unwind, AssertUnwindSafe};

use pgp::composed::{
    Deserializable, EncryptionCaps, KeyType, Message, MessageBuilder, SecretKeyParamsBuilder, SignedPublicKey,
    SignedSecretKey, SubkeyParamsBuilder,
};
use pgp::crypto::aead::{AeadAlgorithm, ChunkSize};
use pgp::crypto::ecc_curve::ECCCurve;
use pgp::crypto::hash::HashAlgorithm;
use pgp::crypto::sym::SymmetricKeyAlgorithm;
use pgp::crypto::{ecdh, eddsa_legacy, Decryptor};
use pgp::packet::{self, Packet, PacketParser, PacketTrait, Signature};
use pgp::ser::Serialize;
use pgp::types::{
    CompressionAlgorithm, EcdhPublicParams, EncryptedSecretParams, KeyDetails, KeyVersion, Password, PkeskBytes,
    PlainSecretParams, PublicParams, S2kParams, SecretParams, SigningKey, StringToKey, Timestamp, VerifyingKey,
};
use rand::{RngCore, SeedableRng};
use rand_chacha::{ChaCha20Rng, ChaCha8Rng};

const DATA: &[u8] = b"bounded companion payload\n";

// ---------------------------------------------------------------------------------------------------------------
// bookkeeping
// ---------------------------------------------------------------------------------------------------------------

struct Ctx {
    total: u64,
    nontrivial: u64,
    failures: u64,
    samples: u64,
    sample_next: bool,
    replay: Option<String>,
    printed: Vec<String>,
}

fn clean(s: &str) -> String {
    let s: String = s.chars().map(|c| if c == '"' { '\'' } else if c == '\n' || c == '\r' { ' ' } else { c }).collect();
    s.chars().take(300).collect()
}

impl Ctx {
    fn wanted(&self, id: &str) -> bool {
        match &self.replay {
            Some(r) => r == id,
            None => true,
        }
    }

    /// one case: `f` returns Ok(nontrivial) or Err("(clause) why")
    fn run<F: FnOnce() -> Result<bool, String>>(&mut self, id: &str, desc: &str, f: F) {
        if !self.wanted(id) {
            return;
        }
        self.total += 1;
        let res = catch_unwind(AssertUnwindSafe(f));
        let why = match res {
            Ok(Ok(nt)) => {
                if nt {
                    self.nontrivial += 1;
                }
                if self.sample_next && self.samples < 3 {
                    self.samples += 1;
                    self.sample_next = false;
                    println!("SAMPLE {}", clean(desc));
                }
                return;
            }
            Ok(Err(why)) => {
                self.nontrivial += 1;
                why
            }
            Err(p) => {
                self.nontrivial += 1;
                let msg = p
                    .downcast_ref::<String>()
                    .cloned()
                    .or_else(|| p.downcast_ref::<&str>().map(|s| s.to_string()))
                    .unwrap_or_else(|| "?".into());
                format!("(panic) the library panicked: {msg}")
            }
        };
        self.failures += 1;
        // print at most 2 failures per (section, clause) and 20 in total, so that the first lines are diverse
        let class = format!("{}{}", &id[..std::cmp::min(2, id.len())], why.split(' ').next().unwrap_or(""));
        let seen = self.printed.iter().filter(|c| **c == class).count();
        if seen < 2 && self.printed.len() < 20 {
            self.printed.push(class);
            println!("FAIL hex={} text=\"{}\" {}", id, clean(desc), clean(&why));
        }
    }
}

fn e<'a, T: std::fmt::Display>(clause: &'a str, what: &'a str) -> impl Fn(T) -> String + 'a {
    move |err| format!("({clause}) {what}: {err}")
}

fn pw(b: &[u8]) -> Password {
    Password::from(b)
}

// ---------------------------------------------------------------------------------------------------------------
// section 1: key generation
// ---------------------------------------------------------------------------------------------------------------

#[derive(Clone)]
struct SubSpec {
    kt: KeyType,
    sign: bool,
    enc: EncryptionCaps,
    auth: bool,
}

#[derive(Clone, Copy, PartialEq)]
enum Lock {
    None,
    CheapCfb,
    CheapAead,
    Default,
}

struct Shape {
    name: &'static str,
    version: KeyVersion,
    primary: KeyType,
    certify: bool,
    sign: bool,
    auth: bool,
    enc: EncryptionCaps,
    primary_uid: Option<&'static str>,
    uids: Vec<&'static str>,
    subs: Vec<SubSpec>,
    lock: Lock,
    /// per-packet passphrases (primary, one per subkey) overriding `lock` = everything locked with PASSPHRASE;
    /// `lock` then only selects the S2K parameters
    pws: Option<(Option<&'static str>, Vec<Option<&'static str>>)>,
    prefs: u8,
    seipd_v2: bool,
    /// seeds per RNG kind = max(1, N / cost); cost 0 = fixed number of seeds `fixed`
    cost: u64,
    fixed: u64,
    thorough_only: bool,
    /// further ChaCha8Rng seeds (known to give a leading zero octet in a secret scalar)
    extra8: Vec<u64>,
}

impl Shape {
    fn primary_pass(&self) -> Option<&'static str> {
        match &self.pws {
            Some((p, _)) => *p,
            None => (self.lock != Lock::None).then_some(PASSPHRASE),
        }
    }
    fn sub_pass(&self, i: usize) -> Option<&'static str> {
        match &self.pws {
            Some((_, s)) => s[i],
            None => (self.lock != Lock::None).then_some(PASSPHRASE),
        }
    }
    fn any_locked(&self) -> bool {
        self.primary_pass().is_some() || (0..self.subs.len()).any(|i| self.sub_pass(i).is_some())
    }
}

struct Prefs {
    sym: Vec<SymmetricKeyAlgorithm>,
    hash: Vec<HashAlgorithm>,
    comp: Vec<CompressionAlgorithm>,
    aead: Vec<(SymmetricKeyAlgorithm, AeadAlgorithm)>,
}

fn prefs(set: u8) -> Prefs {
    match set {
        1 => Prefs {
            sym: vec![SymmetricKeyAlgorithm::AES256, SymmetricKeyAlgorithm::AES192, SymmetricKeyAlgorithm::AES128],
            hash: vec![HashAlgorithm::Sha256, HashAlgorithm::Sha384, HashAlgorithm::Sha512, HashAlgorithm::Sha224],
            comp: vec![CompressionAlgorithm::ZLIB, CompressionAlgorithm::ZIP],
            aead: vec![],
        },
        2 => Prefs {
            sym: vec![SymmetricKeyAlgorithm::AES128, SymmetricKeyAlgorithm::AES256],
            hash: vec![HashAlgorithm::Sha512, HashAlgorithm::Sha256],
            comp: vec![CompressionAlgorithm::Uncompressed],
            aead: vec![
                (SymmetricKeyAlgorithm::AES256, AeadAlgorithm::Ocb),
                (SymmetricKeyAlgorithm::AES128, AeadAlgorithm::Gcm),
            ],
        },
        _ => Prefs { sym: vec![], hash: vec![], comp: vec![], aead: vec![] },
    }
}

const PASSPHRASE: &str = "correct horse battery";

fn lock_params(lock: Lock, seed: u64, which: u8) -> Option<S2kParams> {
    let mut salt = [0u8; 16];
    for (i, b) in salt.iter_mut().enumerate() {
        *b = (seed as u8).wrapping_mul(31).wrapping_add(i as u8 * 7).wrapping_add(which);
    }
    match lock {
        Lock::None | Lock::Default => None,
        Lock::CheapCfb => Some(S2kParams::Cfb {
            sym_alg: SymmetricKeyAlgorithm::AES128,
            s2k: StringToKey::IteratedAndSalted {
                hash_alg: HashAlgorithm::Sha256,
                salt: salt[..8].try_into().unwrap(),
                count: 0,
            },
            iv: salt.to_vec().into(),
        }),
        Lock::CheapAead => Some(S2kParams::Aead {
            sym_alg: SymmetricKeyAlgorithm::AES128,
            aead_mode: AeadAlgorithm::Ocb,
            s2k: StringToKey::Argon2 { salt, t: 1, p: 1, m_enc: 4 },
            nonce: salt[..AeadAlgorithm::Ocb.nonce_size()].to_vec().into(),
        }),
    }
}

fn shapes() -> Vec<Shape> {
    let sub = |kt: KeyType, sign: bool, enc: EncryptionCaps, auth: bool| SubSpec { kt, sign, enc, auth };
    let base = |name: &'static str, version: KeyVersion, primary: KeyType| Shape {
        name,
        version,
        primary,
        certify: true,
        sign: true,
        auth: false,
        enc: EncryptionCaps::None,
        primary_uid: Some("Primary <primary@example.org>"),
        uids: vec![],
        subs: vec![],
        lock: Lock::None,
        pws: None,
        prefs: 1,
        seipd_v2: false,
        cost: 1,
        fixed: 0,
        thorough_only: false,
        extra8: vec![],
    };
    let cv = || KeyType::ECDH(ECCCurve::Curve25519Legacy);
    let mut v = vec![];
    // 0: the classic v4 shape; encryption subkey is not the first subkey
    let mut s = base("v4 Ed25519Legacy + [Ed25519Legacy sign, ECDH Curve25519Legacy]", KeyVersion::V4, KeyType::Ed25519Legacy);
    s.subs = vec![sub(KeyType::Ed25519Legacy, true, EncryptionCaps::None, false), sub(cv(), false, EncryptionCaps::All, false)];
    s.extra8 = vec![201];
    v.push(s);
    // 1: the shape of the upstream test (one ECDH subkey)
    let mut s = base("v4 Ed25519Legacy + [ECDH Curve25519Legacy]", KeyVersion::V4, KeyType::Ed25519Legacy);
    s.subs = vec![sub(cv(), false, EncryptionCaps::All, false)];
    s.extra8 = vec![201];
    v.push(s);
    // 2: v6
    let mut s = base("v6 Ed25519 + [X25519, Ed25519 sign]", KeyVersion::V6, KeyType::Ed25519);
    s.subs = vec![sub(KeyType::X25519, false, EncryptionCaps::All, false), sub(KeyType::Ed25519, true, EncryptionCaps::None, false)];
    s.prefs = 2;
    s.seipd_v2 = true;
    v.push(s);
    // 3: v6 without any user id, storage-only encryption subkey
    let mut s = base("v6 Ed25519 + [X25519 storage] no user id", KeyVersion::V6, KeyType::Ed25519);
    s.primary_uid = None;
    s.subs = vec![sub(KeyType::X25519, false, EncryptionCaps::Storage, false)];
    s.prefs = 0;
    v.push(s);
    // 4: ECDSA / ECDH P256
    let mut s = base("v4 ECDSA P256 + [ECDH P256]", KeyVersion::V4, KeyType::ECDSA(ECCCurve::P256));
    s.subs = vec![sub(KeyType::ECDH(ECCCurve::P256), false, EncryptionCaps::All, false)];
    s.cost = 2;
    v.push(s);
    // 5: v4, 2 further user ids, passphrase (CFB)
    let mut s = base("v4 Ed25519Legacy + [ECDH Curve25519Legacy, Ed25519Legacy auth] 2 more user ids, passphrase (254)", KeyVersion::V4, KeyType::Ed25519Legacy);
    s.uids = vec!["Second <second@example.org>", "third"];
    s.subs = vec![sub(cv(), false, EncryptionCaps::Communication, false), sub(KeyType::Ed25519Legacy, false, EncryptionCaps::None, true)];
    s.lock = Lock::CheapCfb;
    s.prefs = 2;
    s.sign = true;
    v.push(s);
    // 6: v6, 2 further user ids, passphrase (AEAD)
    let mut s = base("v6 Ed25519 + [X25519, Ed25519 sign] 2 more user ids, passphrase (253)", KeyVersion::V6, KeyType::Ed25519);
    s.uids = vec!["Second <second@example.org>", "third"];
    s.subs = vec![sub(KeyType::X25519, false, EncryptionCaps::All, false), sub(KeyType::Ed25519, true, EncryptionCaps::None, false)];
    s.lock = Lock::CheapAead;
    s.auth = true;
    v.push(s);
    // 7: v4 with the RFC 9580 algorithms, 1 further user id, certify-only primary
    let mut s = base("v4 Ed25519 (certify only) + [Ed25519 sign, X25519] 1 more user id", KeyVersion::V4, KeyType::Ed25519);
    s.sign = false;
    s.uids = vec!["Second <second@example.org>"];
    s.subs = vec![sub(KeyType::Ed25519, true, EncryptionCaps::None, false), sub(KeyType::X25519, false, EncryptionCaps::All, false)];
    s.prefs = 0;
    v.push(s);
    // 8: v4 passphrase with AEAD (v4 + usage 253)
    let mut s = base("v4 Ed25519Legacy + [ECDH Curve25519Legacy] passphrase (253)", KeyVersion::V4, KeyType::Ed25519Legacy);
    s.subs = vec![sub(cv(), false, EncryptionCaps::All, false)];
    s.lock = Lock::CheapAead;
    s.cost = 4;
    v.push(s);
    // 9: v6 ECDSA P256 + ECDH P256 with passphrase CFB
    let mut s = base("v6 ECDSA P256 + [ECDH P256] passphrase (254)", KeyVersion::V6, KeyType::ECDSA(ECCCurve::P256));
    s.subs = vec![sub(KeyType::ECDH(ECCCurve::P256), false, EncryptionCaps::All, false)];
    s.lock = Lock::CheapCfb;
    s.cost = 4;
    v.push(s);
    // 10..15: per-subkey passphrases (SubkeyParamsBuilder::passphrase)
    for v6 in [false, true] {
        let (ver, prim, enc_kt, lock, vs) = if v6 {
            (KeyVersion::V6, KeyType::Ed25519, KeyType::X25519, Lock::CheapAead, "v6 Ed25519")
        } else {
            (KeyVersion::V4, KeyType::Ed25519Legacy, cv(), Lock::CheapCfb, "v4 Ed25519Legacy")
        };
        let variants: [(&'static str, Option<&'static str>, Option<&'static str>, Option<&'static str>); 3] = [
            ("primary unlocked / signing subkey 'sub pw' / encryption subkey unlocked", None, Some("sub pw"), None),
            ("primary 'primary pw' / signing subkey 'sub pw' / encryption subkey unlocked", Some("primary pw"), Some("sub pw"), None),
            ("primary 'pw' / signing subkey 'pw' / encryption subkey 'pw'", Some("pw"), Some("pw"), Some("pw")),
        ];
        for (what, p0, p1, p2) in variants {
            let name: &'static str = Box::leak(format!("{vs} + [sign subkey, encryption subkey] passphrases: {what}").into_boxed_str());
            let mut s = base(name, ver, prim.clone());
            s.subs = vec![sub(prim.clone(), true, EncryptionCaps::None, false), sub(enc_kt.clone(), false, EncryptionCaps::All, false)];
            s.lock = lock;
            s.pws = Some((p0, vec![p1, p2]));
            s.cost = 2;
            v.push(s);
        }
    }
    // ---- thorough only
    let mut s = base("v4 ECDSA P384 + [ECDH P384]", KeyVersion::V4, KeyType::ECDSA(ECCCurve::P384));
    s.subs = vec![sub(KeyType::ECDH(ECCCurve::P384), false, EncryptionCaps::All, false)];
    s.cost = 12;
    s.thorough_only = true;
    v.push(s);
    let mut s = base("v6 ECDSA P521 + [ECDH P521, ECDSA P521 sign]", KeyVersion::V6, KeyType::ECDSA(ECCCurve::P521));
    s.subs = vec![
        sub(KeyType::ECDH(ECCCurve::P521), false, EncryptionCaps::All, false),
        sub(KeyType::ECDSA(ECCCurve::P521), true, EncryptionCaps::None, false),
    ];
    s.cost = 30;
    s.thorough_only = true;
    v.push(s);
    let mut s = base("v4 ECDSA secp256k1 + [ECDH Curve25519Legacy]", KeyVersion::V4, KeyType::ECDSA(ECCCurve::Secp256k1));
    s.subs = vec![sub(cv(), false, EncryptionCaps::All, false)];
    s.cost = 6;
    s.thorough_only = true;
    v.push(s);
    let mut s = base("v6 Ed448 + [X448, Ed448 sign]", KeyVersion::V6, KeyType::Ed448);
    s.subs = vec![sub(KeyType::X448, false, EncryptionCaps::All, false), sub(KeyType::Ed448, true, EncryptionCaps::None, false)];
    s.cost = 12;
    s.thorough_only = true;
    v.push(s);
    let mut s = base("v4 RSA 2048 (sign + encrypt) + [RSA 2048 encrypt]", KeyVersion::V4, KeyType::Rsa(2048));
    s.enc = EncryptionCaps::All;
    s.subs = vec![sub(KeyType::Rsa(2048), false, EncryptionCaps::All, false)];
    s.cost = 0;
    s.fixed = 1;
    s.thorough_only = true;
    v.push(s);
    let mut s = base("v4 Ed25519Legacy + [ECDH Curve25519Legacy] passphrase, library default S2K", KeyVersion::V4, KeyType::Ed25519Legacy);
    s.subs = vec![sub(cv(), false, EncryptionCaps::All, false)];
    s.lock = Lock::Default;
    s.cost = 0;
    s.fixed = 1;
    s.thorough_only = true;
    v.push(s);
    let mut s = base("v6 Ed25519 + [X25519] passphrase, library default S2K", KeyVersion::V6, KeyType::Ed25519);
    s.subs = vec![sub(KeyType::X25519, false, EncryptionCaps::All, false)];
    s.lock = Lock::Default;
    s.cost = 0;
    s.fixed = 1;
    s.thorough_only = true;
    v.push(s);
    v
}

fn created(seed: u64) -> u32 {
    1_600_000_000 + (seed as u32 % 1000) * 3600
}

fn generate(shape: &Shape, kind: u8, seed: u64) -> Result<SignedSecretKey, String> {
    let p = prefs(shape.prefs);
    let mut subkeys = vec![];
    for (i, s) in shape.subs.iter().enumerate() {
        let mut b = SubkeyParamsBuilder::default();
        b.version(shape.version)
            .key_type(s.kt.clone())
            .can_sign(s.sign)
            .can_encrypt(s.enc)
            .can_authenticate(s.auth)
            .created_at(Timestamp::from_secs(created(seed) + 1 + i as u32));
        if let Some(p) = shape.sub_pass(i) {
            b.passphrase(Some(p.to_string()));
            b.s2k(lock_params(shape.lock, seed, 1 + i as u8));
        }
        subkeys.push(b.build().map_err(e("gen", "subkey parameters refused"))?);
    }
    let mut b = SecretKeyParamsBuilder::default();
    b.version(shape.version)
        .key_type(shape.primary.clone())
        .can_certify(shape.certify)
        .can_sign(shape.sign)
        .can_authenticate(shape.auth)
        .can_encrypt(shape.enc)
        .created_at(Timestamp::from_secs(created(seed)))
        .feature_seipd_v2(shape.seipd_v2)
        .preferred_symmetric_algorithms(p.sym.iter().copied().collect())
        .preferred_hash_algorithms(p.hash.iter().copied().collect())
        .preferred_compression_algorithms(p.comp.iter().copied().collect())
        .preferred_aead_algorithms(p.aead.iter().copied().collect())
        .user_ids(shape.uids.iter().map(|s| s.to_string()).collect())
        .subkeys(subkeys);
    if let Some(uid) = shape.primary_uid {
        b.primary_user_id(uid.to_string());
    }
    if let Some(p) = shape.primary_pass() {
        b.passphrase(Some(p.to_string()));
        b.s2k(lock_params(shape.lock, seed, 0));
    }
    let params = b.build().map_err(e("gen", "key parameters refused"))?;
    let res = if kind == 0 {
        params.generate(ChaCha8Rng::seed_from_u64(seed))
    } else {
        params.generate(ChaCha20Rng::seed_from_u64(seed))
    };
    res.map_err(e("gen", "key generation failed"))
}

#[derive(Default)]
struct LeadingZeros {
    eddsa_legacy_mpi: (u64, u64),
    nist_mpi: (u64, u64),
    raw: (u64, u64),
}

fn count_lz(lz: &mut LeadingZeros, p: &PlainSecretParams) {
    let upd = |c: &mut (u64, u64), b: &[u8]| {
        c.0 += 1;
        if b.first() == Some(&0) {
            c.1 += 1;
        }
    };
    match p {
        PlainSecretParams::EdDSALegacy(eddsa_legacy::SecretKey::Ed25519(k)) => upd(&mut lz.eddsa_legacy_mpi, k.as_bytes()),
        PlainSecretParams::ECDSA(k) => upd(&mut lz.nist_mpi, &k.to_bytes()),
        PlainSecretParams::ECDH(ecdh::SecretKey::Curve25519Legacy(_)) => {} // clamped: the MPI never has a leading zero
        PlainSecretParams::ECDH(k) => upd(&mut lz.nist_mpi, &k.to_bytes()),
        PlainSecretParams::Ed25519(k) => upd(&mut lz.raw, k.as_bytes()),
        PlainSecretParams::X25519(k) => upd(&mut lz.raw, k.as_bytes()),
        _ => {}
    }
}

fn check_sig_meta(shape: &Shape, sig: &Signature, what: &str) -> Result<(), String> {
    let p = prefs(shape.prefs);
    let f = sig.key_flags();
    let want = (
        shape.certify,
        shape.sign,
        matches!(shape.enc, EncryptionCaps::Communication | EncryptionCaps::All),
        matches!(shape.enc, EncryptionCaps::Storage | EncryptionCaps::All),
        shape.auth,
    );
    let got = (f.certify(), f.sign(), f.encrypt_comms(), f.encrypt_storage(), f.authentication());
    if got != want {
        return Err(format!("(flags) {what}: key flags (certify, sign, encrypt comms, encrypt storage, authenticate) are {got:?}, requested {want:?}"));
    }
    if f.shared() || f.group() || f.adsk() || f.timestamping() {
        return Err(format!("(flags) {what}: a key flag that was not requested is set"));
    }
    if sig.preferred_symmetric_algs() != &p.sym[..] {
        return Err(format!("(flags) {what}: preferred symmetric algorithms {:?}, requested {:?}", sig.preferred_symmetric_algs(), p.sym));
    }
    if sig.preferred_hash_algs() != &p.hash[..] {
        return Err(format!("(flags) {what}: preferred hash algorithms {:?}, requested {:?}", sig.preferred_hash_algs(), p.hash));
    }
    if sig.preferred_compression_algs() != &p.comp[..] {
        return Err(format!("(flags) {what}: preferred compression algorithms {:?}, requested {:?}", sig.preferred_compression_algs(), p.comp));
    }
    if sig.preferred_aead_algs() != &p.aead[..] {
        return Err(format!("(flags) {what}: preferred AEAD algorithms {:?}, requested {:?}", sig.preferred_aead_algs(), p.aead));
    }
    match sig.features() {
        None => return Err(format!("(flags) {what}: no features subpacket")),
        Some(ft) => {
            if !ft.seipd_v1() || ft.seipd_v2() != shape.seipd_v2 {
                return Err(format!("(flags) {what}: features seipd v1 {} v2 {}, requested true {}", ft.seipd_v1(), ft.seipd_v2(), shape.seipd_v2));
            }
        }
    }
    Ok(())
}

fn len_check<T: Serialize>(x: &T, what: &str) -> Result<Vec<u8>, String> {
    let b = x.to_bytes().map_err(e("len", what))?;
    if b.len() != x.write_len() {
        return Err(format!("(len) {what}: write_len() is {} but {} octets are written", x.write_len(), b.len()));
    }
    Ok(b)
}

fn packets_check(bytes: &[u8], what: &str) -> Result<usize, String> {
    let mut re = Vec::with_capacity(bytes.len());
    let mut n = 0;
    for p in PacketParser::new(bytes) {
        let p = p.map_err(e("len", "own export does not parse as packets"))?;
        // `Packet` serialises itself including its header
        let buf = p.to_bytes().map_err(e("len", "packet does not serialise"))?;
        if buf.len() != p.write_len() {
            return Err(format!("(len) {what}: packet {n} ({:?}): write_len() is {} but {} octets are written", p.tag(), p.write_len(), buf.len()));
        }
        re.extend_from_slice(&buf);
        n += 1;
    }
    if re != bytes {
        return Err(format!("(len) {what}: parsing the export into {n} packets and writing them again gives different octets ({} vs {})", re.len(), bytes.len()));
    }
    Ok(n)
}

fn sign_verify(signer: &dyn SigningKey, pass: &[u8], verifier: &dyn VerifyingKey, other: Option<&dyn VerifyingKey>, what: &str, seed: u64) -> Result<(), String> {
    let mut rng = ChaCha8Rng::seed_from_u64(seed ^ 0x5151);
    let mut b = MessageBuilder::from_bytes("", DATA.to_vec());
    b.sign(signer, pw(pass), signer.hash_alg());
    let bytes = b.to_vec(&mut rng).map_err(|x| format!("(sign) {what}: signing a message failed: {x}"))?;
    let mut m = Message::from_bytes(&bytes[..]).map_err(|x| format!("(sign) {what}: signed message does not parse: {x}"))?;
    let d = m.as_data_vec().map_err(|x| format!("(sign) {what}: signed message does not read: {x}"))?;
    if d != DATA {
        return Err(format!("(sign) {what}: signed message carries different data"));
    }
    m.verify(verifier).map_err(|x| format!("(sign) {what}: signature made by the generated key does not verify with its public key: {x}"))?;
    if let Some(o) = other {
        if m.verify(o).is_ok() {
            return Err(format!("(sign) {what}: signature verifies with a DIFFERENT key"));
        }
    }
    Ok(())
}

fn encrypt_decrypt<E: pgp::types::EncryptionKey>(version: KeyVersion, enc: &E, key: &SignedSecretKey, pass: &[u8], what: &str, seed: u64) -> Result<(), String> {
    let mut rng = ChaCha8Rng::seed_from_u64(seed ^ 0xe1e1);
    let bytes = if version == KeyVersion::V6 {
        let mut b = MessageBuilder::from_bytes("", DATA.to_vec()).seipd_v2(&mut rng, SymmetricKeyAlgorithm::AES128, AeadAlgorithm::Ocb, ChunkSize::default());
        b.encrypt_to_key(&mut rng, enc).map_err(|x| format!("(crypt) {what}: encrypting to the generated key failed: {x}"))?;
        b.to_vec(&mut rng).map_err(|x| format!("(crypt) {what}: writing the encrypted message failed: {x}"))?
    } else {
        let mut b = MessageBuilder::from_bytes("", DATA.to_vec()).seipd_v1(&mut rng, SymmetricKeyAlgorithm::AES128);
        b.encrypt_to_key(&mut rng, enc).map_err(|x| format!("(crypt) {what}: encrypting to the generated key failed: {x}"))?;
        b.to_vec(&mut rng).map_err(|x| format!("(crypt) {what}: writing the encrypted message failed: {x}"))?
    };
    let m = Message::from_bytes(&bytes[..]).map_err(|x| format!("(crypt) {what}: encrypted message does not parse: {x}"))?;
    let mut dec = m.decrypt(&pw(pass), key).map_err(|x| format!("(crypt) {what}: the generated key does not decrypt a message encrypted to it: {x}"))?;
    let d = dec.as_data_vec().map_err(|x| format!("(crypt) {what}: decrypted message does not read: {x}"))?;
    if d != DATA {
        return Err(format!("(crypt) {what}: decryption gives different data"));
    }
    Ok(())
}

/// Equality of a generated key and its re-import.  Keys generated WITH a passphrase are compared modulo the stored
/// packet header of the secret key packets: `set_password_with_s2k` leaves the header computed for the unlocked body
/// in place, so such a key is never `==` to its re-import (reported separately, kept out of the enumeration).
fn same_key(a: &SignedSecretKey, b: &SignedSecretKey, modulo_secret_headers: bool) -> bool {
    if !modulo_secret_headers {
        return a == b;
    }
    a.primary_key.public_key() == b.primary_key.public_key()
        && a.primary_key.secret_params() == b.primary_key.secret_params()
        && a.primary_key.packet_header().tag() == b.primary_key.packet_header().tag()
        && a.details == b.details
        && a.public_subkeys == b.public_subkeys
        && a.secret_subkeys.len() == b.secret_subkeys.len()
        && a.secret_subkeys.iter().zip(b.secret_subkeys.iter()).all(|(x, y)| {
            x.key.public_key() == y.key.public_key()
                && x.key.secret_params() == y.key.secret_params()
                && x.key.packet_header().tag() == y.key.packet_header().tag()
                && x.signatures == y.signatures
        })
}

/// which component of two keys differs (for the failure text)
fn diff(a: &SignedSecretKey, b: &SignedSecretKey) -> String {
    let mut out = vec![];
    if a.primary_key != b.primary_key {
        if a.primary_key.packet_header() != b.primary_key.packet_header() {
            out.push(format!("primary packet header {:?} vs {:?}", a.primary_key.packet_header(), b.primary_key.packet_header()));
        }
        if a.primary_key.public_key() != b.primary_key.public_key() {
            out.push("primary public part".to_string());
        }
        if a.primary_key.secret_params() != b.primary_key.secret_params() {
            out.push("primary secret parameters".to_string());
        }
    }
    if a.details != b.details {
        out.push("user ids / signatures".to_string());
    }
    if a.secret_subkeys.len() != b.secret_subkeys.len() {
        out.push("number of subkeys".to_string());
    } else {
        for (i, (x, y)) in a.secret_subkeys.iter().zip(b.secret_subkeys.iter()).enumerate() {
            if x.key != y.key {
                if x.key.packet_header() != y.key.packet_header() {
                    out.push(format!("subkey {i} packet header {:?} vs {:?}", x.key.packet_header(), y.key.packet_header()));
                }
                if x.key.secret_params() != y.key.secret_params() {
                    out.push(format!("subkey {i} secret parameters"));
                }
                if x.key.public_key() != y.key.public_key() {
                    out.push(format!("subkey {i} public part"));
                }
            }
            if x.signatures != y.signatures {
                out.push(format!("subkey {i} signatures"));
            }
        }
    }
    out.join("; ")
}

fn keygen_case(shape: &Shape, kind: u8, seed: u64, lz: &mut LeadingZeros) -> Result<bool, String> {
    let key = generate(shape, kind, seed)?;
    let pass: &[u8] = shape.primary_pass().unwrap_or("").as_bytes();
    let sub_pass = |i: usize| -> &[u8] { shape.sub_pass(i).unwrap_or("").as_bytes() };

    // (gen)
    if key.primary_key.version() != shape.version || key.primary_key.algorithm() != shape.primary.to_alg() {
        return Err(format!("(gen) primary is {:?} {:?}, requested {:?} {:?}", key.primary_key.version(), key.primary_key.algorithm(), shape.version, shape.primary.to_alg()));
    }
    if key.primary_key.created_at().as_secs() != created(seed) {
        return Err(format!("(gen) creation time {} differs from the requested {}", key.primary_key.created_at().as_secs(), created(seed)));
    }
    if key.secret_subkeys.len() != shape.subs.len() || !key.public_subkeys.is_empty() {
        return Err(format!("(gen) {} secret subkeys, requested {}", key.secret_subkeys.len(), shape.subs.len()));
    }
    for (i, s) in shape.subs.iter().enumerate() {
        let k = &key.secret_subkeys[i].key;
        if k.version() != shape.version || k.algorithm() != s.kt.to_alg() || k.created_at().as_secs() != created(seed) + 1 + i as u32 {
            return Err(format!("(gen) subkey {i} is {:?} {:?} created {}, requested {:?} {:?} {}", k.version(), k.algorithm(), k.created_at().as_secs(), shape.version, s.kt.to_alg(), created(seed) + 1 + i as u32));
        }
    }

    // (lock) + leading zero statistics
    {
        let locked = shape.primary_pass().is_some();
        if key.primary_key.secret_params().is_encrypted() != locked {
            return Err(format!("(lock) primary secret material encrypted: {}, passphrase requested: {locked}", !locked));
        }
        let plain = key.primary_key.unlock(&pw(pass), |_, s| Ok(s.clone())).map_err(e("lock", "primary does not unlock with its passphrase"))?.map_err(e("lock", "primary"))?;
        count_lz(lz, &plain);
        if locked && key.primary_key.unlock(&pw(b"correct horse batterz"), |_, _| Ok(())).is_ok() {
            return Err("(lock) primary unlocks with a wrong passphrase".into());
        }
        for (i, sk) in key.secret_subkeys.iter().enumerate() {
            let locked = shape.sub_pass(i).is_some();
            if sk.key.secret_params().is_encrypted() != locked {
                return Err(format!("(lock) subkey {i} secret material encrypted: {}, passphrase requested: {locked}", !locked));
            }
            let plain = sk.key.unlock(&pw(sub_pass(i)), |_, s| Ok(s.clone())).map_err(e("lock", "subkey does not unlock with its passphrase"))?.map_err(e("lock", "subkey"))?;
            count_lz(lz, &plain);
            if locked && sk.key.unlock(&pw(b""), |_, _| Ok(())).is_ok() {
                return Err(format!("(lock) subkey {i} unlocks with the empty passphrase"));
            }
            // another packet's passphrase must not open it
            if locked && shape.primary_pass().is_some() && shape.primary_pass() != shape.sub_pass(i) && sk.key.unlock(&pw(pass), |_, _| Ok(())).is_ok() {
                return Err(format!("(lock) subkey {i} unlocks with the primary's passphrase instead of its own"));
            }
        }
    }

    // (bind)
    key.verify_bindings().map_err(e("bind", "verify_bindings of the generated secret key"))?;
    let public: SignedPublicKey = key.to_public_key();
    public.verify_bindings().map_err(e("bind", "verify_bindings of the public half"))?;

    // (backsig)
    for (i, s) in shape.subs.iter().enumerate() {
        let sk = &key.secret_subkeys[i];
        if sk.signatures.len() != 1 {
            return Err(format!("(bind) subkey {i} carries {} binding signatures", sk.signatures.len()));
        }
        let sig = &sk.signatures[0];
        sig.verify_subkey_binding(key.primary_key.public_key(), sk.key.public_key()).map_err(|x| format!("(bind) subkey {i} binding signature does not verify: {x}"))?;
        let f = sig.key_flags();
        let want = (
            false,
            s.sign,
            matches!(s.enc, EncryptionCaps::Communication | EncryptionCaps::All),
            matches!(s.enc, EncryptionCaps::Storage | EncryptionCaps::All),
            s.auth,
        );
        let got = (f.certify(), f.sign(), f.encrypt_comms(), f.encrypt_storage(), f.authentication());
        if got != want {
            return Err(format!("(flags) subkey {i}: key flags (certify, sign, encrypt comms, encrypt storage, authenticate) are {got:?}, requested {want:?}"));
        }
        match (s.sign, sig.embedded_signature()) {
            (true, None) => return Err(format!("(backsig) signing subkey {i} has no embedded primary key binding signature")),
            (true, Some(back)) => {
                back.verify_primary_key_binding(sk.key.public_key(), key.primary_key.public_key())
                    .map_err(|x| format!("(backsig) embedded primary key binding signature of signing subkey {i} does not verify: {x}"))?;
            }
            (false, _) => {}
        }
    }

    // (flags) self-signatures
    let n_users = shape.primary_uid.iter().count() + shape.uids.len();
    if key.details.users.len() != n_users {
        return Err(format!("(flags) {} user ids, requested {}", key.details.users.len(), n_users));
    }
    let mut want_ids: Vec<&str> = shape.primary_uid.iter().copied().collect();
    want_ids.extend(shape.uids.iter().copied());
    for (i, u) in key.details.users.iter().enumerate() {
        if u.id.id() != want_ids[i].as_bytes() {
            return Err(format!("(flags) user id {i} is {:?}, requested {:?}", String::from_utf8_lossy(u.id.id()), want_ids[i]));
        }
        if u.signatures.len() != 1 {
            return Err(format!("(flags) user id {i} carries {} self-signatures", u.signatures.len()));
        }
        let is_primary = shape.primary_uid.is_some() && i == 0;
        if u.signatures[0].is_primary() != is_primary {
            return Err(format!("(flags) user id {i}: primary flag {}, expected {is_primary}", u.signatures[0].is_primary()));
        }
        u.signatures[0]
            .verify_certification(key.primary_key.public_key(), pgp::types::Tag::UserId, &u.id)
            .map_err(|x| format!("(bind) self-certification of user id {i} does not verify: {x}"))?;
        if shape.version != KeyVersion::V6 {
            check_sig_meta(shape, &u.signatures[0], &format!("user id {i}"))?;
        }
    }
    if shape.version == KeyVersion::V6 {
        if key.details.direct_signatures.len() != 1 {
            return Err(format!("(flags) v6 key with {} direct key signatures", key.details.direct_signatures.len()));
        }
        key.details.direct_signatures[0].verify_key(key.primary_key.public_key()).map_err(|x| format!("(bind) direct key signature does not verify: {x}"))?;
        check_sig_meta(shape, &key.details.direct_signatures[0], "direct key signature")?;
    } else if !key.details.direct_signatures.is_empty() {
        return Err("(flags) v4 key with a direct key signature".into());
    }

    // (bin)
    let bytes = key.to_bytes().map_err(e("bin", "binary export failed"))?;
    // (len) first: a wrong length is the root cause of a failing re-import
    if key.write_len() != bytes.len() {
        return Err(format!("(len) key: write_len() is {} but {} octets are exported", key.write_len(), bytes.len()));
    }
    len_check(&key.primary_key, "primary secret key packet body")?;
    len_check(key.primary_key.public_key(), "primary public key packet body")?;
    len_check(&key.details, "key details")?;
    for (i, sk) in key.secret_subkeys.iter().enumerate() {
        len_check(&sk.key, &format!("secret subkey {i} packet body"))?;
        len_check(sk, &format!("signed secret subkey {i}"))?;
        for s in &sk.signatures {
            len_check(s, &format!("subkey {i} binding signature"))?;
        }
    }
    for u in &key.details.users {
        len_check(&u.id, "user id")?;
        for s in &u.signatures {
            len_check(s, "user id signature")?;
        }
    }
    let back = {
        let it = SignedSecretKey::from_bytes_many(&bytes[..]).map_err(e("bin", "binary re-import failed"))?;
        let mut keys = vec![];
        for k in it {
            keys.push(k.map_err(|x| format!("(bin) binary re-import of the generated key failed: {x}"))?);
        }
        if keys.len() != 1 {
            return Err(format!("(bin) binary re-import yields {} keys", keys.len()));
        }
        keys.pop().unwrap()
    };
    if !same_key(&key, &back, shape.any_locked()) {
        return Err(format!("(bin) key differs from itself after binary export and re-import ({})", diff(&key, &back)));
    }
    back.verify_bindings().map_err(e("bin", "re-imported key is not valid"))?;
    let bytes2 = back.to_bytes().map_err(e("bin", "second binary export failed"))?;
    if bytes2 != bytes {
        return Err("(bin) export of the re-imported key differs from the first export".into());
    }

    // (armor)
    let armored = key.to_armored_string(None.into()).map_err(e("armor", "armored export failed"))?;
    let (back_a, _) = SignedSecretKey::from_string(&armored).map_err(|x| format!("(armor) armored re-import of the generated key failed: {x}"))?;
    if !same_key(&key, &back_a, shape.any_locked()) {
        return Err(format!("(armor) key differs from itself after armored export and re-import ({})", diff(&key, &back_a)));
    }
    if back_a != back {
        return Err(format!("(armor) armored and binary re-import differ ({})", diff(&back, &back_a)));
    }

    // (len) per packet of the export
    let n_packets = packets_check(&bytes, "secret key export")?;
    let want_packets = 1 + key.details.direct_signatures.len() + 2 * n_users + 2 * shape.subs.len();
    if n_packets != want_packets {
        return Err(format!("(len) export has {n_packets} packets, expected {want_packets}"));
    }

    // (pub)
    let pbytes = public.to_bytes().map_err(e("pub", "public export failed"))?;
    if public.write_len() != pbytes.len() {
        return Err(format!("(len) public key: write_len() is {} but {} octets are exported", public.write_len(), pbytes.len()));
    }
    packets_check(&pbytes, "public key export")?;
    let pback = SignedPublicKey::from_bytes(&pbytes[..]).map_err(|x| format!("(pub) binary re-import of the public key failed: {x}"))?;
    if pback != public {
        return Err("(pub) public key differs from itself after binary export and re-import".into());
    }
    pback.verify_bindings().map_err(e("pub", "re-imported public key is not valid"))?;
    let parm = public.to_armored_string(None.into()).map_err(e("pub", "armored public export failed"))?;
    let (pback_a, _) = SignedPublicKey::from_string(&parm).map_err(|x| format!("(pub) armored re-import of the public key failed: {x}"))?;
    if pback_a != public {
        return Err("(pub) public key differs from itself after armored export and re-import".into());
    }
    if pback.primary_key != *key.primary_key.public_key() || pback.public_subkeys.len() != shape.subs.len() {
        return Err("(pub) public half has a different primary or number of subkeys".into());
    }

    // (sign)
    let first_sub_pub: Option<&packet::PublicSubkey> = pback.public_subkeys.first().map(|s| &s.key);
    if shape.sign {
        sign_verify(&key.primary_key, pass, &pback.primary_key, first_sub_pub.map(|k| k as &dyn VerifyingKey), "primary", seed)?;
    }
    for (i, s) in shape.subs.iter().enumerate() {
        if s.sign {
            sign_verify(&key.secret_subkeys[i].key, sub_pass(i), &pback.public_subkeys[i].key, Some(&pback.primary_key), &format!("signing subkey {i}"), seed)?;
        }
    }
    // (crypt)
    if shape.enc != EncryptionCaps::None {
        encrypt_decrypt(shape.version, &pback.primary_key, &back, pass, "primary", seed)?;
    }
    for (i, s) in shape.subs.iter().enumerate() {
        if s.enc != EncryptionCaps::None {
            encrypt_decrypt(shape.version, &pback.public_subkeys[i].key, &back, sub_pass(i), &format!("encryption subkey {i}"), seed)?;
        }
    }
    Ok(true)
}

fn section1(ctx: &mut Ctx, n: u64) {
    let thorough = n >= 200;
    let mut lz = LeadingZeros::default();
    ctx.sample_next = true;
    for (si, shape) in shapes().iter().enumerate() {
        if shape.thorough_only && !thorough {
            continue;
        }
        let seeds = if shape.cost == 0 { shape.fixed } else { std::cmp::max(1, n / shape.cost) };
        for kind in 0u8..2 {
            let mut list: Vec<u64> = (0..seeds).collect();
            if kind == 0 {
                for x in &shape.extra8 {
                    if !list.contains(x) {
                        list.push(*x);
                    }
                }
            }
            if kind == 1 && shape.cost == 0 {
                continue;
            }
            for seed in list {
                let id = format!("01{:02x}{:x}{:05x}", si, kind, seed);
                let desc = format!("keygen shape {si} [{}] {} seed {seed}", shape.name, if kind == 0 { "ChaCha8Rng" } else { "ChaCha20Rng" });
                ctx.run(&id, &desc, || keygen_case(shape, kind, seed, &mut lz));
            }
        }
    }
    println!(
        "INFO leading zero octet in generated secret scalars: EdDSALegacy MPI {}/{}, ECDSA+ECDH NIST MPI {}/{}, native Ed25519/X25519 {}/{}",
        lz.eddsa_legacy_mpi.1, lz.eddsa_legacy_mpi.0, lz.nist_mpi.1, lz.nist_mpi.0, lz.raw.1, lz.raw.0
    );
    if ctx.replay.is_none() {
        let id = "01ff000000";
        ctx.run(id, "coverage of the seed range: secret scalars with a leading zero octet", || {
            if lz.eddsa_legacy_mpi.1 == 0 {
                return Err(format!("(coverage) none of the {} generated EdDSALegacy scalars has a leading zero octet", lz.eddsa_legacy_mpi.0));
            }
            if lz.nist_mpi.1 == 0 {
                return Err(format!("(coverage) none of the {} generated ECDSA / ECDH NIST scalars has a leading zero octet", lz.nist_mpi.0));
            }
            Ok(true)
        });
    }
}

// ---------------------------------------------------------------------------------------------------------------
// section 2: lock matrix (C08)
// ---------------------------------------------------------------------------------------------------------------

trait LockTarget: Clone + Serialize + PacketTrait {
    fn sp(&self) -> &SecretParams;
    fn lock(&mut self, pw: &Password, p: S2kParams) -> pgp::errors::Result<()>;
    fn unlock_plain(&self, pw: &Password) -> Result<PlainSecretParams, String>;
    fn strip(&mut self, pw: &Password) -> pgp::errors::Result<()>;
    fn rebuild(&self, sp: SecretParams) -> Result<Self, String>;
    fn from_packet(p: Packet) -> Option<Self>;
    fn ver(&self) -> KeyVersion;
}

impl LockTarget for packet::SecretKey {
    fn sp(&self) -> &SecretParams {
        self.secret_params()
    }
    fn lock(&mut self, pw: &Password, p: S2kParams) -> pgp::errors::Result<()> {
        self.set_password_with_s2k(pw, p)
    }
    fn unlock_plain(&self, pw: &Password) -> Result<PlainSecretParams, String> {
        match self.unlock(pw, |_, s| Ok(s.clone())) {
            Ok(Ok(s)) => Ok(s),
            Ok(Err(x)) => Err(x.to_string()),
            Err(x) => Err(x.to_string()),
        }
    }
    fn strip(&mut self, pw: &Password) -> pgp::errors::Result<()> {
        self.remove_password(pw)
    }
    fn rebuild(&self, sp: SecretParams) -> Result<Self, String> {
        packet::SecretKey::new(self.public_key().clone(), sp).map_err(|x| x.to_string())
    }
    fn from_packet(p: Packet) -> Option<Self> {
        match p {
            Packet::SecretKey(k) => Some(k),
            _ => None,
        }
    }
    fn ver(&self) -> KeyVersion {
        self.version()
    }
}

impl LockTarget for packet::SecretSubkey {
    fn sp(&self) -> &SecretParams {
        self.secret_params()
    }
    fn lock(&mut self, pw: &Password, p: S2kParams) -> pgp::errors::Result<()> {
        self.set_password_with_s2k(pw, p)
    }
    fn unlock_plain(&self, pw: &Password) -> Result<PlainSecretParams, String> {
        match self.unlock(pw, |_, s| Ok(s.clone())) {
            Ok(Ok(s)) => Ok(s),
            Ok(Err(x)) => Err(x.to_string()),
            Err(x) => Err(x.to_string()),
        }
    }
    fn strip(&mut self, pw: &Password) -> pgp::errors::Result<()> {
        self.remove_password(pw)
    }
    fn rebuild(&self, sp: SecretParams) -> Result<Self, String> {
        packet::SecretSubkey::new(self.public_key().clone(), sp).map_err(|x| x.to_string())
    }
    fn from_packet(p: Packet) -> Option<Self> {
        match p {
            Packet::SecretSubkey(k) => Some(k),
            _ => None,
        }
    }
    fn ver(&self) -> KeyVersion {
        self.version()
    }
}

#[derive(Clone, Copy, PartialEq, Debug)]
enum S2kKind {
    Simple,
    Salted,
    Iterated(u8),
    Argon2,
}

#[derive(Clone, Copy, Debug)]
struct LockCfg {
    aead: Option<AeadAlgorithm>,
    kind: S2kKind,
    hash: HashAlgorithm,
    sym: SymmetricKeyAlgorithm,
    /// the combination is one the library may refuse to lock with (then nothing else is required)
    may_refuse: bool,
}

impl LockCfg {
    fn text(&self) -> String {
        format!(
            "usage {} {:?} S2K {:?}/{:?} cipher {:?}",
            if self.aead.is_some() { 253 } else { 254 },
            self.aead,
            self.kind,
            self.hash,
            self.sym
        )
    }

    fn params(&self, tweak: u8) -> S2kParams {
        let mut salt16 = [0u8; 16];
        for (i, b) in salt16.iter_mut().enumerate() {
            *b = 0x11u8.wrapping_mul(i as u8 + 1).wrapping_add(tweak);
        }
        let salt8: [u8; 8] = salt16[..8].try_into().unwrap();
        let s2k = match self.kind {
            S2kKind::Simple => StringToKey::Simple { hash_alg: self.hash },
            S2kKind::Salted => StringToKey::Salted { hash_alg: self.hash, salt: salt8 },
            S2kKind::Iterated(c) => StringToKey::IteratedAndSalted { hash_alg: self.hash, salt: salt8, count: c },
            S2kKind::Argon2 => StringToKey::Argon2 { salt: salt16, t: 1, p: 1, m_enc: 3 + (tweak & 1) },
        };
        match self.aead {
            Some(mode) => S2kParams::Aead {
                sym_alg: self.sym,
                aead_mode: mode,
                s2k,
                nonce: (0..mode.nonce_size()).map(|i| 0xa0u8.wrapping_add(i as u8 * 3).wrapping_add(tweak)).collect::<Vec<u8>>().into(),
            },
            None => S2kParams::Cfb {
                sym_alg: self.sym,
                s2k,
                iv: (0..self.sym.block_size()).map(|i| 0x5au8.wrapping_add(i as u8 * 5).wrapping_add(tweak)).collect::<Vec<u8>>().into(),
            },
        }
    }
}

fn lock_cfgs(v6: bool, thorough: bool) -> Vec<LockCfg> {
    let mut v = vec![];
    let syms: Vec<SymmetricKeyAlgorithm> = if thorough {
        vec![SymmetricKeyAlgorithm::AES128, SymmetricKeyAlgorithm::AES256, SymmetricKeyAlgorithm::AES192, SymmetricKeyAlgorithm::Camellia256, SymmetricKeyAlgorithm::Twofish]
    } else {
        vec![SymmetricKeyAlgorithm::AES128, SymmetricKeyAlgorithm::AES256]
    };
    let hashes: Vec<HashAlgorithm> = if thorough { vec![HashAlgorithm::Sha256, HashAlgorithm::Sha512, HashAlgorithm::Sha3_256] } else { vec![HashAlgorithm::Sha256] };
    for &hash in &hashes {
        for &sym in &syms {
            for kind in [S2kKind::Simple, S2kKind::Salted, S2kKind::Iterated(0)] {
                // v6 keys refuse the Simple S2K
                v.push(LockCfg { aead: None, kind, hash, sym, may_refuse: v6 && kind == S2kKind::Simple });
            }
            if thorough {
                v.push(LockCfg { aead: None, kind: S2kKind::Iterated(1), hash, sym, may_refuse: false });
            }
        }
    }
    for mode in [AeadAlgorithm::Ocb, AeadAlgorithm::Gcm, AeadAlgorithm::Eax] {
        for &sym in &syms[..if thorough { 3 } else { 2 }] {
            v.push(LockCfg { aead: Some(mode), kind: S2kKind::Argon2, hash: HashAlgorithm::Sha256, sym, may_refuse: false });
            v.push(LockCfg { aead: Some(mode), kind: S2kKind::Iterated(0), hash: HashAlgorithm::Sha256, sym, may_refuse: false });
        }
    }
    // combinations that lock may refuse; if it accepts them, everything else must hold (lock accepts only what unlock accepts)
    v.push(LockCfg { aead: Some(AeadAlgorithm::Ocb), kind: S2kKind::Salted, hash: HashAlgorithm::Sha256, sym: SymmetricKeyAlgorithm::AES128, may_refuse: true });
    v.push(LockCfg { aead: Some(AeadAlgorithm::Ocb), kind: S2kKind::Simple, hash: HashAlgorithm::Sha256, sym: SymmetricKeyAlgorithm::AES128, may_refuse: true });
    v.push(LockCfg { aead: None, kind: S2kKind::Argon2, hash: HashAlgorithm::Sha256, sym: SymmetricKeyAlgorithm::AES128, may_refuse: true });
    v.push(LockCfg { aead: None, kind: S2kKind::Iterated(0), hash: HashAlgorithm::Sha1, sym: SymmetricKeyAlgorithm::AES128, may_refuse: true });
    v.push(LockCfg { aead: None, kind: S2kKind::Salted, hash: HashAlgorithm::Md5, sym: SymmetricKeyAlgorithm::AES128, may_refuse: true });
    v
}

fn password(len: usize) -> Vec<u8> {
    (0..len).map(|i| (i * 7 + 3) as u8).collect()
}

fn reparse<K: LockTarget>(k: &K) -> Result<(K, Vec<u8>), String> {
    let mut bytes = vec![];
    k.to_writer_with_header(&mut bytes).map_err(|x| format!("(wire) locked key does not serialise: {x}"))?;
    if bytes.len() != k.write_len_with_header() {
        return Err(format!("(wire) write_len_with_header() is {} but {} octets are written", k.write_len_with_header(), bytes.len()));
    }
    let mut it = PacketParser::new(&bytes[..]);
    let p = match it.next() {
        Some(Ok(p)) => p,
        Some(Err(x)) => return Err(format!("(wire) locked key does not parse back: {x}")),
        None => return Err("(wire) locked key parses to nothing".into()),
    };
    if it.next().is_some() {
        return Err("(wire) locked key parses to more than one packet".into());
    }
    let parsed = K::from_packet(p).ok_or("(wire) locked key parses to a different packet type")?;
    Ok((parsed, bytes))
}

fn lock_case<K: LockTarget>(plain_key: &K, cfg: &LockCfg, pwlen: usize, tweak: u8) -> Result<bool, String> {
    let SecretParams::Plain(original) = plain_key.sp() else {
        return Err("(harness) key is not unlocked".into());
    };
    let pass = password(pwlen);
    let params = cfg.params(tweak);
    let mut locked = plain_key.clone();
    if let Err(x) = locked.lock(&pw(&pass), params.clone()) {
        if cfg.may_refuse {
            return Ok(false);
        }
        return Err(format!("(lock) locking is refused: {x}"));
    }
    let SecretParams::Encrypted(enc) = locked.sp() else {
        return Err("(lock) locking leaves the secret material unprotected".into());
    };
    if enc.string_to_key_params() != &params {
        return Err(format!("(lock) locked key carries parameters {:?}, requested {:?}", enc.string_to_key_params(), params));
    }
    // (right) in memory
    match locked.unlock_plain(&pw(&pass)) {
        Ok(s) if &s == original => {}
        Ok(_) => return Err("(right) unlocking with the right passphrase gives DIFFERENT secret material".into()),
        Err(x) => return Err(format!("(right) the key does not unlock with the passphrase it was locked with: {x}")),
    }
    // (wire)
    let (parsed, bytes) = reparse(&locked)?;
    if parsed.sp() != locked.sp() {
        return Err(format!("(wire) write + parse changes the protected secret parameters: {:?} -> {:?}", locked.sp(), parsed.sp()));
    }
    let (_, bytes2) = reparse(&parsed)?;
    if bytes2 != bytes {
        return Err("(wire) write -> parse -> write is not identical".into());
    }
    // (right) after the wire
    match parsed.unlock_plain(&pw(&pass)) {
        Ok(s) if &s == original => {}
        Ok(_) => return Err("(right) after write + parse the right passphrase gives DIFFERENT secret material".into()),
        Err(x) => return Err(format!("(right) after write + parse the key does not unlock with its passphrase: {x}")),
    }
    let mut stripped = parsed.clone();
    stripped.strip(&pw(&pass)).map_err(|x| format!("(right) remove_password with the right passphrase fails: {x}"))?;
    match stripped.sp() {
        SecretParams::Plain(s) if s == original => {}
        _ => return Err("(right) remove_password does not restore the original secret material".into()),
    }
    // (wrong)
    let mut wrongs: Vec<(&str, Vec<u8>)> = vec![];
    if pwlen > 0 {
        let mut w = pass.clone();
        *w.last_mut().unwrap() ^= 1;
        wrongs.push(("last octet flipped", w));
        wrongs.push(("last octet dropped", pass[..pwlen - 1].to_vec()));
        let mut w = pass.clone();
        w[0] ^= 0x80;
        wrongs.push(("first octet flipped", w));
    }
    let mut w = pass.clone();
    w.push(b'x');
    wrongs.push(("one octet appended", w));
    for (what, w) in &wrongs {
        if let Ok(s) = parsed.unlock_plain(&pw(w)) {
            return Err(format!("(wrong) the key unlocks with a WRONG passphrase ({what}; original material: {})", &s == original));
        }
        let mut k = parsed.clone();
        if k.strip(&pw(w)).is_ok() {
            return Err(format!("(wrong) remove_password succeeds with a WRONG passphrase ({what})"));
        }
    }
    Ok(true)
}

fn flip_case<K: LockTarget>(plain_key: &K, cfg: &LockCfg, tweak: u8) -> Result<bool, String> {
    let pass = password(8);
    let params = cfg.params(tweak);
    let mut locked = plain_key.clone();
    if locked.lock(&pw(&pass), params.clone()).is_err() {
        return Ok(false); // reported by lock_case unless may_refuse
    }
    let SecretParams::Encrypted(enc) = locked.sp() else {
        return Err("(lock) locking leaves the secret material unprotected".into());
    };
    let data = enc.data().to_vec();
    let try_unlock = |data: Vec<u8>, params: S2kParams, what: String| -> Result<(), String> {
        let k = plain_key.rebuild(SecretParams::Encrypted(EncryptedSecretParams::new(data.into(), params))).map_err(|x| format!("(harness) {x}"))?;
        // through the wire as well: what is checked is what a reader of the modified packet does
        let (k, _) = reparse(&k)?;
        match k.unlock_plain(&pw(&pass)) {
            Ok(_) => Err(format!("(flip) the key still unlocks after {what}")),
            Err(_) => Ok(()),
        }
    };
    // control: unmodified rebuild unlocks
    {
        let k = plain_key.rebuild(SecretParams::Encrypted(EncryptedSecretParams::new(data.clone().into(), params.clone()))).map_err(|x| format!("(harness) {x}"))?;
        k.unlock_plain(&pw(&pass)).map_err(|x| format!("(right) a key rebuilt from the locked parts does not unlock: {x}"))?;
    }
    let n = data.len();
    for i in 0..16usize {
        let pos = if n > 1 { i * (n - 1) / 15 } else { 0 };
        let mut d = data.clone();
        d[pos] ^= 1 << (i % 8);
        try_unlock(d, params.clone(), format!("flipping bit {} of octet {pos} of the {n} protected octets", i % 8))?;
    }
    // truncated by one octet / one octet appended
    try_unlock(data[..n - 1].to_vec(), params.clone(), "dropping the last protected octet".into())?;
    let mut d = data.clone();
    d.push(0);
    try_unlock(d, params.clone(), "appending a zero octet to the protected data".into())?;
    // IV / nonce / salt
    let flip = |b: &[u8], pos: usize| -> Vec<u8> {
        let mut v = b.to_vec();
        v[pos] ^= 0x10;
        v
    };
    let flip_s2k = |s: &StringToKey| -> Vec<(StringToKey, &'static str)> {
        match s {
            StringToKey::Salted { hash_alg, salt } => {
                vec![(StringToKey::Salted { hash_alg: *hash_alg, salt: flip(salt, 0).try_into().unwrap() }, "flipping a bit of the salt"),
                     (StringToKey::Salted { hash_alg: *hash_alg, salt: flip(salt, 7).try_into().unwrap() }, "flipping a bit of the last salt octet")]
            }
            StringToKey::IteratedAndSalted { hash_alg, salt, count } => vec![
                (StringToKey::IteratedAndSalted { hash_alg: *hash_alg, salt: flip(salt, 0).try_into().unwrap(), count: *count }, "flipping a bit of the salt"),
                (StringToKey::IteratedAndSalted { hash_alg: *hash_alg, salt: flip(salt, 7).try_into().unwrap(), count: *count }, "flipping a bit of the last salt octet"),
                (StringToKey::IteratedAndSalted { hash_alg: *hash_alg, salt: *salt, count: *count ^ 1 }, "changing the coded count"),
            ],
            StringToKey::Argon2 { salt, t, p, m_enc } => vec![
                (StringToKey::Argon2 { salt: flip(salt, 0).try_into().unwrap(), t: *t, p: *p, m_enc: *m_enc }, "flipping a bit of the Argon2 salt"),
                (StringToKey::Argon2 { salt: flip(salt, 15).try_into().unwrap(), t: *t, p: *p, m_enc: *m_enc }, "flipping a bit of the last Argon2 salt octet"),
                (StringToKey::Argon2 { salt: *salt, t: *t + 1, p: *p, m_enc: *m_enc }, "changing the Argon2 pass count"),
                (StringToKey::Argon2 { salt: *salt, t: *t, p: *p, m_enc: *m_enc + 1 }, "changing the Argon2 memory exponent"),
            ],
            _ => vec![],
        }
    };
    match &params {
        S2kParams::Cfb { sym_alg, s2k, iv } => {
            for pos in [0, iv.len() / 2, iv.len() - 1] {
                try_unlock(data.clone(), S2kParams::Cfb { sym_alg: *sym_alg, s2k: s2k.clone(), iv: flip(iv, pos).into() }, format!("flipping a bit of IV octet {pos}"))?;
            }
            for (s, what) in flip_s2k(s2k) {
                try_unlock(data.clone(), S2kParams::Cfb { sym_alg: *sym_alg, s2k: s, iv: iv.clone() }, what.into())?;
            }
        }
        S2kParams::Aead { sym_alg, aead_mode, s2k, nonce } => {
            for pos in [0, nonce.len() / 2, nonce.len() - 1] {
                try_unlock(data.clone(), S2kParams::Aead { sym_alg: *sym_alg, aead_mode: *aead_mode, s2k: s2k.clone(), nonce: flip(nonce, pos).into() }, format!("flipping a bit of nonce octet {pos}"))?;
            }
            for (s, what) in flip_s2k(s2k) {
                try_unlock(data.clone(), S2kParams::Aead { sym_alg: *sym_alg, aead_mode: *aead_mode, s2k: s, nonce: nonce.clone() }, what.into())?;
            }
        }
        _ => {}
    }
    Ok(true)
}

fn lock_suite<K: LockTarget>(ctx: &mut Ctx, key_idx: usize, pkt_idx: usize, key_name: &str, k: &K, thorough: bool) {
    let v6 = k.ver() == KeyVersion::V6;
    for (ci, cfg) in lock_cfgs(v6, thorough).iter().enumerate() {
        let mut lens: Vec<usize> = vec![0, 1, 8, 31, 32, 33];
        match cfg.kind {
            S2kKind::Iterated(0) => lens.extend(1014..=1026), // decoded count 1024, salt 8
            S2kKind::Iterated(1) => lens.extend(1078..=1090), // decoded count 1088
            _ => lens.push(1024),
        }
        for (li, &len) in lens.iter().enumerate() {
            let id = format!("02{:x}{:x}{:02x}{:02x}", key_idx, pkt_idx, ci, li);
            if !ctx.wanted(&id) {
                continue;
            }
            let desc = format!("lock {key_name} with {} passphrase of {len} octets ((i*7+3) mod 256)", cfg.text());
            ctx.run(&id, &desc, || lock_case(k, cfg, len, (ci + li) as u8));
        }
        let id = format!("02{:x}{:x}{:02x}ff", key_idx, pkt_idx, ci);
        if ctx.wanted(&id) {
            let desc = format!("lock {key_name} with {} passphrase of 8 octets, then modify the protected data / IV / nonce / salt", cfg.text());
            ctx.run(&id, &desc, || flip_case(k, cfg, ci as u8));
        }
    }
}

fn plain_key(version: KeyVersion, primary: KeyType, sub: KeyType, seed: u64) -> SignedSecretKey {
    let shape = Shape {
        name: "",
        version,
        primary,
        certify: true,
        sign: true,
        auth: false,
        enc: EncryptionCaps::None,
        primary_uid: Some("lock <lock@example.org>"),
        uids: vec![],
        subs: vec![SubSpec { kt: sub, sign: false, enc: EncryptionCaps::All, auth: false }],
        lock: Lock::None,
        pws: None,
        prefs: 1,
        seipd_v2: false,
        cost: 1,
        fixed: 0,
        thorough_only: false,
        extra8: vec![],
    };
    generate(&shape, 0, seed).expect("key for the lock matrix")
}

fn section2(ctx: &mut Ctx, n: u64) {
    let thorough = n >= 200;
    ctx.sample_next = true;
    let mut keys = vec![
        ("v4 Ed25519Legacy/ECDH Curve25519Legacy key (ChaCha8Rng seed 8)", plain_key(KeyVersion::V4, KeyType::Ed25519Legacy, KeyType::ECDH(ECCCurve::Curve25519Legacy), 8)),
        ("v6 Ed25519/X25519 key (ChaCha8Rng seed 8)", plain_key(KeyVersion::V6, KeyType::Ed25519, KeyType::X25519, 8)),
    ];
    if thorough {
        // seed 201: the EdDSALegacy scalar has a leading zero octet (shorter MPI inside the protected data)
        keys.push(("v4 Ed25519Legacy/ECDH Curve25519Legacy key (ChaCha8Rng seed 201, short scalar)", plain_key(KeyVersion::V4, KeyType::Ed25519Legacy, KeyType::ECDH(ECCCurve::Curve25519Legacy), 201)));
        keys.push(("v4 ECDSA P256/ECDH P256 key (ChaCha8Rng seed 8)", plain_key(KeyVersion::V4, KeyType::ECDSA(ECCCurve::P256), KeyType::ECDH(ECCCurve::P256), 8)));
    }
    for (ki, (name, key)) in keys.iter().enumerate() {
        lock_suite(ctx, ki, 0, &format!("primary of {name}"), &key.primary_key, thorough);
        lock_suite(ctx, ki, 1, &format!("subkey of {name}"), &key.secret_subkeys[0].key, thorough);
    }
}

// ---------------------------------------------------------------------------------------------------------------
// section 2b: secret material guarded by the two-octet additive checksum only (C08): S2K usage 255, legacy cipher
// octet, unprotected (usage 0) v4 keys.  The locking API does not create these, the packets are put together by hand.
// ---------------------------------------------------------------------------------------------------------------

fn pkt_any(tag: u8, body: &[u8]) -> Vec<u8> {
    let mut out = vec![0xC0 | tag];
    let n = body.len();
    if n < 192 {
        out.push(n as u8);
    } else if n < 8384 {
        out.push(((n - 192) >> 8) as u8 + 192);
        out.push(((n - 192) & 0xff) as u8);
    } else {
        out.push(0xff);
        out.extend_from_slice(&(n as u32).to_be_bytes());
    }
    out.extend_from_slice(body);
    out
}

fn mpi_bytes(value: &[u8]) -> Vec<u8> {
    let bits = (value.len() * 8 - value[0].leading_zeros() as usize) as u16;
    let mut out = bits.to_be_bytes().to_vec();
    out.extend_from_slice(value);
    out
}

struct SumKey {
    name: String,
    /// packet body up to the protected / secret-material octets
    prefix: Vec<u8>,
    /// the octets that follow: CFB(secret material || checksum) or the material itself
    blob: Vec<u8>,
    /// positions (in the blob) where a flipped bit may legitimately leave the SAME material behind: MPI bit-count
    /// octets (a non-canonical bit count of the same octet length) and the RSA u (recomputed, never compared)
    same_ok: Vec<usize>,
    pass: Vec<u8>,
    /// all bit positions are flipped (blob <= 64 octets), otherwise a spread selection
    exhaustive: bool,
}

const SUM_PW: &[u8] = b"correct horse";
const SUM_SALT: [u8; 8] = [0xa1, 0xb2, 0xc3, 0xd4, 0xe5, 0xf6, 0x07, 0x18];
const SUM_IV: [u8; 16] = [0x10, 0x32, 0x54, 0x76, 0x98, 0xba, 0xdc, 0xfe, 0x01, 0x23, 0x45, 0x67, 0x89, 0xab, 0xcd, 0xef];

fn sum_s2k() -> StringToKey {
    StringToKey::Salted { hash_alg: HashAlgorithm::Sha256, salt: SUM_SALT }
}

fn cfb(key: &[u8], plain: &[u8]) -> Vec<u8> {
    let mut data = plain.to_vec();
    SymmetricKeyAlgorithm::AES128.encrypt_with_iv_regular(key, &SUM_IV, &mut data).expect("cfb");
    data
}

/// positions of the MPI bit-count octets of a sequence of `n` MPIs at the start of `plain`; returns (positions, start of the last MPI)
fn mpi_headers(plain: &[u8], n: usize) -> (Vec<usize>, usize) {
    let mut pos = 0usize;
    let mut out = vec![];
    let mut last = 0;
    for _ in 0..n {
        last = pos;
        out.push(pos);
        out.push(pos + 1);
        let bits = u16::from_be_bytes([plain[pos], plain[pos + 1]]) as usize;
        pos += 2 + (bits + 7) / 8;
    }
    (out, last)
}

fn sum_keys(thorough: bool) -> Vec<SumKey> {
    let mut keys = vec![];
    let derived = sum_s2k().derive_key(SUM_PW, 16).expect("s2k");
    let md5 = HashAlgorithm::Md5.digest(SUM_PW).expect("md5");

    // --- Elgamal with a 12 octet x: the protected data is exactly one cipher block, a flipped bit stays local
    const X: [u8; 12] = [0x9d, 0x41, 0x07, 0x5e, 0x33, 0xc8, 0x6a, 0x12, 0xf0, 0x2b, 0x74, 0xe9];
    let mut public = vec![0x04, 0x5f, 0x00, 0x00, 0x00, 16];
    public.extend(mpi_bytes(&[0xff, 0xff, 0xff, 0xff, 0xff, 0xff, 0xff, 0xc5, 0xff, 0xff, 0xff, 0xff, 0xff, 0xff, 0xff, 0xc5]));
    public.extend(mpi_bytes(&[0x80, 0x05]));
    public.extend(mpi_bytes(&[0xc3, 0x11, 0x22, 0x33, 0x44, 0x55, 0x66, 0x77, 0x88, 0x99, 0xaa, 0xbb, 0xcc, 0xdd, 0xee, 0x0f]));
    let mut plain = mpi_bytes(&X);
    let sum: u16 = plain.iter().fold(0u16, |s, b| s.wrapping_add(*b as u16));
    plain.extend_from_slice(&sum.to_be_bytes());
    {
        let mut prefix = public.clone();
        prefix.push(255);
        prefix.push(7); // AES128
        sum_s2k().to_writer(&mut prefix).expect("s2k");
        prefix.extend_from_slice(&SUM_IV);
        keys.push(SumKey { name: "hand-built v4 Elgamal key (x = 9d41075e33c86a12f02b74e9), usage 255 AES128 salted SHA256".into(), prefix, blob: cfb(derived.as_ref(), &plain), same_ok: vec![0, 1], pass: SUM_PW.to_vec(), exhaustive: true });
    }
    {
        let mut prefix = public.clone();
        prefix.push(7); // legacy: the usage octet is the cipher, key = MD5(passphrase)
        prefix.extend_from_slice(&SUM_IV);
        keys.push(SumKey { name: "hand-built v4 Elgamal key (x = 9d41075e33c86a12f02b74e9), legacy usage octet 7 (AES128, MD5 key)".into(), prefix, blob: cfb(&md5, &plain), same_ok: vec![0, 1], pass: SUM_PW.to_vec(), exhaustive: true });
    }
    {
        let mut prefix = public.clone();
        prefix.push(0);
        keys.push(SumKey { name: "hand-built v4 Elgamal key (x = 9d41075e33c86a12f02b74e9), unprotected".into(), prefix, blob: plain.clone(), same_ok: vec![0, 1], pass: vec![], exhaustive: true });
    }

    // --- generated keys: the material is taken from the library (PlainSecretParams::to_writer = material || checksum)
    let mut generated: Vec<(String, KeyType, u64, usize)> = vec![
        ("Ed25519Legacy primary of ChaCha8Rng seed 8".into(), KeyType::Ed25519Legacy, 8, 1),
        ("Ed25519Legacy primary of ChaCha8Rng seed 201 (short scalar)".into(), KeyType::Ed25519Legacy, 201, 1),
    ];
    if thorough {
        generated.push(("ECDSA P256 primary of ChaCha8Rng seed 8".into(), KeyType::ECDSA(ECCCurve::P256), 8, 1));
        generated.push(("RSA 2048 primary of ChaCha8Rng seed 1".into(), KeyType::Rsa(2048), 1, 4));
    }
    for (name, kt, seed, n_mpis) in generated {
        let sub = if matches!(kt, KeyType::Rsa(_)) { KeyType::ECDH(ECCCurve::Curve25519Legacy) } else { KeyType::ECDH(ECCCurve::Curve25519Legacy) };
        let key = plain_key(KeyVersion::V4, kt, sub, seed);
        let SecretParams::Plain(material) = key.primary_key.secret_params() else { continue };
        let mut plain = vec![];
        material.to_writer(&mut plain, KeyVersion::V4).expect("material");
        let public = key.primary_key.public_key().to_bytes().expect("public");
        let (mut same_ok, last) = mpi_headers(&plain, n_mpis);
        if n_mpis == 4 {
            same_ok.extend(last..plain.len() - 2); // RSA u
        }
        let exhaustive = plain.len() <= 64;
        // usage 255 built through EncryptedSecretParams::new and written by the library
        {
            let params = EncryptedSecretParams::new(
                cfb(derived.as_ref(), &plain).into(),
                S2kParams::MalleableCfb { sym_alg: SymmetricKeyAlgorithm::AES128, s2k: sum_s2k(), iv: SUM_IV.to_vec().into() },
            );
            let k = packet::SecretKey::new(key.primary_key.public_key().clone(), SecretParams::Encrypted(params)).expect("secret key");
            let body = k.to_bytes().expect("body");
            let n = body.len() - plain.len();
            keys.push(SumKey { name: format!("{name}, usage 255 AES128 salted SHA256 (EncryptedSecretParams::new + to_writer)"), prefix: body[..n].to_vec(), blob: body[n..].to_vec(), same_ok: same_ok.clone(), pass: SUM_PW.to_vec(), exhaustive });
        }
        // legacy cipher octet
        {
            let mut prefix = public.clone();
            prefix.push(7);
            prefix.extend_from_slice(&SUM_IV);
            keys.push(SumKey { name: format!("{name}, legacy usage octet 7 (AES128, MD5 key)"), prefix, blob: cfb(&md5, &plain), same_ok: same_ok.clone(), pass: SUM_PW.to_vec(), exhaustive });
        }
        // unprotected, as the library writes it
        {
            let body = key.primary_key.to_bytes().expect("body");
            let n = body.len() - plain.len();
            keys.push(SumKey { name: format!("{name}, unprotected (as exported)"), prefix: body[..n].to_vec(), blob: body[n..].to_vec(), same_ok, pass: vec![], exhaustive });
        }
    }
    keys
}

/// parse the packet and unlock it
fn sum_open(prefix: &[u8], blob: &[u8], pass: &[u8]) -> Result<PlainSecretParams, String> {
    let body = [prefix, blob].concat();
    let bytes = pkt_any(5, &body);
    let mut it = PacketParser::new(&bytes[..]);
    let k = match it.next() {
        Some(Ok(Packet::SecretKey(k))) => k,
        Some(Ok(p)) => return Err(format!("parses as {:?}", p.tag())),
        Some(Err(x)) => return Err(format!("parse: {x}")),
        None => return Err("parses to nothing".into()),
    };
    if it.next().is_some() {
        return Err("more than one packet".into());
    }
    match k.unlock(&pw(pass), |_, s| Ok(s.clone())) {
        Ok(Ok(s)) => Ok(s),
        Ok(Err(x)) => Err(format!("unlock: {x}")),
        Err(x) => Err(format!("unlock: {x}")),
    }
}

fn section2b(ctx: &mut Ctx, n: u64) {
    let thorough = n >= 200;
    for (ki, k) in sum_keys(thorough).iter().enumerate() {
        // (right)
        let id = format!("06{:02x}00000", ki);
        let mut original = None;
        if ctx.replay.is_none() || ctx.replay.as_ref().map(|r| r.starts_with(&format!("06{:02x}", ki))).unwrap_or(false) {
            original = sum_open(&k.prefix, &k.blob, &k.pass).ok();
        }
        let desc = format!("{}: secret octets {}", k.name, hex(&k.blob[..std::cmp::min(k.blob.len(), 40)]));
        ctx.run(&id, &desc, || {
            let m = sum_open(&k.prefix, &k.blob, &k.pass).map_err(|x| format!("(right) the key is not accepted / does not unlock with its passphrase: {x}"))?;
            let mut w = vec![];
            m.to_writer(&mut w, KeyVersion::V4).map_err(|x| format!("(right) {x}"))?;
            if k.pass.is_empty() && w != k.blob {
                return Err("(right) the parsed material re-serialises differently".into());
            }
            if !k.pass.is_empty() {
                let mut wrong = k.pass.clone();
                *wrong.last_mut().unwrap() ^= 1;
                if let Ok(m2) = sum_open(&k.prefix, &k.blob, &wrong) {
                    return Err(format!("(wrong) unlocks with a wrong passphrase (same material: {})", m2 == m));
                }
            }
            Ok(true)
        });
        let Some(original) = original else { continue };
        // (flip)
        let nbits = k.blob.len() * 8;
        let bits: Vec<usize> = if k.exhaustive {
            (0..nbits).collect()
        } else {
            // all bits of the bit-count octets, of the last 4 octets, and one bit in each of 64 spread octets
            let mut v: Vec<usize> = k.same_ok.iter().filter(|p| k.same_ok.iter().filter(|q| **q + 1 == **p || **q == **p + 1).count() <= 1 || **p < 2).flat_map(|p| (0..8).map(move |b| p * 8 + b)).collect();
            v.extend((k.blob.len() - 4) * 8..nbits);
            v.extend((0..64).map(|i| (i * (k.blob.len() - 1) / 63) * 8 + i % 8));
            v.sort();
            v.dedup();
            v
        };
        for bit in bits {
            let id = format!("06{:02x}1{:04x}", ki, bit);
            if !ctx.wanted(&id) {
                continue;
            }
            let (byte, b) = (bit / 8, bit % 8);
            let desc = format!("{}: bit {b} of secret octet {byte} (of {}) flipped", k.name, k.blob.len());
            let original = &original;
            ctx.run(&id, &desc, move || {
                let mut t = k.blob.clone();
                t[byte] ^= 1 << b;
                match sum_open(&k.prefix, &t, &k.pass) {
                    Err(_) => Ok(true),
                    Ok(m) if &m != original => Err("(flip) one flipped bit: the key still parses and unlocks, to DIFFERENT secret material".into()),
                    Ok(_) if k.same_ok.contains(&byte) => Ok(false),
                    Ok(_) => Err("(flip) one flipped bit inside the checksummed octets is accepted".into()),
                }
            });
        }
        // (trunc) / (extra)
        for cut in 1..=3usize {
            let id = format!("06{:02x}2{:04x}", ki, cut);
            let desc = format!("{}: secret octets cut short by {cut}", k.name);
            ctx.run(&id, &desc, || match sum_open(&k.prefix, &k.blob[..k.blob.len() - cut], &k.pass) {
                Err(_) => Ok(true),
                Ok(m) => Err(format!("(trunc) secret octets cut short by {cut} (checksum missing or partial) are accepted (original material: {})", m == original)),
            });
        }
        for extra in [0x00u8, 0xff] {
            let id = format!("06{:02x}3{:04x}", ki, extra);
            let desc = format!("{}: octet {extra:#04x} appended to the secret octets", k.name);
            ctx.run(&id, &desc, || {
                let mut t = k.blob.clone();
                t.push(extra);
                match sum_open(&k.prefix, &t, &k.pass) {
                    Err(_) => Ok(true),
                    Ok(_) => Err("(extra) an octet after the checksum is accepted".into()),
                }
            });
        }
    }
}

// ---------------------------------------------------------------------------------------------------------------
// section 3: S2K against an independent implementation of RFC 9580 3.7.1.1 - 3.7.1.3 (C12)
// ---------------------------------------------------------------------------------------------------------------

fn decode_count(c: u8) -> usize {
    (16usize + (c as usize & 15)) << ((c as usize >> 4) + 6)
}

/// kind: 0 simple, 1 salted, 3 iterated
fn ref_s2k_with<D: sha2::Digest>(kind: u8, salt: &[u8; 8], pass: &[u8], coded: u8, key_size: usize) -> Vec<u8> {
    let mut out = Vec::new();
    let mut ctx_no = 0usize;
    while out.len() < key_size {
        let mut h = D::new();
        // context i is preloaded with i zero octets
        for _ in 0..ctx_no {
            h.update([0u8]);
        }
        match kind {
            0 => h.update(pass),
            1 => {
                h.update(salt);
                h.update(pass);
            }
            _ => {
                let mut unit = salt.to_vec();
                unit.extend_from_slice(pass);
                // the count is the number of octets to hash; at least one full salt || passphrase
                let total = std::cmp::max(decode_count(coded), unit.len());
                let mut done = 0usize;
                while done < total {
                    let take = std::cmp::min(unit.len(), total - done);
                    h.update(&unit[..take]);
                    done += take;
                }
            }
        }
        out.extend_from_slice(&h.finalize());
        ctx_no += 1;
    }
    out.truncate(key_size);
    out
}

fn ref_s2k(hash: HashAlgorithm, kind: u8, salt: &[u8; 8], pass: &[u8], coded: u8, key_size: usize) -> Option<Vec<u8>> {
    Some(match hash {
        HashAlgorithm::Sha1 => ref_s2k_with::<sha1::Sha1>(kind, salt, pass, coded, key_size),
        HashAlgorithm::Sha224 => ref_s2k_with::<sha2::Sha224>(kind, salt, pass, coded, key_size),
        HashAlgorithm::Sha256 => ref_s2k_with::<sha2::Sha256>(kind, salt, pass, coded, key_size),
        HashAlgorithm::Sha384 => ref_s2k_with::<sha2::Sha384>(kind, salt, pass, coded, key_size),
        HashAlgorithm::Sha512 => ref_s2k_with::<sha2::Sha512>(kind, salt, pass, coded, key_size),
        _ => return None,
    })
}

fn hex(b: &[u8]) -> String {
    b.iter().map(|x| format!("{x:02x}")).collect()
}

fn section3(ctx: &mut Ctx, n: u64) {
    let thorough = n >= 200;
    ctx.sample_next = true;
    const SALT: [u8; 8] = [0x01, 0x23, 0x45, 0x67, 0x89, 0xab, 0xcd, 0xef];
    let hashes = [HashAlgorithm::Sha1, HashAlgorithm::Sha256, HashAlgorithm::Sha224, HashAlgorithm::Sha512, HashAlgorithm::Sha384];
    let key_sizes: Vec<usize> = if thorough { vec![16, 24, 32, 1, 20, 21, 33, 64, 65] } else { vec![16, 24, 32] };
    // (kind, coded count)
    let mut kinds: Vec<(u8, u8)> = vec![(0, 0), (1, 0), (3, 0), (3, 1), (3, 16), (3, 96)];
    if thorough {
        kinds.extend([(3, 15), (3, 0x13), (3, 0x60 + 0x0a), (3, 255)]);
    }
    for (hi, &hash) in hashes.iter().enumerate() {
        if !thorough && hi >= 3 {
            continue;
        }
        for &(kind, coded) in &kinds {
            let mut lens: Vec<usize> = vec![0, 1, 8, 31, 32, 33];
            if kind == 3 {
                let c = decode_count(coded);
                if coded == 255 {
                    lens = vec![8];
                    if hi >= 2 {
                        continue;
                    }
                } else {
                    // salt || passphrase is c - 9 ..= c + 2 octets long
                    lens.extend(c - 17..=c - 6);
                    lens.push(2 * c + 5);
                }
            } else {
                lens.push(1024);
            }
            for &len in &lens {
                let id = format!("03{:x}{:x}{:02x}{:05x}", hi, kind, coded, len);
                if !ctx.wanted(&id) {
                    continue;
                }
                let desc = format!(
                    "S2K type {kind} {hash:?} coded count {coded} (decoded {}) salt 0123456789abcdef passphrase of {len} octets ((i*7+3) mod 256) key sizes {key_sizes:?}",
                    decode_count(coded)
                );
                let key_sizes = key_sizes.clone();
                ctx.run(&id, &desc, move || {
                    let pass = password(len);
                    let s2k = match kind {
                        0 => StringToKey::Simple { hash_alg: hash },
                        1 => StringToKey::Salted { hash_alg: hash, salt: SALT },
                        _ => StringToKey::IteratedAndSalted { hash_alg: hash, salt: SALT, count: coded },
                    };
                    for &ks in &key_sizes {
                        if coded == 255 && ks != 32 {
                            continue;
                        }
                        let got = s2k.derive_key(&pass, ks).map_err(|x| format!("(s2k) derive_key fails for key size {ks}: {x}"))?;
                        let want = ref_s2k(hash, kind, &SALT, &pass, coded, ks).ok_or("(harness) no reference")?;
                        if got.as_ref() != &want[..] {
                            return Err(format!("(s2k) key size {ks}: derive_key gives {} but RFC 9580 3.7.1 gives {}", hex(got.as_ref()), hex(&want)));
                        }
                    }
                    Ok(true)
                });
            }
        }
    }
}

// ---------------------------------------------------------------------------------------------------------------
// independent primitives: RFC 3394 key wrap over the aes crate, RFC 6637 / 9580 ECDH KDF
// ---------------------------------------------------------------------------------------------------------------

fn aes128_block(key: &[u8; 16], block: &mut [u8; 16], decrypt: bool) {
    use aes::cipher::{generic_array::GenericArray, BlockDecrypt, BlockEncrypt, KeyInit};
    let c = aes::Aes128::new(GenericArray::from_slice(key));
    let mut b = GenericArray::clone_from_slice(&block[..]);
    if decrypt {
        c.decrypt_block(&mut b);
    } else {
        c.encrypt_block(&mut b);
    }
    block.copy_from_slice(&b);
}

const KW_IV: [u8; 8] = [0xA6; 8];

fn kw_wrap(kek: &[u8; 16], plain: &[u8]) -> Vec<u8> {
    assert!(plain.len() % 8 == 0 && !plain.is_empty());
    let n = plain.len() / 8;
    let mut a = KW_IV;
    let mut r: Vec<[u8; 8]> = plain.chunks(8).map(|c| c.try_into().unwrap()).collect();
    for j in 0..6 {
        for i in 0..n {
            let mut b = [0u8; 16];
            b[..8].copy_from_slice(&a);
            b[8..].copy_from_slice(&r[i]);
            aes128_block(kek, &mut b, false);
            let t = (n * j + i + 1) as u64;
            a.copy_from_slice(&b[..8]);
            for (x, y) in a.iter_mut().zip(t.to_be_bytes()) {
                *x ^= y;
            }
            r[i].copy_from_slice(&b[8..]);
        }
    }
    let mut out = a.to_vec();
    for x in r {
        out.extend_from_slice(&x);
    }
    out
}

fn kw_unwrap(kek: &[u8; 16], wrapped: &[u8]) -> Result<Vec<u8>, String> {
    if wrapped.len() % 8 != 0 || wrapped.len() < 16 {
        return Err(format!("wrapped length {} is not a multiple of 8 >= 16", wrapped.len()));
    }
    let n = wrapped.len() / 8 - 1;
    let mut a: [u8; 8] = wrapped[..8].try_into().unwrap();
    let mut r: Vec<[u8; 8]> = wrapped[8..].chunks(8).map(|c| c.try_into().unwrap()).collect();
    for j in (0..6).rev() {
        for i in (0..n).rev() {
            let t = (n * j + i + 1) as u64;
            let mut b = [0u8; 16];
            for (k, y) in t.to_be_bytes().iter().enumerate() {
                b[k] = a[k] ^ y;
            }
            b[8..].copy_from_slice(&r[i]);
            aes128_block(kek, &mut b, true);
            a.copy_from_slice(&b[..8]);
            r[i].copy_from_slice(&b[8..]);
        }
    }
    if a != KW_IV {
        return Err("RFC 3394 integrity check value is wrong".into());
    }
    Ok(r.concat())
}

const CURVE25519_OID: [u8; 10] = [0x2B, 0x06, 0x01, 0x04, 0x01, 0x97, 0x55, 0x01, 0x05, 0x01];

/// RFC 9580 11.5: KEK = leftmost 16 octets of SHA2-256( 00 00 00 01 || shared || Param ), for AES-128 / SHA2-256
fn ecdh_kek_cv25519(shared: &[u8], fingerprint: &[u8]) -> [u8; 16] {
    use sha2::Digest;
    let mut param = vec![CURVE25519_OID.len() as u8];
    param.extend_from_slice(&CURVE25519_OID);
    param.push(18); // ECDH
    param.extend_from_slice(&[0x03, 0x01, 8 /* SHA2-256 */, 7 /* AES-128 */]);
    param.extend_from_slice(b"Anonymous Sender    ");
    param.extend_from_slice(fingerprint);
    let mut h = sha2::Sha256::new();
    h.update([0u8, 0, 0, 1]);
    h.update(shared);
    h.update(&param);
    h.finalize()[..16].try_into().unwrap()
}

fn cv_secret(secret: &ecdh::SecretKey) -> Option<x25519_dalek::StaticSecret> {
    match secret {
        ecdh::SecretKey::Curve25519Legacy(k) => Some(x25519_dalek::StaticSecret::from(*k.as_bytes())),
        _ => None,
    }
}

// ---------------------------------------------------------------------------------------------------------------
// section 4: ECDH session key wrapping (C12)
// ---------------------------------------------------------------------------------------------------------------

fn section4(ctx: &mut Ctx, n: u64) {
    let thorough = n >= 200;
    let max_len = if thorough { 239 } else { 64 };
    for (ci, curve) in [ECCCurve::Curve25519Legacy, ECCCurve::P256].iter().enumerate() {
        let mut rng = ChaCha8Rng::seed_from_u64(0xC12 + ci as u64);
        let secret = match ecdh::SecretKey::generate(&mut rng, curve) {
            Ok(s) => s,
            Err(x) => {
                ctx.run(&format!("04{:x}000", ci), &format!("ECDH {curve:?} key generation"), || Err(format!("(gen) {x}")));
                continue;
            }
        };
        let public: EcdhPublicParams = match (&secret).try_into() {
            Ok(p) => p,
            Err(_) => continue,
        };
        let (hash, alg_sym) = match &public {
            EcdhPublicParams::Curve25519Legacy { hash, alg_sym, .. } => (*hash, *alg_sym),
            EcdhPublicParams::P256 { hash, alg_sym, .. } => (*hash, *alg_sym),
            _ => continue,
        };
        let mut fingerprint = [0u8; 20];
        rng.fill_bytes(&mut fingerprint);
        for len in 1..=max_len + 1 {
            let id = format!("04{:x}{:03x}", ci, len);
            if !ctx.wanted(&id) {
                continue;
            }
            let mut plain = vec![0u8; len];
            rng.fill_bytes(&mut plain);
            // keep the last octet away from anything that looks like padding
            *plain.last_mut().unwrap() |= 0x80;
            let desc = format!("ecdh::encrypt {curve:?} (ChaCha8Rng seed {:#x}) of {len} octets {}", 0xC12 + ci, hex(&plain[..std::cmp::min(len, 8)]));
            let mut erng = ChaCha8Rng::seed_from_u64(len as u64);
            let secret = &secret;
            let public = &public;
            let curve = curve.clone();
            ctx.run(&id, &desc, move || {
                let values = match ecdh::encrypt(&mut erng, public, &fingerprint, &plain) {
                    Ok(v) => v,
                    Err(x) => {
                        if len > 239 {
                            return Ok(false); // documented limit
                        }
                        return Err(format!("(wrap) encrypt fails: {x}"));
                    }
                };
                if len > 239 {
                    return Err("(wrap) encrypt accepts more than its documented maximum of 239 octets".into());
                }
                let PkeskBytes::Ecdh { public_point, encrypted_session_key } = values else {
                    return Err("(wrap) not an ECDH result".into());
                };
                let want_padded = (len / 8 + 1) * 8;
                if encrypted_session_key.len() != want_padded + 8 {
                    return Err(format!(
                        "(pad) wrapped value has {} octets: the {len} octet value must be padded with 1..=8 octets to {want_padded} and wrapped to {}",
                        encrypted_session_key.len(),
                        want_padded + 8
                    ));
                }
                // independent recipient
                if let Some(my) = cv_secret(secret) {
                    if hash == HashAlgorithm::Sha256 && alg_sym == SymmetricKeyAlgorithm::AES128 {
                        let pp = public_point.as_ref();
                        if pp.len() != 33 || pp[0] != 0x40 {
                            return Err(format!("(wrap) ephemeral point is not 40 || 32 octets: {}", hex(pp)));
                        }
                        let eph: [u8; 32] = pp[1..].try_into().unwrap();
                        let shared = my.diffie_hellman(&x25519_dalek::PublicKey::from(eph));
                        let kek = ecdh_kek_cv25519(shared.as_bytes(), &fingerprint);
                        let padded = kw_unwrap(&kek, &encrypted_session_key).map_err(|x| format!("(kdf) an independent RFC 9580 11.5 recipient cannot unwrap: {x}"))?;
                        let p = *padded.last().unwrap() as usize;
                        if p == 0 || p > 8 || padded.len() != want_padded || padded[padded.len() - p..].iter().any(|&b| b as usize != p) {
                            return Err(format!("(pad) unwrapped value {} is not the message followed by 1..=8 pad octets of that value", hex(&padded)));
                        }
                        if padded[..padded.len() - p] != plain[..] {
                            return Err("(pad) an independent recipient gets a different value".into());
                        }
                    }
                }
                // the library as recipient
                let back = secret
                    .decrypt(ecdh::EncryptionFields {
                        public_point: &public_point,
                        encrypted_session_key: &encrypted_session_key,
                        fingerprint: &fingerprint,
                        curve,
                        hash,
                        alg_sym,
                    })
                    .map_err(|x| format!("(wrap) the library does not decrypt its own output: {x}"))?;
                if back[..] != plain[..] {
                    return Err("(wrap) decrypt(encrypt(x)) != x".into());
                }
                Ok(true)
            });
        }
    }
    section4_kdf(ctx);
}

fn ref_kdf(hash: HashAlgorithm, x: &[u8], len: usize, param: &[u8]) -> Option<Vec<u8>> {
    fn with<D: sha2::Digest>(x: &[u8], param: &[u8]) -> Vec<u8> {
        let mut h = D::new();
        h.update([0u8, 0, 0, 1]);
        h.update(x);
        h.update(param);
        h.finalize().to_vec()
    }
    let mut d = match hash {
        HashAlgorithm::Sha256 => with::<sha2::Sha256>(x, param),
        HashAlgorithm::Sha384 => with::<sha2::Sha384>(x, param),
        HashAlgorithm::Sha512 => with::<sha2::Sha512>(x, param),
        _ => return None,
    };
    d.truncate(len);
    Some(d)
}

/// (kdf)     ecdh::kdf == leftmost len octets of HASH(00 00 00 01 || x || param) for shared secrets x of the field sizes
///           32 / 48 / 66 with 0, 1, 2, 31 leading zero octets and all-zero: ZB is a FIXED size octet string (RFC 9580 11.4)
/// (kdf-e2e) Curve25519Legacy exchanges whose shared secret starts with 00 (searched over ChaCha8Rng seeds / ephemeral
///           secrets): the independent recipient unwraps the library's output, the library accepts the independent sender
fn section4_kdf(ctx: &mut Ctx) {
    // Param of RFC 9580 11.5 written out by hand (P-256, SHA2-256, AES-128); any octet string serves for (kdf)
    let mut param = vec![0x08, 0x2A, 0x86, 0x48, 0xCE, 0x3D, 0x03, 0x01, 0x07, 18, 0x03, 0x01, 0x08, 0x07];
    param.extend_from_slice(b"Anonymous Sender    ");
    param.extend_from_slice(&[0x42u8; 20]);
    for (si, size) in [32usize, 48, 66].iter().enumerate() {
        for (zi, lz) in [0usize, 1, 2, 31, usize::MAX].iter().enumerate() {
            let id = format!("048{:x}{:x}", si, zi);
            if !ctx.wanted(&id) {
                continue;
            }
            let x: Vec<u8> = (0..*size).map(|i| if i < *lz { 0 } else { 0xa7u8.wrapping_add(i as u8) | 1 }).collect();
            let desc = format!("ecdh::kdf shared secret {} ({} octets), SHA256/384/512, 16/24/32 octets, hand-built P-256 Param with fingerprint 42*20", hex(&x), size);
            let param = &param;
            ctx.run(&id, &desc, move || {
                for hash in [HashAlgorithm::Sha256, HashAlgorithm::Sha384, HashAlgorithm::Sha512] {
                    for len in [16usize, 24, 32] {
                        let got = ecdh::kdf(hash, &x, len, param).map_err(|e| format!("(kdf) kdf fails: {e}"))?;
                        let want = ref_kdf(hash, &x, len, param).ok_or("(harness) no reference")?;
                        if got != want {
                            return Err(format!("(kdf) {hash:?} {len} octets: kdf gives {} but HASH(00000001 || ZB || Param) with the fixed size ZB gives {}", hex(&got), hex(&want)));
                        }
                    }
                }
                Ok(true)
            });
        }
    }

    // (kdf-e2e)
    if !ctx.replay.as_ref().map(|r| r.starts_with("049")).unwrap_or(true) {
        return;
    }
    let mut rng = ChaCha8Rng::seed_from_u64(0xC12);
    let Ok(secret) = ecdh::SecretKey::generate(&mut rng, &ECCCurve::Curve25519Legacy) else { return };
    let Ok(public): Result<EcdhPublicParams, _> = (&secret).try_into() else { return };
    let EcdhPublicParams::Curve25519Legacy { p: recipient_pub, hash, alg_sym, .. } = &public else { return };
    if *hash != HashAlgorithm::Sha256 || *alg_sym != SymmetricKeyAlgorithm::AES128 {
        return;
    }
    let Some(my) = cv_secret(&secret) else { return };
    let fingerprint = [0x24u8; 20];
    // m = algorithm octet || AES-128 session key || checksum
    let mut session = vec![0x07u8];
    session.extend((0..16u8).map(|i| 0x42 ^ i));
    let ck: u16 = session[1..].iter().map(|b| *b as u16).sum();
    session.extend_from_slice(&ck.to_be_bytes());

    // the library as sender: first ChaCha8Rng seed whose exchange has a shared secret starting with 00
    let mut found = None;
    for s in 0..4096u64 {
        let mut erng = ChaCha8Rng::seed_from_u64(s);
        let r = catch_unwind(AssertUnwindSafe(|| ecdh::encrypt(&mut erng, &public, &fingerprint, &session)));
        let Ok(Ok(PkeskBytes::Ecdh { public_point, encrypted_session_key })) = r else { break };
        let pp = public_point.as_ref();
        if pp.len() != 33 || pp[0] != 0x40 {
            break;
        }
        let eph: [u8; 32] = pp[1..].try_into().unwrap();
        let shared = my.diffie_hellman(&x25519_dalek::PublicKey::from(eph));
        if shared.as_bytes()[0] == 0 {
            found = Some((s, *shared.as_bytes(), public_point, encrypted_session_key));
            break;
        }
    }
    match found {
        None => println!("INFO kdf-e2e: no ChaCha8Rng seed below 4096 gives a shared secret with a leading zero octet"),
        Some((s, shared, public_point, wrapped)) => {
            let id = format!("0490{:03x}", s);
            let desc = format!("ecdh::encrypt Curve25519Legacy (recipient of ChaCha8Rng seed 0xc12, ephemeral from ChaCha8Rng seed {s}) with shared secret {} of a 19 octet session key", hex(&shared));
            let secret = &secret;
            let session = &session;
            ctx.run(&id, &desc, move || {
                let kek = ecdh_kek_cv25519(&shared, &fingerprint);
                let padded = kw_unwrap(&kek, &wrapped).map_err(|x| format!("(kdf-e2e) shared secret starts with 00: an independent RFC 9580 11.4 recipient (fixed size ZB) cannot unwrap what the library sent: {x}"))?;
                if padded.len() != 24 || padded[..19] != session[..] || padded[19..] != [5u8; 5] {
                    return Err(format!("(kdf-e2e) independent recipient gets {}", hex(&padded)));
                }
                let back = secret
                    .decrypt(ecdh::EncryptionFields { public_point: &public_point, encrypted_session_key: &wrapped, fingerprint: &fingerprint, curve: ECCCurve::Curve25519Legacy, hash: HashAlgorithm::Sha256, alg_sym: SymmetricKeyAlgorithm::AES128 })
                    .map_err(|x| format!("(kdf-e2e) the library does not decrypt its own output: {x}"))?;
                if back[..] != session[..] {
                    return Err("(kdf-e2e) decrypt(encrypt(x)) != x".into());
                }
                Ok(true)
            });
        }
    }

    // the independent sender: first ephemeral secret (k, k+1, .. repeated pattern) whose shared secret starts with 00
    let mut found = None;
    for k in 0..4096u32 {
        let mut raw = [0x31u8; 32];
        raw[..4].copy_from_slice(&k.to_le_bytes());
        let eph = x25519_dalek::StaticSecret::from(raw);
        let shared = eph.diffie_hellman(recipient_pub);
        if shared.as_bytes()[0] == 0 {
            found = Some((k, raw, *shared.as_bytes(), x25519_dalek::PublicKey::from(&eph)));
            break;
        }
    }
    match found {
        None => println!("INFO kdf-e2e: no ephemeral secret below 4096 gives a shared secret with a leading zero octet"),
        Some((k, raw, shared, eph_pub)) => {
            let id = format!("0491{:03x}", k);
            let desc = format!("independent sender to the Curve25519Legacy recipient of ChaCha8Rng seed 0xc12, ephemeral secret {}, shared secret {}, 19 octet session key + 5 pad octets", hex(&raw), hex(&shared));
            let secret = &secret;
            let session = &session;
            ctx.run(&id, &desc, move || {
                let kek = ecdh_kek_cv25519(&shared, &fingerprint);
                let mut padded = session.clone();
                padded.extend_from_slice(&[5u8; 5]);
                let wrapped = kw_wrap(&kek, &padded);
                let got = ecdh::derive_session_key(&shared, &wrapped, wrapped.len(), ECCCurve::Curve25519Legacy, HashAlgorithm::Sha256, SymmetricKeyAlgorithm::AES128, &fingerprint)
                    .map_err(|x| format!("(kdf-e2e) shared secret starts with 00: derive_session_key refuses a session key wrapped per RFC 9580 11.4/11.5: {x}"))?;
                if got[..] != session[..] {
                    return Err(format!("(kdf-e2e) derive_session_key gives {}", hex(&got)));
                }
                let mut point = vec![0x40u8];
                point.extend_from_slice(eph_pub.as_bytes());
                let point = pgp::types::Mpi::from_slice(&point);
                let got = secret
                    .decrypt(ecdh::EncryptionFields { public_point: &point, encrypted_session_key: &wrapped, fingerprint: &fingerprint, curve: ECCCurve::Curve25519Legacy, hash: HashAlgorithm::Sha256, alg_sym: SymmetricKeyAlgorithm::AES128 })
                    .map_err(|x| format!("(kdf-e2e) shared secret starts with 00: SecretKey::decrypt refuses a session key wrapped per RFC 9580 11.4/11.5: {x}"))?;
                if got[..] != session[..] {
                    return Err(format!("(kdf-e2e) SecretKey::decrypt gives {}", hex(&got)));
                }
                Ok(true)
            });
        }
    }
}

// ---------------------------------------------------------------------------------------------------------------
// section 5: hostile ECDH padding (C04)
// ---------------------------------------------------------------------------------------------------------------

fn hostile_expect(res: Result<Vec<u8>, String>, len: usize, pad: u8, plain: &[u8], path: &str) -> Result<(), String> {
    let p = pad as usize;
    match res {
        Ok(v) => {
            if p == 0 {
                return Ok(()); // kept out: zero pad octet is accepted (recorded separately)
            }
            if p > len {
                return Err(format!("(unpad) {path}: padding octet {p} > {len} unwrapped octets is accepted ({} octets returned)", v.len()));
            }
            if v[..] != plain[..len - p] {
                return Err(format!("(unpad) {path}: returns {} instead of the first {} octets", hex(&v), len - p));
            }
            Ok(())
        }
        Err(x) => {
            if p >= 1 && p < len {
                return Err(format!("(unpad) {path}: valid padding ({p} octets of {p:#04x}) is refused: {x}"));
            }
            Ok(())
        }
    }
}

fn pkt(tag: u8, body: &[u8]) -> Vec<u8> {
    let mut out = vec![0xC0 | tag, body.len() as u8];
    out.extend_from_slice(body);
    out
}

fn section5(ctx: &mut Ctx, _n: u64) {
    let key = plain_key(KeyVersion::V4, KeyType::Ed25519Legacy, KeyType::ECDH(ECCCurve::Curve25519Legacy), 4);
    let sub = &key.secret_subkeys[0].key;
    let PublicParams::ECDH(EcdhPublicParams::Curve25519Legacy { p: recipient_pub, hash, alg_sym, .. }) = sub.public_params() else {
        return;
    };
    if *hash != HashAlgorithm::Sha256 || *alg_sym != SymmetricKeyAlgorithm::AES128 {
        return;
    }
    let Some(SecretParams::Plain(PlainSecretParams::ECDH(secret))) = Some(sub.secret_params()) else {
        return;
    };
    let fp = sub.fingerprint();
    let ephemeral = x25519_dalek::StaticSecret::from([0x5au8; 32]);
    let ephemeral_pub = x25519_dalek::PublicKey::from(&ephemeral);
    let shared = ephemeral.diffie_hellman(recipient_pub);
    let shared: [u8; 32] = *shared.as_bytes();
    let fp: Vec<u8> = fp.as_bytes().to_vec();
    let (shared, fp) = (&shared, &fp);
    let kek = ecdh_kek_cv25519(shared, fp);
    let mut point = vec![0x40u8];
    point.extend_from_slice(ephemeral_pub.as_bytes());
    let point_mpi = pgp::types::Mpi::from_slice(&point);

    for blocks in 1..=5usize {
        let len = blocks * 8;
        for pad in 0..=255u8 {
            for variant in 0..2u8 {
                let id = format!("05{:x}{:x}{:02x}", variant, blocks, pad);
                if !ctx.wanted(&id) {
                    continue;
                }
                // variant 0: the whole plaintext is the pad octet; variant 1: a message followed by min(pad, len) pad octets
                let plain: Vec<u8> = if variant == 0 {
                    vec![pad; len]
                } else {
                    let k = std::cmp::min(pad as usize, len);
                    let mut v: Vec<u8> = (0..len - k).map(|i| 0x80 | i as u8).collect();
                    v.extend(std::iter::repeat(pad).take(k));
                    if k == 0 {
                        *v.last_mut().unwrap() = 0;
                    }
                    v
                };
                let desc = format!("ECDH Curve25519Legacy PKESK, validly wrapped {len} octet plaintext {} (ephemeral secret 5a*32, recipient subkey of ChaCha8Rng seed 4)", hex(&plain));
                let wrapped = kw_wrap(&kek, &plain);
                let point_mpi = &point_mpi;
                let key = &key;
                let curve = ECCCurve::Curve25519Legacy;
                ctx.run(&id, &desc, move || {
                    // (a) the low level helper
                    let r = ecdh::derive_session_key(shared, &wrapped, wrapped.len(), curve.clone(), *hash, *alg_sym, fp);
                    hostile_expect(r.map(|z| z.to_vec()).map_err(|x| x.to_string()), len, pad, &plain, "derive_session_key")?;
                    // (b) the secret key
                    let r = secret.decrypt(ecdh::EncryptionFields {
                        public_point: point_mpi,
                        encrypted_session_key: &wrapped,
                        fingerprint: fp,
                        curve,
                        hash: *hash,
                        alg_sym: *alg_sym,
                    });
                    hostile_expect(r.map(|z| z.to_vec()).map_err(|x| x.to_string()), len, pad, &plain, "ecdh::SecretKey::decrypt")?;
                    // (c) a complete message: PKESK v3 + SEIPD v1 with arbitrary content; must not panic and must not decrypt
                    let mut body = vec![0x03];
                    body.extend_from_slice(sub.legacy_key_id().as_ref());
                    body.push(18);
                    body.extend_from_slice(&[0x01, 0x07, 0x40]);
                    body.extend_from_slice(ephemeral_pub.as_bytes());
                    body.push(wrapped.len() as u8);
                    body.extend_from_slice(&wrapped);
                    let mut msg = pkt(1, &body);
                    let mut seipd = vec![0x01];
                    seipd.extend_from_slice(&[0xa5u8; 48]);
                    msg.extend_from_slice(&pkt(18, &seipd));
                    if let Ok(m) = Message::from_bytes(&msg[..]) {
                        if let Ok(mut d) = m.decrypt(&Password::empty(), key) {
                            if let Ok(data) = d.as_data_vec() {
                                return Err(format!("(unpad) Message::decrypt: a message with garbage content decrypts to {} octets", data.len()));
                            }
                        }
                    }
                    Ok(true)
                });
            }
        }
    }
}

// ---------------------------------------------------------------------------------------------------------------
// section 6: SEIPDv2 construction (C12) against an independent implementation of RFC 9580 5.13.2
// (hkdf + sha2 for the key schedule, aes-gcm / eax / ocb3 crates as single-shot AEAD primitives)
// ---------------------------------------------------------------------------------------------------------------

/// single-shot AEAD open with AES-128; `ct` = ciphertext || 16 octet tag
fn aead_open(mode: AeadAlgorithm, key: &[u8], nonce: &[u8], ad: &[u8], ct: &[u8]) -> Result<Vec<u8>, String> {
    use aes_gcm::aead::generic_array::{typenum::{U15, U16}, GenericArray};
    use aes_gcm::aead::{AeadInPlace, KeyInit};
    if ct.len() < 16 {
        return Err("shorter than a tag".into());
    }
    let (body, tag) = ct.split_at(ct.len() - 16);
    let mut buf = body.to_vec();
    let tag = GenericArray::<u8, U16>::from_slice(tag);
    let r = match mode {
        AeadAlgorithm::Gcm => aes_gcm::Aes128Gcm::new_from_slice(key).map_err(|x| x.to_string())?.decrypt_in_place_detached(GenericArray::from_slice(nonce), ad, &mut buf, tag),
        AeadAlgorithm::Eax => eax::Eax::<aes::Aes128>::new_from_slice(key).map_err(|x| x.to_string())?.decrypt_in_place_detached(GenericArray::from_slice(nonce), ad, &mut buf, tag),
        AeadAlgorithm::Ocb => ocb3::Ocb3::<aes::Aes128, U15, U16>::new_from_slice(key).map_err(|x| x.to_string())?.decrypt_in_place_detached(GenericArray::from_slice(nonce), ad, &mut buf, tag),
        _ => return Err("mode".into()),
    };
    r.map_err(|_| "AEAD tag mismatch".to_string())?;
    Ok(buf)
}

/// RFC 9580 5.13.2 for AES-128 and 64 octet chunks (chunk size octet 0)
fn seipdv2_reference_open(mode: AeadAlgorithm, salt: &[u8; 32], session_key: &[u8], body: &[u8]) -> Result<Vec<u8>, String> {
    let mode_id: u8 = match mode {
        AeadAlgorithm::Eax => 1,
        AeadAlgorithm::Ocb => 2,
        AeadAlgorithm::Gcm => 3,
        _ => return Err("mode".into()),
    };
    let nonce_len = match mode_id {
        1 => 16,
        2 => 15,
        _ => 12,
    };
    let info = [0xd2u8, 0x02, 7 /* AES-128 */, mode_id, 0 /* 64 octet chunks */];
    let mut okm = vec![0u8; 16 + nonce_len - 8];
    hkdf::Hkdf::<sha2::Sha256>::new(Some(&salt[..]), session_key).expand(&info, &mut okm).map_err(|x| x.to_string())?;
    let (key, iv) = okm.split_at(16);
    let nonce_for = |index: u64| {
        let mut n = iv.to_vec();
        n.extend_from_slice(&index.to_be_bytes());
        n
    };
    if body.len() < 16 {
        return Err("body shorter than the final tag".into());
    }
    let (chunks, final_tag) = body.split_at(body.len() - 16);
    let mut plain = Vec::with_capacity(chunks.len());
    let mut index = 0u64;
    for chunk in chunks.chunks(64 + 16) {
        let p = aead_open(mode, key, &nonce_for(index), &info, chunk).map_err(|x| format!("chunk {index} ({} octets) does not authenticate under nonce IV || be64({index}) with AD = info: {x}", chunk.len()))?;
        if p.is_empty() {
            return Err(format!("chunk {index} is empty"));
        }
        plain.extend_from_slice(&p);
        index += 1;
    }
    let mut ad = info.to_vec();
    ad.extend_from_slice(&(plain.len() as u64).to_be_bytes());
    aead_open(mode, key, &nonce_for(index), &ad, final_tag).map_err(|x| format!("final tag does not authenticate under nonce IV || be64({index}) with AD = info || be64({}): {x}", plain.len()))?;
    Ok(plain)
}

fn section6(ctx: &mut Ctx, n: u64) {
    use pgp::packet::{SymEncryptedProtectedData, SymEncryptedProtectedDataConfig};
    let thorough = n >= 200;
    let modes = [AeadAlgorithm::Gcm, AeadAlgorithm::Ocb, AeadAlgorithm::Eax];
    // (full 64 octet chunks, further octets)
    let mut sizes: Vec<(usize, usize)> = vec![(0, 0), (0, 17), (1, 0), (1, 5), (2, 0), (3, 17), (254, 63), (255, 0), (255, 1), (256, 0), (256, 5), (257, 0), (300, 33)];
    if thorough {
        sizes.extend([(511, 63), (512, 0), (700, 33), (1024, 1), (65535, 63), (65536, 0), (65537, 1)]);
    }
    for (mi, mode) in modes.iter().enumerate() {
        for &(chunks, extra) in &sizes {
            if chunks > 60000 && mi != 0 && !(mi == 1 && chunks == 65536) {
                continue;
            }
            let id = format!("07{:x}{:05x}{:02x}", mi, chunks, extra);
            if !ctx.wanted(&id) {
                continue;
            }
            let seed = chunks as u64 * 31 + extra as u64;
            let desc = format!("SEIPDv2 AES128 {mode:?} 64 octet chunks, plaintext of {chunks} full chunks + {extra} octets (session key, plaintext, salt from ChaCha8Rng seed {seed})");
            let mode = *mode;
            ctx.run(&id, &desc, move || {
                let mut rng = ChaCha8Rng::seed_from_u64(seed);
                let mut session_key = [0u8; 16];
                rng.fill_bytes(&mut session_key);
                let mut plaintext = vec![0u8; chunks * 64 + extra];
                rng.fill_bytes(&mut plaintext);
                let enc = SymEncryptedProtectedData::encrypt_seipdv2(&mut rng, SymmetricKeyAlgorithm::AES128, mode, ChunkSize::C64B, &session_key, &plaintext)
                    .map_err(|x| format!("(seipd2) encrypt_seipdv2 fails: {x}"))?;
                let SymEncryptedProtectedDataConfig::V2 { salt, .. } = enc.config() else {
                    return Err("(seipd2) not a version 2 packet".into());
                };
                let want_len = plaintext.len() + 16 * ((plaintext.len() + 63) / 64) + 16;
                if enc.data().len() != want_len {
                    return Err(format!("(seipd2) {} octets of ciphertext, RFC 9580 5.13.2 gives {want_len} (chunks + a tag each + final tag)", enc.data().len()));
                }
                let got = seipdv2_reference_open(mode, salt, &session_key, enc.data()).map_err(|x| format!("(seipd2) the emitted ciphertext is not the RFC 9580 5.13.2 construction: {x}"))?;
                if got != plaintext {
                    return Err("(seipd2) an independent RFC 9580 recipient gets a different plaintext".into());
                }
                let dec = enc
                    .decrypt(&session_key, Some(SymmetricKeyAlgorithm::AES128), pgp::types::Seipdv1ReadMode::default())
                    .map_err(|x| format!("(seipd2) the library does not decrypt its own SEIPDv2 output: {x}"))?;
                if dec != plaintext {
                    return Err("(seipd2) decrypt(encrypt(x)) != x".into());
                }
                Ok(true)
            });
        }
    }
    // through the MessageBuilder (streaming writer), password recipient; the session key is taken from the builder
    for (mi, mode) in modes.iter().enumerate() {
        for &(chunks, extra) in &[(3usize, 17usize), (256, 5), (300, 33)] {
            let id = format!("07{:x}{:05x}{:02x}", 8 + mi, chunks, extra);
            if !ctx.wanted(&id) {
                continue;
            }
            let seed = chunks as u64 * 31 + extra as u64;
            let desc = format!("MessageBuilder seipd_v2 AES128 {mode:?} ChunkSize::C64B, password recipient, literal data of {} octets (ChaCha8Rng seed {seed})", chunks * 64 + extra);
            let mode = *mode;
            ctx.run(&id, &desc, move || {
                let mut rng = ChaCha8Rng::seed_from_u64(seed);
                let mut data = vec![0u8; chunks * 64 + extra];
                rng.fill_bytes(&mut data);
                let mut b = MessageBuilder::from_bytes("", data.clone()).seipd_v2(&mut rng, SymmetricKeyAlgorithm::AES128, mode, ChunkSize::C64B);
                let s2k = StringToKey::new_iterated(&mut rng, HashAlgorithm::Sha256, 0);
                b.encrypt_with_password(&mut rng, s2k, &pw(b"message pw")).map_err(|x| format!("(seipd2) encrypt_with_password: {x}"))?;
                let session_key: Vec<u8> = b.session_key().as_ref().to_vec();
                let bytes = b.to_vec(&mut rng).map_err(|x| format!("(seipd2) writing the message fails: {x}"))?;
                // independent recipient on the SEIPD packet of the message
                let mut seen = false;
                for p in PacketParser::new(&bytes[..]) {
                    if let Ok(Packet::SymEncryptedProtectedData(p)) = p {
                        let SymEncryptedProtectedDataConfig::V2 { salt, .. } = p.config() else {
                            return Err("(seipd2) not a version 2 packet".into());
                        };
                        let inner = seipdv2_reference_open(mode, salt, &session_key, p.data()).map_err(|x| format!("(seipd2) the emitted message is not the RFC 9580 5.13.2 construction: {x}"))?;
                        if !inner.windows(std::cmp::min(64, data.len())).any(|w| w == &data[..std::cmp::min(64, data.len())]) {
                            return Err("(seipd2) an independent recipient does not find the literal data in the decrypted packet stream".into());
                        }
                        seen = true;
                    }
                }
                let m = Message::from_bytes(&bytes[..]).map_err(|x| format!("(seipd2) message does not parse: {x}"))?;
                let mut d = m.decrypt_with_password(&pw(b"message pw")).map_err(|x| format!("(seipd2) the library does not decrypt its own message: {x}"))?;
                let got = d.as_data_vec().map_err(|x| format!("(seipd2) the library does not read its own message: {x}"))?;
                if got != data {
                    return Err("(seipd2) message round trip gives different data".into());
                }
                Ok(seen)
            });
        }
    }
}

fn main() {
    let args: Vec<String> = std::env::args().collect();
    let n: u64 = args.get(1).and_then(|s| s.parse().ok()).unwrap_or(40);
    let replay = args.get(2).cloned();
    std::panic::set_hook(Box::new(|_| {}));
    let mut ctx = Ctx { total: 0, nontrivial: 0, failures: 0, samples: 0, sample_next: false, replay, printed: vec![] };
    let only = |ctx: &Ctx, s: &str| ctx.replay.as_ref().map(|r| r.starts_with(s)).unwrap_or(true);
    // a panic outside the per-case guards (harness set-up through the library) must still give a RESULT line
    let r = catch_unwind(AssertUnwindSafe(|| {
        if only(&ctx, "01") {
            section1(&mut ctx, n);
        }
        if only(&ctx, "02") {
            section2(&mut ctx, n);
        }
        if only(&ctx, "06") {
            section2b(&mut ctx, n);
        }
        if only(&ctx, "03") {
            section3(&mut ctx, n);
        }
        if only(&ctx, "04") {
            section4(&mut ctx, n);
        }
        if only(&ctx, "05") {
            section5(&mut ctx, n);
        }
        if only(&ctx, "07") {
            section6(&mut ctx, n);
        }
    }));
    if r.is_err() {
        ctx.total += 1;
        ctx.nontrivial += 1;
        ctx.failures += 1;
        println!("FAIL hex=00 text=\"harness set-up (key generation for the lock matrix / hostile padding sections)\" (panic) the library panicked or failed while the fixtures were built");
    }
    println!("RESULT total={} nontrivial={} failures={}", ctx.total, ctx.nontrivial, ctx.failures);
}
